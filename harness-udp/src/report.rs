//! Evidence files, replay files, known findings, exit codes.

use std::{
    collections::{BTreeMap, BTreeSet},
    path::PathBuf,
    time::Instant,
};

use serde_json::{json, Map, Value};

pub const VERIF_DIR: &str = "/verif";

/// Output directory for evidence/replays (overridable for mutation self-tests)
pub fn out_dir() -> PathBuf {
    PathBuf::from(std::env::var("VERIF_OUT").unwrap_or_else(|_| VERIF_DIR.to_string()))
}

#[derive(Debug, Clone, Copy, PartialEq, Eq)]
pub enum Tier {
    Quick,
    Thorough,
}

impl Tier {
    pub fn name(self) -> &'static str {
        match self {
            Tier::Quick => "quick",
            Tier::Thorough => "thorough",
        }
    }
    pub fn pick<T>(self, q: T, t: T) -> T {
        match self {
            Tier::Quick => q,
            Tier::Thorough => t,
        }
    }
}

#[derive(Debug, Clone)]
pub struct Violation {
    /// Stable signature: oracle id plus discriminating facts (never the schedule)
    pub signature: String,
    pub what: String,
    pub replay: Value,
}

pub struct Args {
    pub tier: Tier,
    pub seed: u64,
    pub replay: Option<PathBuf>,
    pub rest: Vec<String>,
}

pub fn parse_args(args: &[String]) -> Args {
    let mut tier = match std::env::var("VERIF_TIER").ok().as_deref() {
        Some("thorough") => Tier::Thorough,
        _ => Tier::Quick,
    };
    let seed = std::env::var("VERIF_SEED").ok().and_then(|s| s.parse().ok()).unwrap_or(0);
    let mut replay = None;
    let mut rest = vec![];
    let mut i = 0;
    while i < args.len() {
        match args[i].as_str() {
            "--tier" => {
                i += 1;
                tier = match args.get(i).map(|s| s.as_str()) {
                    Some("thorough") => Tier::Thorough,
                    Some("quick") => Tier::Quick,
                    other => machinery(&format!("bad --tier {other:?}")),
                };
            }
            "--replay" => {
                i += 1;
                replay = Some(PathBuf::from(args.get(i).cloned().unwrap_or_default()));
            }
            x => rest.push(x.to_string()),
        }
        i += 1;
    }
    Args { tier, seed, replay, rest }
}

pub fn machinery(msg: &str) -> ! {
    eprintln!("MACHINERY-ERROR: {msg}");
    std::process::exit(2)
}

pub struct Report {
    pub id: String,
    pub tier: Tier,
    pub seed: u64,
    pub level: &'static str,
    pub start: Instant,
    pub evaluations: u64,
    pub distinct: BTreeSet<u64>,
    pub rule: String,
    pub samples: Vec<Value>,
    pub violations: Vec<Violation>,
    pub assumptions: Vec<String>,
    pub extra: Map<String, Value>,
    pub states: u64,
    pub transitions: u64,
    pub exhaustive: bool,
    pub parts: BTreeMap<String, Value>,
}

impl Report {
    pub fn new(id: &str, args: &Args, level: &'static str) -> Self {
        Self {
            id: id.to_string(),
            tier: args.tier,
            seed: args.seed,
            level,
            start: Instant::now(),
            evaluations: 0,
            distinct: BTreeSet::new(),
            rule: String::new(),
            samples: vec![],
            violations: vec![],
            assumptions: vec![],
            extra: Map::new(),
            states: 0,
            transitions: 0,
            exhaustive: true,
            parts: BTreeMap::new(),
        }
    }

    pub fn sample(&mut self, v: Value) {
        if self.samples.len() < 12 {
            self.samples.push(v);
        }
    }

    pub fn violation(&mut self, v: Violation) {
        // keep one per signature (the first = fewest deviations by construction)
        if !self.violations.iter().any(|x| x.signature == v.signature) {
            self.violations.push(v);
        }
    }

    /// Record one sub-part's coverage numbers
    pub fn part(&mut self, name: &str, v: Value) {
        self.parts.insert(name.to_string(), v);
    }

    /// Write evidence, print verdict lines, exit.
    pub fn finish(mut self) -> ! {
        let wall = self.start.elapsed().as_secs_f64();
        let known = load_known();
        let mut new_violations = vec![];
        for v in &self.violations {
            let open = known.iter().any(|k| {
                k["status"] == "open" && k["property"] == self.id.as_str() && k["signature"] == v.signature.as_str()
            });
            if open {
                println!("KNOWN-FINDING: property={} {} [{}]", self.id, v.what, v.signature);
            } else {
                new_violations.push(v.clone());
            }
        }
        let mut replay_paths = vec![];
        for (i, v) in new_violations.iter().enumerate() {
            let dir = out_dir().join("replays");
            let _ = std::fs::create_dir_all(&dir);
            let path = dir.join(format!("{}-{}-{}.json", self.id, self.tier.name(), i));
            let body = json!({
                "property": self.id, "signature": v.signature, "what": v.what, "replay": v.replay,
            });
            std::fs::write(&path, serde_json::to_string_pretty(&body).unwrap()).ok();
            replay_paths.push(path);
        }
        let mut cov = Map::new();
        cov.insert("evaluations".into(), json!(self.evaluations));
        cov.insert("distinct_nontrivial".into(), json!(self.distinct.len() as u64));
        cov.insert("rule".into(), json!(self.rule));
        cov.insert("samples".into(), Value::Array(self.samples.clone()));
        cov.insert("exhaustive".into(), json!(self.exhaustive));
        if self.level == "model_checking" {
            cov.insert("states".into(), json!(self.states));
            cov.insert("transitions".into(), json!(self.transitions));
            cov.insert("traces_validated_against_impl".into(), json!(self.transitions + self.evaluations));
        }
        cov.insert("parts".into(), json!(self.parts));
        for (k, v) in std::mem::take(&mut self.extra) {
            cov.insert(k, v);
        }
        cov.insert(
            "violations_found".into(),
            Value::Array(
                self.violations
                    .iter()
                    .map(|v| json!({"signature": v.signature, "what": v.what}))
                    .collect(),
            ),
        );
        let ev = json!({
            "property_id": self.id,
            "tier": self.tier.name(),
            "seed": self.seed,
            "level": self.level,
            "coverage": Value::Object(cov),
            "assumptions": self.assumptions,
            "wall_s": wall,
            "violations": new_violations.len(),
        });
        let dir = out_dir().join("evidence");
        let _ = std::fs::create_dir_all(&dir);
        let path = dir.join(format!("{}.json", self.id));
        if let Err(e) = std::fs::write(&path, serde_json::to_string_pretty(&ev).unwrap()) {
            machinery(&format!("cannot write evidence: {e}"));
        }
        println!(
            "{} {}: evaluations={} distinct_nontrivial={} states={} transitions={} exhaustive={} wall={:.1}s",
            self.id, self.tier.name(), self.evaluations, self.distinct.len(), self.states, self.transitions,
            self.exhaustive, wall
        );
        if self.evaluations == 0 || self.distinct.len() < 2 {
            machinery("vacuous run: no evaluations or fewer than 2 distinct non-trivial cases");
        }
        if new_violations.is_empty() {
            println!("{}: property held on everything explored", self.id);
            std::process::exit(0)
        }
        for (v, p) in new_violations.iter().zip(&replay_paths) {
            println!("  {}: {}", v.signature, v.what);
            println!("VIOLATION property={} replay={}", self.id, p.display());
        }
        std::process::exit(1)
    }
}

pub fn load_known() -> Vec<Value> {
    let p = PathBuf::from(VERIF_DIR).join("known_findings.json");
    match std::fs::read_to_string(&p) {
        Ok(s) => match serde_json::from_str::<Value>(&s) {
            Ok(v) => v["findings"].as_array().cloned().unwrap_or_default(),
            Err(e) => machinery(&format!("known_findings.json unreadable: {e}")),
        },
        Err(_) => vec![],
    }
}
