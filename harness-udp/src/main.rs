//! C19 — "The UDP layer preserves boundaries, payload and metadata".
//!
//! Bounded exhaustive enumeration over real loopback sockets driven through quinn-udp's public API
//! (`UdpSocketState::{new,try_send,recv}`): one transmit is sent, then fully received and compared
//! before the next one is issued.

mod report;

use std::{
    cell::{Cell, RefCell},
    collections::{BTreeMap, BTreeSet},
    io::{self, IoSliceMut},
    net::{IpAddr, Ipv4Addr, Ipv6Addr, SocketAddr, SocketAddrV4, SocketAddrV6},
    os::fd::AsRawFd,
    panic::{catch_unwind, AssertUnwindSafe},
    time::{Duration, Instant},
};

use quinn_udp::{EcnCodepoint, RecvMeta, Transmit, UdpSocketState, BATCH_SIZE};
use report::{machinery, parse_args, Report, Tier, Violation};
use serde_json::{json, Value};
use socket2::{Domain, Protocol, Socket, Type};

const SLOT: usize = 65536; // arena slot per receive iovec
const SHARDS_PER_PAIR: usize = 4; // 4 pair kinds x 4 shards = 16 threads
const RECV_WAIT_MS: u64 = 200;
const RESENDS: usize = 3;

// ---------------------------------------------------------------------------------------------
// socket pairs
// ---------------------------------------------------------------------------------------------

#[derive(Clone, Copy, PartialEq, Eq, Debug, Hash, PartialOrd, Ord)]
enum Kind {
    V4V4,
    V6V6,
    V4ToDual,
    DualToV4,
}

const KINDS: [Kind; 4] = [Kind::V4V4, Kind::V6V6, Kind::V4ToDual, Kind::DualToV4];

impl Kind {
    fn name(self) -> &'static str {
        match self {
            Kind::V4V4 => "v4->v4",
            Kind::V6V6 => "v6->v6",
            Kind::V4ToDual => "v4->dual6",
            Kind::DualToV4 => "dual6->v4mapped",
        }
    }
    fn from_name(s: &str) -> Option<Self> {
        KINDS.into_iter().find(|k| k.name() == s)
    }
    /// Largest UDP payload the address family on the wire allows
    fn family_max(self) -> usize {
        match self {
            Kind::V6V6 => 65527,
            _ => 65507,
        }
    }
    /// IP + UDP header bytes on the wire
    fn hdr(self) -> usize {
        match self {
            Kind::V6V6 => 48,
            _ => 28,
        }
    }
}

struct Pair {
    kind: Kind,
    send: Socket,
    recv: Socket,
    ss: UdpSocketState,
    rs: UdpSocketState,
    dst: SocketAddr,
    expect_dst_ip: IpAddr, // canonical form
    /// index 0 = None; 1.. = explicit source addresses valid for this pair, each with the source
    /// address the receiver must then report
    src_ips: Vec<(Option<IpAddr>, SocketAddr)>,
    /// whether UDP_GRO is currently enabled on the receiving socket (quinn-udp enables it when the
    /// kernel supports it; the harness can switch it off to get the un-coalesced batch shape)
    gro_on: Cell<bool>,
}

impl Pair {
    fn set_rx_gro(&self, on: bool) {
        if self.rs.gro_segments() > 1 && self.gro_on.get() != on {
            if setopt(&self.recv, libc::SOL_UDP, libc::UDP_GRO, on as i32).is_ok() {
                self.gro_on.set(on);
            }
        }
    }
}

fn sock(domain: Domain, dual: bool, bind: SocketAddr) -> io::Result<Socket> {
    let s = Socket::new(domain, Type::DGRAM, Some(Protocol::UDP))?;
    if dual {
        s.set_only_v6(false)?;
    }
    s.bind(&bind.into())?;
    Ok(s)
}

/// Does the kernel let a v4 socket bound to 127.0.0.1 send from 127.0.0.2 via IP_PKTINFO?
/// Probed with raw libc calls, independent of quinn-udp.
fn alt_src_honoured() -> bool {
    use std::sync::OnceLock;
    static R: OnceLock<bool> = OnceLock::new();
    *R.get_or_init(|| {
        let probe = || -> io::Result<bool> {
            let s = std::net::UdpSocket::bind((Ipv4Addr::LOCALHOST, 0))?;
            let r = std::net::UdpSocket::bind((Ipv4Addr::LOCALHOST, 0))?;
            r.set_read_timeout(Some(Duration::from_millis(300)))?;
            let dst = socket2::SockAddr::from(r.local_addr()?);
            let mut ctrl = [0u64; 8];
            let mut byte = [0x5au8];
            let mut iov = libc::iovec { iov_base: byte.as_mut_ptr() as _, iov_len: 1 };
            let mut hdr: libc::msghdr = unsafe { std::mem::zeroed() };
            hdr.msg_name = dst.as_ptr() as *mut _;
            hdr.msg_namelen = dst.len();
            hdr.msg_iov = &mut iov;
            hdr.msg_iovlen = 1;
            hdr.msg_control = ctrl.as_mut_ptr() as _;
            hdr.msg_controllen = unsafe { libc::CMSG_SPACE(size_of::<libc::in_pktinfo>() as _) } as _;
            unsafe {
                let c = libc::CMSG_FIRSTHDR(&hdr);
                (*c).cmsg_level = libc::IPPROTO_IP;
                (*c).cmsg_type = libc::IP_PKTINFO;
                (*c).cmsg_len = libc::CMSG_LEN(size_of::<libc::in_pktinfo>() as _) as _;
                std::ptr::write(
                    libc::CMSG_DATA(c) as *mut libc::in_pktinfo,
                    libc::in_pktinfo {
                        ipi_ifindex: 0,
                        ipi_spec_dst: libc::in_addr { s_addr: u32::from_ne_bytes([127, 0, 0, 2]) },
                        ipi_addr: libc::in_addr { s_addr: 0 },
                    },
                );
                if libc::sendmsg(s.as_raw_fd(), &hdr, 0) < 0 {
                    return Ok(false);
                }
            }
            let mut b = [0u8; 8];
            let (_, from) = r.recv_from(&mut b)?;
            Ok(from.ip() == IpAddr::V4(Ipv4Addr::new(127, 0, 0, 2)))
        };
        probe().unwrap_or(false)
    })
}

fn mk_pair(kind: Kind) -> io::Result<Pair> {
    let v4lo: SocketAddr = (Ipv4Addr::LOCALHOST, 0).into();
    let v6lo: SocketAddr = (Ipv6Addr::LOCALHOST, 0).into();
    let v6any: SocketAddr = (Ipv6Addr::UNSPECIFIED, 0).into();
    let (send, recv) = match kind {
        Kind::V4V4 => (sock(Domain::IPV4, false, v4lo)?, sock(Domain::IPV4, false, v4lo)?),
        Kind::V6V6 => (sock(Domain::IPV6, false, v6lo)?, sock(Domain::IPV6, false, v6lo)?),
        Kind::V4ToDual => (sock(Domain::IPV4, false, v4lo)?, sock(Domain::IPV6, true, v6any)?),
        Kind::DualToV4 => (sock(Domain::IPV6, true, v6any)?, sock(Domain::IPV4, false, v4lo)?),
    };
    let sport = send.local_addr()?.as_socket().unwrap().port();
    let rport = recv.local_addr()?.as_socket().unwrap().port();
    let mapped = Ipv4Addr::LOCALHOST.to_ipv6_mapped();
    let (dst, expect_addr, expect_dst_ip, src_ips): (SocketAddr, SocketAddr, IpAddr, Vec<Option<IpAddr>>) = match kind {
        Kind::V4V4 => (
            (Ipv4Addr::LOCALHOST, rport).into(),
            (Ipv4Addr::LOCALHOST, sport).into(),
            Ipv4Addr::LOCALHOST.into(),
            vec![None, Some(Ipv4Addr::LOCALHOST.into())],
        ),
        Kind::V6V6 => (
            (Ipv6Addr::LOCALHOST, rport).into(),
            SocketAddr::V6(SocketAddrV6::new(Ipv6Addr::LOCALHOST, sport, 0, 0)),
            Ipv6Addr::LOCALHOST.into(),
            vec![None, Some(Ipv6Addr::LOCALHOST.into())],
        ),
        // the dual-stack receiver sees the v4 peer as a v4-mapped v6 address (Linux)
        Kind::V4ToDual => (
            (Ipv4Addr::LOCALHOST, rport).into(),
            SocketAddr::V6(SocketAddrV6::new(mapped, sport, 0, 0)),
            Ipv4Addr::LOCALHOST.into(),
            vec![None, Some(Ipv4Addr::LOCALHOST.into())],
        ),
        // quinn hands back RecvMeta::dst_ip as src_ip; on a dual-stack socket that is the mapped
        // form. The plain v4 form is also legal input (IP_PKTINFO cmsg on a v6 socket).
        Kind::DualToV4 => (
            SocketAddr::V6(SocketAddrV6::new(mapped, rport, 0, 0)),
            SocketAddr::V4(SocketAddrV4::new(Ipv4Addr::LOCALHOST, sport)),
            Ipv4Addr::LOCALHOST.into(),
            vec![None, Some(mapped.into()), Some(Ipv4Addr::LOCALHOST.into())],
        ),
    };
    // a second loopback address (127.0.0.2) as explicit source makes "the source address is
    // conveyed" discriminating on v4; used only if the kernel honours it for a raw sendmsg
    let mut src_ips = src_ips;
    if kind != Kind::V6V6 && alt_src_honoured() {
        let alt = Ipv4Addr::new(127, 0, 0, 2);
        src_ips.push(Some(if kind == Kind::DualToV4 { alt.to_ipv6_mapped().into() } else { alt.into() }));
    }
    let src_ips = src_ips
        .into_iter()
        .map(|ip| {
            let alt = ip.map_or(false, |ip| ip.to_canonical() == IpAddr::V4(Ipv4Addr::new(127, 0, 0, 2)));
            let mut a = expect_addr;
            if alt {
                match &mut a {
                    SocketAddr::V4(a) => a.set_ip(Ipv4Addr::new(127, 0, 0, 2)),
                    SocketAddr::V6(a) => a.set_ip(Ipv4Addr::new(127, 0, 0, 2).to_ipv6_mapped()),
                }
            }
            (ip, a)
        })
        .collect();
    let ss = UdpSocketState::new((&send).into())?;
    let rs = UdpSocketState::new((&recv).into())?;
    let _ = rs.set_recv_buffer_size((&recv).into(), 4 << 20);
    let gro_on = Cell::new(rs.gro_segments() > 1);
    Ok(Pair { kind, send, recv, ss, rs, dst, expect_dst_ip, src_ips, gro_on })
}

// ---------------------------------------------------------------------------------------------
// cases
// ---------------------------------------------------------------------------------------------

#[derive(Clone, Copy, PartialEq, Eq, Debug, Hash, PartialOrd, Ord)]
enum RxSize {
    Exact,
    Plus1,
    Max,
}

impl RxSize {
    fn name(self) -> &'static str {
        match self {
            RxSize::Exact => "exact",
            RxSize::Plus1 => "plus1",
            RxSize::Max => "max",
        }
    }
    fn bytes(self, total: usize) -> usize {
        match self {
            RxSize::Exact => total,
            RxSize::Plus1 => total + 1,
            RxSize::Max => 65535,
        }
    }
}

#[derive(Clone, Debug, Hash, PartialEq, Eq)]
struct Case {
    kind: Kind,
    /// `Transmit::segment_size`
    seg: Option<usize>,
    /// number of datagrams the transmit describes
    count: usize,
    /// length of the last (or only) datagram
    last: usize,
    ecn: Option<u8>,
    /// index into `Pair::src_ips`
    src: usize,
    rx_size: RxSize,
    rx_bufs: usize,
    /// receiving socket keeps UDP_GRO enabled (as quinn-udp sets it up) or has it switched off
    rx_gro: bool,
}

fn ecn_name(e: Option<u8>) -> Value {
    match e.and_then(EcnCodepoint::from_bits) {
        None => Value::Null,
        Some(c) => json!(format!("{c:?}")),
    }
}

impl Case {
    fn total(&self) -> usize {
        (self.count - 1) * self.seg.unwrap_or(0) + self.last
    }
    /// (offset, len) of every datagram the transmit describes
    fn segments(&self) -> Vec<(usize, usize)> {
        let s = self.seg.unwrap_or(0);
        (0..self.count).map(|i| (i * s, if i + 1 == self.count { self.last } else { s })).collect()
    }
    fn id(&self) -> u32 {
        fnv(&format!("{self:?}")) as u32
    }
    fn is_gso(&self) -> bool {
        self.seg.is_some()
    }
    fn to_json(&self) -> Value {
        json!({
            "stage": "sweep", "pair": self.kind.name(), "segment_size": self.seg, "count": self.count,
            "last": self.last, "total": self.total(), "ecn": ecn_name(self.ecn), "src": self.src,
            "rx_size": self.rx_size.name(), "rx_bufs": self.rx_bufs, "rx_gro": self.rx_gro,
        })
    }
    fn from_json(v: &Value) -> Option<Self> {
        Some(Self {
            kind: Kind::from_name(v["pair"].as_str()?)?,
            seg: v["segment_size"].as_u64().map(|x| x as usize),
            count: v["count"].as_u64()? as usize,
            last: v["last"].as_u64()? as usize,
            ecn: match v["ecn"].as_str() {
                None => None,
                Some("Ect0") => Some(0b10),
                Some("Ect1") => Some(0b01),
                Some("Ce") => Some(0b11),
                Some(_) => return None,
            },
            src: v["src"].as_u64()? as usize,
            rx_size: match v["rx_size"].as_str()? {
                "exact" => RxSize::Exact,
                "plus1" => RxSize::Plus1,
                "max" => RxSize::Max,
                _ => return None,
            },
            rx_bufs: v["rx_bufs"].as_u64()? as usize,
            rx_gro: v["rx_gro"].as_bool().unwrap_or(true),
        })
    }
    /// What counts as one distinct non-trivial case (see `rule`)
    fn class(&self) -> u64 {
        let total = self.total();
        let len_class = usize::BITS - total.leading_zeros(); // log2 bucket of the total length
        let last_kind = match (self.seg, self.last) {
            (None, _) => 0,
            (Some(s), l) if l == s => 1,
            (Some(_), 1) => 2,
            _ => 3,
        };
        // gso shape: the five named segment sizes exactly, others by log2 bucket; counts 1..3 and the
        // top of the range exactly, the middle by log2 bucket
        let seg_class = match self.seg {
            None => 0,
            Some(s) if SEG_SIZES.contains(&s) => s,
            Some(s) => 1_000_000 + (usize::BITS - s.leading_zeros()) as usize,
        };
        let count_class = match self.count {
            c if c <= 3 || c >= 62 => c,
            c => 100 + (usize::BITS - c.leading_zeros()) as usize,
        };
        fnv(&format!(
            "{:?}|{len_class}|{seg_class}|{count_class}|{last_kind}|{:?}|{}|{:?}|{}|{}",
            self.kind, self.ecn, self.src, self.rx_size, self.rx_bufs, self.rx_gro
        ))
    }
}

fn fnv(s: &str) -> u64 {
    let mut h = 0xcbf29ce484222325u64;
    for b in s.bytes() {
        h = (h ^ b as u64).wrapping_mul(0x100000001b3);
    }
    h
}

/// Byte `i` of segment `s` of case `id`: a mixing hash, so any shifted, swapped or foreign byte shows
fn pat(id: u32, s: usize, i: usize) -> u8 {
    let x = (id ^ ((s as u32) << 20) ^ (i as u32)).wrapping_mul(0x9E3779B1);
    ((x >> 24) ^ (x >> 11)) as u8
}

fn contents(case: &Case) -> Vec<u8> {
    let id = case.id();
    let mut v = Vec::with_capacity(case.total());
    for (s, (_, len)) in case.segments().into_iter().enumerate() {
        v.extend((0..len).map(|i| pat(id, s, i)));
    }
    v
}

const SEG_SIZES: [usize; 5] = [1, 2, 100, 1200, 1452];
const ECNS: [Option<u8>; 4] = [None, Some(0b10), Some(0b01), Some(0b11)];

#[derive(Clone, Copy, Debug)]
struct Shape {
    seg: Option<usize>,
    count: usize,
    last: usize,
    /// all six receive shapes, or only (exact, 1 iovec) and (65535, BATCH_SIZE iovecs)
    full_rx: bool,
    /// quick tier, dense segment-size block: the GRO-off receiver is read with BATCH_SIZE iovecs
    /// only (the one-iovec variant costs one syscall per segment)
    lean: bool,
}

/// The transmit shapes for one pair kind. `max_gso` is what the freshly created socket reports.
fn shapes(kind: Kind, tier: Tier, max_gso: usize) -> Vec<Shape> {
    let mut out = vec![];
    let lasts = |seg: usize| BTreeSet::from([seg, 1, (seg / 2).max(1)]);
    // counts: up to the socket's limit, but not past the first count whose total exceeds the
    // family's maximum payload (that one is kept, to observe the documented EMSGSIZE)
    let hi = |seg: usize| max_gso.min((kind.family_max() / seg).max(1) + 1);
    // GSO shapes first, so that a deadline hit loses the least interesting tail
    for seg in SEG_SIZES {
        for count in 1..=hi(seg) {
            for last in lasts(seg) {
                out.push(Shape { seg: Some(seg), count, last, full_rx: true, lean: false });
            }
        }
    }
    if max_gso > 1 {
        // every other segment size up to the Ethernet-sized maximum
        for seg in (1..=1472usize).filter(|s| !SEG_SIZES.contains(s)) {
            let h = hi(seg);
            let counts: BTreeSet<usize> = match tier {
                Tier::Quick => [2, 3, h - 1, h].into_iter().filter(|&c| c >= 2).collect(),
                Tier::Thorough => (1..=h).collect(),
            };
            for count in counts {
                for last in lasts(seg) {
                    out.push(Shape { seg: Some(seg), count, last, full_rx: false, lean: tier == Tier::Quick });
                }
            }
        }
    }
    // `segment_size` given but not smaller than the contents: documented as a plain datagram
    for len in [1, 100, 1200, 1452, 1500] {
        out.push(Shape { seg: Some(len), count: 1, last: len, full_rx: true, lean: false });
    }
    // unsegmented
    let fmax = kind.family_max();
    let n = tier.pick(1500, 2048);
    let mut lens: BTreeSet<usize> = (1..=n).collect();
    lens.extend([4096, 8192, 16384, 32768, 65000, fmax]);
    let dense_from = n + 1;
    match tier {
        Tier::Quick => {
            // boundaries: powers of two, the last lengths below the family maximum, and the
            // window around "loopback MTU minus headers" where EMSGSIZE starts
            for k in 11..=15 {
                lens.extend([(1usize << k) - 1, 1 << k, (1 << k) + 1]);
            }
            lens.extend(fmax - 40..=fmax);
            let edge = lo_mtu().saturating_sub(kind.hdr());
            lens.extend((edge.saturating_sub(20)..=edge + 20).filter(|&l| l >= 1 && l <= fmax));
        }
        // literally every payload length the family allows
        Tier::Thorough => lens.extend(1..=fmax),
    }
    for len in lens {
        let full_rx = tier == Tier::Quick || len < dense_from;
        out.push(Shape { seg: None, count: 1, last: len, full_rx, lean: false });
    }
    out
}

/// Shape x ECN x src_ip x receive buffer size x receive iovecs x receiver GRO on/off
fn expand(sh: &Shape, kind: Kind, n_src: usize, gro_supported: bool) -> Vec<Case> {
    let mut out = vec![];
    let rx: &[(RxSize, usize)] = if sh.full_rx {
        &[
            (RxSize::Exact, 1), (RxSize::Exact, BATCH_SIZE), (RxSize::Plus1, 1), (RxSize::Plus1, BATCH_SIZE),
            (RxSize::Max, 1), (RxSize::Max, BATCH_SIZE),
        ]
    } else {
        &[(RxSize::Exact, 1), (RxSize::Max, BATCH_SIZE)]
    };
    // switching the receiver's GRO off only matters for transmits of more than one datagram
    let gros: &[bool] = if gro_supported && sh.seg.is_some() && sh.count > 1 { &[true, false] } else { &[true] };
    for ecn in ECNS {
        for src in 0..n_src {
            for &(rx_size, rx_bufs) in rx {
                for &rx_gro in gros {
                    if sh.lean && !rx_gro && rx_bufs == 1 {
                        continue;
                    }
                    out.push(Case { kind, seg: sh.seg, count: sh.count, last: sh.last, ecn, src, rx_size, rx_bufs, rx_gro });
                }
            }
        }
    }
    out
}

// ---------------------------------------------------------------------------------------------
// running one case
// ---------------------------------------------------------------------------------------------

#[derive(Debug)]
enum Outcome {
    /// received and compared equal
    Ok { coalesced: bool, recv_calls: usize },
    /// `try_send` returned a documented error for this shape (EMSGSIZE on an oversize payload)
    ExpectedErr(String),
    Inconclusive(String),
    Bad { kind: &'static str, what: String },
}

enum Rx {
    Complete { coalesced: bool, calls: usize },
    Nothing,
    Bad { kind: &'static str, what: String, coalesced: bool },
}

fn poll_in(s: &Socket, ms: i32) -> bool {
    let mut pfd = libc::pollfd { fd: s.as_raw_fd(), events: libc::POLLIN, revents: 0 };
    unsafe { libc::poll(&mut pfd, 1, ms) > 0 }
}

fn drain(p: &Pair, arena: &mut [u8]) -> usize {
    let mut n = 0;
    let mut meta = [RecvMeta::default(); 1];
    loop {
        let mut bufs = [IoSliceMut::new(&mut arena[..SLOT - 1])];
        // a panic inside recv is reported by the case that hit it; here it just ends the drain
        match catch_unwind(AssertUnwindSafe(|| p.rs.recv((&p.recv).into(), &mut bufs, &mut meta))) {
            Ok(Ok(k)) if k > 0 => n += k,
            Err(_) => n += 1, // the datagram was consumed by the kernel before the panic
            _ => return n,
        }
        if n > 100_000 {
            return n;
        }
    }
}

fn hex(b: &[u8]) -> String {
    let h: String = b.iter().take(24).map(|x| format!("{x:02x}")).collect();
    if b.len() > 24 {
        format!("{h}..({}B)", b.len())
    } else {
        h
    }
}

/// Receive everything one transmit should produce and compare it
fn receive(p: &Pair, case: &Case, sent: &[u8], arena: &mut [u8], verbose: bool) -> Rx {
    let segs = case.segments();
    let size = case.rx_size.bytes(case.total());
    let mut meta = [RecvMeta::default(); BATCH_SIZE];
    let mut next = 0usize; // next expected datagram
    let mut calls = 0usize;
    let mut coalesced = false;
    let deadline = Instant::now() + Duration::from_millis(RECV_WAIT_MS);
    loop {
        let res = {
            let mut bufs: Vec<IoSliceMut<'_>> =
                arena.chunks_mut(SLOT).take(case.rx_bufs).map(|c| IoSliceMut::new(&mut c[..size])).collect();
            p.rs.recv((&p.recv).into(), &mut bufs, &mut meta)
        };
        let n = match res {
            Ok(n) => n,
            Err(e) if e.kind() == io::ErrorKind::WouldBlock => {
                if next == segs.len() {
                    return Rx::Complete { coalesced, calls };
                }
                let left = deadline.saturating_duration_since(Instant::now());
                if left.is_zero() {
                    if next == 0 {
                        return Rx::Nothing;
                    }
                    return Rx::Bad {
                        kind: "datagrams-missing",
                        what: format!("only {next} of {} datagrams of one transmit arrived within {RECV_WAIT_MS} ms", segs.len()),
                        coalesced,
                    };
                }
                poll_in(&p.recv, left.as_millis().clamp(1, 20) as i32);
                continue;
            }
            Err(e) => return Rx::Bad { kind: "recv-error", what: format!("recv failed: {e}"), coalesced },
        };
        calls += 1;
        if n > case.rx_bufs.min(BATCH_SIZE) {
            return Rx::Bad { kind: "recv-count", what: format!("recv returned {n} for {} buffers", case.rx_bufs), coalesced };
        }
        for k in 0..n {
            let m = meta[k];
            if verbose {
                println!("  recv call {calls} buf {k}: {m:?}");
            }
            if m.len > size {
                return Rx::Bad { kind: "len-exceeds-buffer", what: format!("meta.len {} > buffer {size}", m.len), coalesced };
            }
            if m.stride == 0 && m.len > 0 {
                return Rx::Bad { kind: "stride-zero", what: format!("{m:?}"), coalesced };
            }
            let buf = &arena[k * SLOT..k * SLOT + m.len];
            let this_coalesced = m.len > m.stride;
            coalesced |= this_coalesced;
            let mut off = 0;
            loop {
                let end = (off + m.stride.max(1)).min(m.len);
                let got = &buf[off..end];
                if verbose {
                    println!("    datagram #{next}: {} bytes {}", got.len(), hex(got));
                }
                if next >= segs.len() {
                    return Rx::Bad {
                        kind: "extra-datagram",
                        what: format!("datagram of {} bytes after all {} expected ones ({m:?})", got.len(), segs.len()),
                        coalesced,
                    };
                }
                let (eo, el) = segs[next];
                let want = &sent[eo..eo + el];
                if got.len() != el {
                    return Rx::Bad {
                        kind: "boundary-mismatch",
                        what: format!(
                            "datagram #{next}: expected {el} bytes, receive reports {} (len {} stride {})",
                            got.len(), m.len, m.stride
                        ),
                        coalesced,
                    };
                }
                if got != want {
                    let at = got.iter().zip(want).position(|(a, b)| a != b).unwrap();
                    return Rx::Bad {
                        kind: "payload-mismatch",
                        what: format!("datagram #{next}: first differing byte at {at}: got {:02x} want {:02x}", got[at], want[at]),
                        coalesced,
                    };
                }
                next += 1;
                off = end;
                if off >= m.len {
                    break;
                }
            }
            // metadata
            let want_ecn = case.ecn.and_then(EcnCodepoint::from_bits);
            if m.ecn != want_ecn {
                return Rx::Bad {
                    kind: "ecn-mismatch",
                    what: format!("sent ecn {want_ecn:?}, receive reports {:?} (len {} stride {})", m.ecn, m.len, m.stride),
                    coalesced: this_coalesced,
                };
            }
            let (src_ip, expect_addr) = p.src_ips[case.src];
            if m.addr != expect_addr {
                return Rx::Bad {
                    kind: "addr-mismatch",
                    what: format!("source {} expected {} (src_ip {src_ip:?})", m.addr, expect_addr),
                    coalesced: this_coalesced,
                };
            }
            if let Some(d) = m.dst_ip {
                if d.to_canonical() != p.expect_dst_ip {
                    return Rx::Bad {
                        kind: "dst-ip-mismatch",
                        what: format!("dst_ip {d} expected {}", p.expect_dst_ip),
                        coalesced: this_coalesced,
                    };
                }
            }
        }
        // when everything expected has arrived the loop issues one more non-blocking recv:
        // nothing further may arrive (split / duplicate); WouldBlock then completes the case
    }
}

fn run_case(p: &Pair, case: &Case, arena: &mut [u8], verbose: bool) -> Outcome {
    let sent = contents(case);
    let t = Transmit {
        destination: p.dst,
        ecn: case.ecn.and_then(EcnCodepoint::from_bits),
        contents: &sent,
        segment_size: case.seg,
        src_ip: p.src_ips[case.src].0,
    };
    if verbose {
        println!(
            "send Transmit {{ destination: {}, ecn: {:?}, contents: {} bytes [{}], segment_size: {:?}, src_ip: {:?} }} -> {} datagram(s) expected; rx {} x {} bytes",
            t.destination, t.ecn, sent.len(), hex(&sent), t.segment_size, t.src_ip, case.count,
            case.rx_bufs, case.rx_size.bytes(case.total())
        );
    }
    p.set_rx_gro(case.rx_gro);
    let gso_before = p.ss.max_gso_segments();
    let mut silent = 0;
    loop {
        let mut wb = 0;
        let r = loop {
            match p.ss.try_send((&p.send).into(), &t) {
                Err(e) if e.kind() == io::ErrorKind::WouldBlock && wb < 100 => {
                    wb += 1;
                    std::thread::sleep(Duration::from_millis(1));
                }
                r => break r,
            }
        };
        if verbose {
            println!("  try_send -> {r:?}; max_gso_segments now {}", p.ss.max_gso_segments());
        }
        if let Err(e) = r {
            // EMSGSIZE is the documented answer when the payload cannot be sent unfragmented:
            // beyond the family's maximum, or beyond the loopback MTU with DF / IPV6_DONTFRAG set
            let total = case.total();
            let oversize = total > case.kind.family_max() || total + case.kind.hdr() > lo_mtu();
            if e.raw_os_error() == Some(libc::EMSGSIZE) && oversize {
                return Outcome::ExpectedErr(format!("EMSGSIZE for {total} bytes"));
            }
            return Outcome::Bad {
                kind: "send-error",
                what: format!("try_send failed with {e} (total {total}, max_gso_segments {gso_before} -> {})", p.ss.max_gso_segments()),
            };
        }
        if p.ss.max_gso_segments() != gso_before {
            return Outcome::Bad {
                kind: "gso-disabled",
                what: format!("max_gso_segments fell {gso_before} -> {} on a successful send", p.ss.max_gso_segments()),
            };
        }
        match receive(p, case, &sent, arena, verbose) {
            Rx::Complete { coalesced, calls } => return Outcome::Ok { coalesced, recv_calls: calls },
            Rx::Bad { kind, what, coalesced } => {
                drain(p, arena);
                let kind = if coalesced { gro_kind(kind) } else { kind };
                return Outcome::Bad { kind, what };
            }
            Rx::Nothing => {
                silent += 1;
                if silent > RESENDS {
                    return Outcome::Inconclusive(format!("nothing received after {} sends", silent));
                }
            }
        }
    }
}

/// Mark a finding that was seen on a GRO-coalesced buffer (static strings keep signatures stable)
fn gro_kind(kind: &'static str) -> &'static str {
    match kind {
        "ecn-mismatch" => "ecn-mismatch+gro",
        "boundary-mismatch" => "boundary-mismatch+gro",
        "payload-mismatch" => "payload-mismatch+gro",
        "addr-mismatch" => "addr-mismatch+gro",
        "dst-ip-mismatch" => "dst-ip-mismatch+gro",
        k => k,
    }
}

fn lo_mtu() -> usize {
    use std::sync::OnceLock;
    static MTU: OnceLock<usize> = OnceLock::new();
    *MTU.get_or_init(|| {
        std::fs::read_to_string("/sys/class/net/lo/mtu").ok().and_then(|s| s.trim().parse().ok()).unwrap_or(65536)
    })
}

thread_local! { static PANIC_MSG: RefCell<String> = const { RefCell::new(String::new()) }; }

fn guarded(p: &Pair, case: &Case, arena: &mut [u8], verbose: bool) -> Outcome {
    match catch_unwind(AssertUnwindSafe(|| run_case(p, case, arena, verbose))) {
        Ok(o) => o,
        Err(_) => {
            let msg = PANIC_MSG.with(|m| m.borrow().clone());
            drain(p, arena);
            Outcome::Bad { kind: "panic", what: format!("panic: {msg}") }
        }
    }
}

// ---------------------------------------------------------------------------------------------
// sweep
// ---------------------------------------------------------------------------------------------

#[derive(Default)]
struct Stats {
    planned: u64,
    evaluations: u64,
    compared: u64,
    coalesced: u64,
    expected_err: u64,
    inconclusive: u64,
    recv_calls: u64,
    not_run: u64,
    distinct: BTreeSet<u64>,
    violations: Vec<Violation>,
    samples: Vec<Value>,
    inconclusive_samples: Vec<Value>,
    expected_err_samples: Vec<Value>,
}

impl Stats {
    fn merge(&mut self, o: Stats) {
        self.planned += o.planned;
        self.evaluations += o.evaluations;
        self.compared += o.compared;
        self.coalesced += o.coalesced;
        self.expected_err += o.expected_err;
        self.inconclusive += o.inconclusive;
        self.recv_calls += o.recv_calls;
        self.not_run += o.not_run;
        self.distinct.extend(o.distinct);
        for v in o.violations {
            // one per signature; across shards keep the smallest example
            let size = |v: &Violation| (v.replay["count"].as_u64().unwrap_or(0), v.replay["total"].as_u64().unwrap_or(0));
            match self.violations.iter_mut().find(|x| x.signature == v.signature) {
                Some(x) if size(&v) < size(x) => *x = v,
                Some(_) => {}
                None => self.violations.push(v),
            }
        }
        self.samples.extend(o.samples);
        self.inconclusive_samples.extend(o.inconclusive_samples);
        self.expected_err_samples.extend(o.expected_err_samples);
    }
}

fn run_shard(p: &Pair, shapes: &[Shape], deadline: Instant) -> Stats {
    let mut st = Stats::default();
    let mut arena = vec![0u8; SLOT * BATCH_SIZE];
    let gro_supported = p.rs.gro_segments() > 1;
    let mut expired = false;
    for case in shapes.iter().flat_map(|sh| expand(sh, p.kind, p.src_ips.len(), gro_supported)) {
        let case = &case;
        st.planned += 1;
        expired = expired || (st.planned % 64 == 0 && Instant::now() >= deadline);
        if expired {
            st.not_run += 1;
            continue;
        }
        st.evaluations += 1;
        match guarded(p, case, &mut arena, false) {
            Outcome::Ok { coalesced, recv_calls } => {
                st.compared += 1;
                st.coalesced += coalesced as u64;
                st.recv_calls += recv_calls as u64;
                st.distinct.insert(case.class());
                // a few written-out cases: spread over the shard
                if st.samples.len() < 2 && (st.compared == 17 || st.compared == 4001) {
                    let mut v = case.to_json();
                    v["result"] = json!({"coalesced_by_gro": coalesced, "recv_calls": recv_calls, "verdict": "equal"});
                    st.samples.push(v);
                }
            }
            Outcome::ExpectedErr(e) => {
                st.expected_err += 1;
                if st.expected_err_samples.len() < 2 {
                    let mut v = case.to_json();
                    v["result"] = json!(e);
                    st.expected_err_samples.push(v);
                }
            }
            Outcome::Inconclusive(e) => {
                st.inconclusive += 1;
                if st.inconclusive_samples.len() < 3 {
                    let mut v = case.to_json();
                    v["result"] = json!(e);
                    st.inconclusive_samples.push(v);
                }
            }
            Outcome::Bad { kind, what } => {
                let sig = format!("{kind}:{}:{}", case.kind.name(), if case.is_gso() { "gso" } else { "plain" });
                if !st.violations.iter().any(|v| v.signature == sig) {
                    st.violations.push(Violation {
                        signature: sig,
                        what: format!("{what} — case {}", case.to_json()),
                        replay: case.to_json(),
                    });
                }
            }
        }
    }
    st
}

// ---------------------------------------------------------------------------------------------
// fallback path
// ---------------------------------------------------------------------------------------------

#[derive(Clone, Copy, Debug, PartialEq)]
enum Trigger {
    /// a transmit with more segments than any kernel accepts (EINVAL from udp_send_skb)
    Oversize,
    /// checksums disabled on the sending socket: the kernel refuses UDP_SEGMENT (EINVAL) while
    /// plain sends keep working — a socket on which the offload is genuinely unsupported
    NoCheck,
}

impl Trigger {
    fn name(self) -> &'static str {
        match self {
            Trigger::Oversize => "oversize-count",
            Trigger::NoCheck => "no-check",
        }
    }
}

fn setopt(s: &Socket, level: i32, name: i32, val: i32) -> io::Result<()> {
    let rc = unsafe { libc::setsockopt(s.as_raw_fd(), level, name, &val as *const _ as _, 4) };
    if rc == 0 {
        Ok(())
    } else {
        Err(io::Error::last_os_error())
    }
}

const UDP_NO_CHECK6_TX: i32 = 101;
const UDP_NO_CHECK6_RX: i32 = 102;

/// Returns (evidence, violations, compared classes)
fn fallback(kind: Kind, trig: Trigger, verbose: bool) -> (Value, Vec<Violation>, Vec<u64>, u64) {
    let replay = json!({"stage": "fallback", "pair": kind.name(), "trigger": trig.name()});
    let mut viol = vec![];
    let mut classes = vec![];
    let mut evals = 0u64;
    let bad = |kind_s: &str, what: String, viol: &mut Vec<Violation>| {
        let sig = format!("{kind_s}:{}:fallback", kind.name());
        if !viol.iter().any(|v: &Violation| v.signature == sig) {
            viol.push(Violation { signature: sig, what: format!("{what} — {replay}"), replay: replay.clone() });
        }
    };
    let p = match mk_pair(kind) {
        Ok(p) => p,
        Err(e) => return (json!({"skipped": format!("cannot create pair: {e}")}), viol, classes, evals),
    };
    let mut arena = vec![0u8; SLOT * BATCH_SIZE];
    let before = p.ss.max_gso_segments();
    if before <= 1 {
        return (json!({"skipped": "max_gso_segments() is already 1"}), viol, classes, evals);
    }
    if trig == Trigger::NoCheck {
        let r = if kind == Kind::V6V6 {
            setopt(&p.send, libc::SOL_UDP, UDP_NO_CHECK6_TX, 1).and_then(|_| setopt(&p.recv, libc::SOL_UDP, UDP_NO_CHECK6_RX, 1))
        } else {
            setopt(&p.send, libc::SOL_SOCKET, libc::SO_NO_CHECK, 1)
        };
        if let Err(e) = r {
            return (json!({"skipped": format!("cannot disable checksums: {e}")}), viol, classes, evals);
        }
    }
    // 1. the offending GSO transmit
    let (seg, count) = match trig {
        Trigger::Oversize => (4usize, 300usize),
        Trigger::NoCheck => (100, 3),
    };
    let trigger_case = Case { kind, seg: Some(seg), count, last: seg, ecn: Some(0b10), src: 0, rx_size: RxSize::Max, rx_bufs: BATCH_SIZE, rx_gro: true };
    let body = contents(&trigger_case);
    let t = Transmit { destination: p.dst, ecn: Some(EcnCodepoint::Ect0), contents: &body, segment_size: Some(seg), src_ip: None };
    let r = catch_unwind(AssertUnwindSafe(|| p.ss.try_send((&p.send).into(), &t)));
    evals += 1;
    let after = p.ss.max_gso_segments();
    let send_res = match &r {
        Ok(r) => format!("{r:?}"),
        Err(_) => format!("panic: {}", PANIC_MSG.with(|m| m.borrow().clone())),
    };
    if verbose {
        println!("trigger {trig:?}: GSO transmit {seg} x {count}: try_send -> {send_res}; max_gso_segments {before} -> {after}");
    }
    if r.is_err() {
        bad("panic", send_res.clone(), &mut viol);
    }
    let leaked = drain(&p, &mut arena);
    let mut ev = json!({
        "trigger_transmit": {"segment_size": seg, "count": count}, "try_send": send_res,
        "max_gso_segments_before": before, "max_gso_segments_after": after,
        "datagrams_of_failed_transmit_received": leaked,
    });
    if after != 1 {
        ev["not_exercised"] = json!("the kernel did not reject the offload, max_gso_segments() unchanged");
        return (ev, viol, classes, evals);
    }
    // 2. what a caller does once max_gso_segments() == 1: one datagram per transmit. Both the plain
    //    form and the "split-up GSO batch" form (segment_size still set, contents not larger; the last
    //    one shorter) must arrive intact; also the send() wrapper must keep working.
    let mut ecn_seen: BTreeMap<String, u64> = BTreeMap::new();
    let mut n_ok = 0u64;
    let mut n_inconclusive = 0u64;
    for (segsz, len) in [
        (None, 1usize), (None, 100), (None, 1200), (None, 1452), (None, 1500), (None, 9000),
        (Some(1200), 1200), (Some(1200), 1200), (Some(1200), 517), (Some(1200), 1), (Some(1452), 1452), (Some(1452), 726),
        (Some(100), 100), (Some(100), 50), (Some(1), 1),
    ] {
        for ecn in ECNS {
            for src in 0..p.src_ips.len() {
                for (rx_size, rx_bufs) in [(RxSize::Exact, 1), (RxSize::Max, BATCH_SIZE)] {
                    // after EINVAL quinn-udp stops sending IP_TOS on v4 destinations (documented
                    // old-kernel fallback), so ECN is compared on v6 only and recorded for v4
                    let v4_dest = kind != Kind::V6V6;
                    let case = Case { kind, seg: segsz, count: 1, last: len, ecn, src, rx_size, rx_bufs, rx_gro: true };
                    let mut probe = case.clone();
                    if v4_dest {
                        probe.ecn = None;
                    }
                    evals += 1;
                    // run with the real ecn on the wire, compare against the expectation
                    let out = match catch_unwind(AssertUnwindSafe(|| run_fallback_case(&p, &case, &probe, &mut arena, verbose))) {
                        Ok(o) => o,
                        Err(_) => (Outcome::Bad { kind: "panic", what: PANIC_MSG.with(|m| m.borrow().clone()) }, None),
                    };
                    if let Some(e) = out.1 {
                        *ecn_seen.entry(format!("sent {:?} -> seen {:?}", ecn.and_then(EcnCodepoint::from_bits), e)).or_default() += 1;
                    }
                    match out.0 {
                        Outcome::Ok { .. } => {
                            n_ok += 1;
                            classes.push(fnv(&format!("fallback|{}|{}", trig.name(), case.class())));
                        }
                        Outcome::ExpectedErr(_) => {}
                        Outcome::Inconclusive(_) => n_inconclusive += 1,
                        Outcome::Bad { kind: k, what } => bad(k, format!("after GSO was disabled: {what} — case {}", case.to_json()), &mut viol),
                    }
                }
            }
        }
    }
    ev["plain_transmits_after_fallback"] = json!({"compared_equal": n_ok, "inconclusive": n_inconclusive});
    ev["ecn_after_fallback"] = json!(ecn_seen);
    (ev, viol, classes, evals)
}

/// Like `run_case`, but the ECN expectation may differ from what is requested (`expect.ecn`);
/// returns the codepoint actually observed.
fn run_fallback_case(
    p: &Pair,
    case: &Case,
    expect: &Case,
    arena: &mut [u8],
    verbose: bool,
) -> (Outcome, Option<Option<EcnCodepoint>>) {
    if case.ecn == expect.ecn {
        let o = run_case(p, case, arena, verbose);
        let seen = matches!(o, Outcome::Ok { .. }).then(|| case.ecn.and_then(EcnCodepoint::from_bits));
        return (o, seen);
    }
    // v4 destination after fallback: accept "conveyed" or "dropped", record which
    let o = run_case(p, case, arena, verbose);
    match o {
        Outcome::Ok { .. } => (o, Some(case.ecn.and_then(EcnCodepoint::from_bits))),
        Outcome::Bad { kind: "ecn-mismatch", ref what } if what.contains("receive reports None") => {
            (Outcome::Ok { coalesced: false, recv_calls: 1 }, Some(None))
        }
        o => (o, None),
    }
}

// ---------------------------------------------------------------------------------------------
// main
// ---------------------------------------------------------------------------------------------

/// Two transmits of different shape sent back to back and read with full receive batches: whatever
/// the kernel puts into one batch (a coalesced burst next to a plain datagram, in either order), the
/// reported (len, stride) pairs must split the batch back into exactly the datagrams sent, in order.
/// Returns (cases, cases in which one recv call returned a coalesced and an uncoalesced message
/// together, violations).
fn mixed_batches(kind: Kind, thorough: bool) -> (u64, u64, Vec<Violation>) {
    let mut viol = vec![];
    let (mut cases, mut mixed) = (0u64, 0u64);
    let Ok(p) = mk_pair(kind) else { return (0, 0, viol) };
    p.set_rx_gro(true);
    let mut arena = vec![0u8; SLOT * BATCH_SIZE];
    let segs: &[usize] = if thorough { &[64, 100, 500, 1200, 1400] } else { &[100, 500, 1200] };
    for &seg in segs {
        for count in [2usize, 3] {
            for last in [seg, seg / 2 + 1] {
                for plain in [1usize, seg - 1, seg, seg + 1, 1200, 1400] {
                    for burst_first in [true, false] {
                        cases += 1;
                        // expected datagrams in order
                        let mut burst: Vec<usize> = vec![seg; count - 1];
                        burst.push(last);
                        let id = (seg * 31 + count * 7 + last + plain) as u32;
                        let make = |len: usize, which: usize| -> Vec<u8> { (0..len).map(|i| pat(id, which, i)).collect() };
                        let burst_bytes: Vec<u8> = burst.iter().enumerate().flat_map(|(k, l)| make(*l, k)).collect();
                        let plain_bytes = make(plain, 9);
                        let tb = Transmit { destination: p.dst, ecn: None, contents: &burst_bytes, segment_size: Some(seg), src_ip: None };
                        let tp = Transmit { destination: p.dst, ecn: None, contents: &plain_bytes, segment_size: None, src_ip: None };
                        let order: [&Transmit<'_>; 2] = if burst_first { [&tb, &tp] } else { [&tp, &tb] };
                        let mut send_failed = false;
                        for t in order {
                            let mut wb = 0;
                            loop {
                                match p.ss.try_send((&p.send).into(), t) {
                                    Err(e) if e.kind() == io::ErrorKind::WouldBlock && wb < 100 => {
                                        wb += 1;
                                        std::thread::sleep(Duration::from_millis(1));
                                    }
                                    Err(_) => {
                                        send_failed = true;
                                        break;
                                    }
                                    Ok(()) => break,
                                }
                            }
                        }
                        if send_failed {
                            drain(&p, &mut arena);
                            continue;
                        }
                        let mut want: Vec<Vec<u8>> = vec![];
                        let burst_d: Vec<Vec<u8>> = burst.iter().enumerate().map(|(k, l)| make(*l, k)).collect();
                        if burst_first {
                            want.extend(burst_d.clone());
                            want.push(plain_bytes.clone());
                        } else {
                            want.push(plain_bytes.clone());
                            want.extend(burst_d.clone());
                        }
                        // let both transmits reach the socket queue, then read whole batches
                        std::thread::sleep(Duration::from_millis(3));
                        let mut got: Vec<Vec<u8>> = vec![];
                        let mut shapes: Vec<Vec<(usize, usize)>> = vec![];
                        let deadline = Instant::now() + Duration::from_millis(RECV_WAIT_MS);
                        while got.len() < want.len() && Instant::now() < deadline {
                            let mut meta = [RecvMeta::default(); BATCH_SIZE];
                            let res = {
                                let mut bufs: Vec<IoSliceMut<'_>> = arena.chunks_mut(SLOT).take(BATCH_SIZE).map(|c| IoSliceMut::new(&mut c[..SLOT - 1])).collect();
                                catch_unwind(AssertUnwindSafe(|| p.rs.recv((&p.recv).into(), &mut bufs, &mut meta)))
                            };
                            match res {
                                Ok(Ok(n)) => {
                                    let mut shape = vec![];
                                    for k in 0..n {
                                        let m = meta[k];
                                        shape.push((m.len, m.stride));
                                        let buf = &arena[k * SLOT..k * SLOT + m.len.min(SLOT - 1)];
                                        let mut off = 0;
                                        while off < buf.len() {
                                            let end = (off + m.stride.max(1)).min(buf.len());
                                            got.push(buf[off..end].to_vec());
                                            off = end;
                                        }
                                        if m.len == 0 {
                                            got.push(vec![]);
                                        }
                                    }
                                    if shape.iter().any(|(l, s)| l > s) && shape.iter().any(|(l, s)| l <= s) {
                                        mixed += 1;
                                    }
                                    shapes.push(shape);
                                }
                                Ok(Err(e)) if e.kind() == io::ErrorKind::WouldBlock => {
                                    poll_in(&p.recv, 10);
                                }
                                Ok(Err(_)) => break,
                                Err(_) => {
                                    got.push(b"<panic in recv>".to_vec());
                                    break;
                                }
                            }
                        }
                        let lens = |v: &Vec<Vec<u8>>| v.iter().map(|d| d.len()).collect::<Vec<_>>();
                        if got.is_empty() {
                            continue; // the kernel is not owned: silence is not judged
                        }
                        if got != want {
                            viol.push(Violation {
                                signature: "mixed-batch-boundaries".into(),
                                what: format!(
                                    "{}: a {}x{seg} burst (last {last}) and a plain {plain}-byte datagram sent back to back ({}): the receive batches {:?} (len, stride) split into datagrams of {:?}, sent were {:?}",
                                    kind.name(),
                                    count,
                                    if burst_first { "burst first" } else { "plain first" },
                                    shapes,
                                    lens(&got),
                                    lens(&want)
                                ),
                                replay: json!({"check":"c19","kind":"mixed","pair":kind.name(),"seg":seg,"count":count,"last":last,"plain":plain,"burst_first":burst_first}),
                            });
                            drain(&p, &mut arena);
                            if viol.len() >= 3 {
                                return (cases, mixed, viol);
                            }
                        }
                    }
                }
            }
        }
    }
    (cases, mixed, viol)
}

/// The ECN codepoint of a received datagram is the low two bits of its TOS / traffic-class byte,
/// whatever the upper six (DSCP) bits are: a peer with a plain socket (not quinn-udp, whose Transmit
/// only ever sends DSCP 0) sends one datagram for every value 0..=255 of that byte, with the
/// receiver's UDP_GRO on and off; `EcnCodepoint::from_bits` is also evaluated on all 256 values.
/// Returns (cases compared, cases with DSCP != 0 and ECN != 0 compared, violations).
fn tos_bytes(kind: Kind) -> (u64, u64, Vec<Violation>) {
    let mut viol = vec![];
    let (mut cases, mut marked) = (0u64, 0u64);
    let want = |b: u8| match b & 3 {
        0 => None,
        1 => Some(EcnCodepoint::Ect1),
        2 => Some(EcnCodepoint::Ect0),
        _ => Some(EcnCodepoint::Ce),
    };
    if kind == Kind::V4V4 {
        for b in 0..=255u8 {
            cases += 1;
            let got = EcnCodepoint::from_bits(b);
            if got != want(b) {
                viol.push(Violation {
                    signature: "ecn-of-tos-byte".into(),
                    what: format!("EcnCodepoint::from_bits({b:#04x}) = {got:?}, the ECN field (low two bits) is {:?}", want(b)),
                    replay: json!({"check":"c19","kind":"tos","pair":"from_bits","tos":b}),
                });
                break;
            }
        }
    }
    let Ok(p) = mk_pair(kind) else { return (cases, marked, viol) };
    let mut arena = vec![0u8; SLOT * BATCH_SIZE];
    let v4_wire = kind != Kind::V6V6;
    for gro in [true, false] {
        p.set_rx_gro(gro);
        for b in 0..=255u8 {
            // the sending socket's default TOS / traffic class (a v4-mapped destination on a
            // dual-stack socket takes IP_TOS)
            let set = if v4_wire { setopt(&p.send, libc::IPPROTO_IP, libc::IP_TOS, b as i32) } else { setopt(&p.send, libc::IPPROTO_IPV6, libc::IPV6_TCLASS, b as i32) };
            if set.is_err() {
                continue;
            }
            let payload: Vec<u8> = (0..37).map(|i| pat(b as u32 + 1000, 0, i)).collect();
            if p.send.send_to(&payload, &p.dst.into()).is_err() {
                continue;
            }
            let deadline = Instant::now() + Duration::from_millis(RECV_WAIT_MS);
            let mut seen: Option<RecvMeta> = None;
            while seen.is_none() && Instant::now() < deadline {
                let mut meta = [RecvMeta::default(); BATCH_SIZE];
                let res = {
                    let mut bufs: Vec<IoSliceMut<'_>> = arena.chunks_mut(SLOT).take(BATCH_SIZE).map(|c| IoSliceMut::new(&mut c[..SLOT - 1])).collect();
                    catch_unwind(AssertUnwindSafe(|| p.rs.recv((&p.recv).into(), &mut bufs, &mut meta)))
                };
                match res {
                    Ok(Ok(n)) if n > 0 => seen = Some(meta[0]),
                    Ok(Ok(_)) => {}
                    Ok(Err(e)) if e.kind() == io::ErrorKind::WouldBlock => {
                        poll_in(&p.recv, 10);
                    }
                    _ => break,
                }
            }
            let Some(m) = seen else { continue }; // the kernel is not owned: silence is not judged
            cases += 1;
            if b & 3 != 0 && b >> 2 != 0 {
                marked += 1;
            }
            if m.ecn != want(b) || m.len != payload.len() || arena[..m.len] != payload[..] {
                viol.push(Violation {
                    signature: "ecn-of-tos-byte".into(),
                    what: format!("{} (receiver UDP_GRO {}): a {}-byte datagram sent with TOS / traffic class {b:#04x} (DSCP {}, ECN bits {:02b}) was reported with ecn={:?} len={}; expected ecn={:?}", kind.name(), if gro { "on" } else { "off" }, payload.len(), b >> 2, b & 3, m.ecn, m.len, want(b)),
                    replay: json!({"check":"c19","kind":"tos","pair":kind.name(),"tos":b,"gro":gro}),
                });
                if viol.len() >= 3 {
                    let _ = if v4_wire { setopt(&p.send, libc::IPPROTO_IP, libc::IP_TOS, 0) } else { setopt(&p.send, libc::IPPROTO_IPV6, libc::IPV6_TCLASS, 0) };
                    return (cases, marked, viol);
                }
            }
        }
    }
    (cases, marked, viol)
}

/// A peer on a link-local IPv6 address: the source address a receiver reports must carry the zone
/// (scope id) the kernel reported, or replies to it have no interface to leave by. Uses the first
/// fe80::/10 address of /proc/net/if_inet6; returns None if the host has none.
/// Some((cases compared, violations)).
fn link_local() -> Option<(u64, Vec<Violation>)> {
    let txt = std::fs::read_to_string("/proc/net/if_inet6").ok()?;
    let (ip, scope) = txt.lines().find_map(|l| {
        let f: Vec<&str> = l.split_whitespace().collect();
        if f.len() < 6 || !f[0].starts_with("fe8") || f[0].len() != 32 {
            return None;
        }
        let mut b = [0u8; 16];
        for i in 0..16 {
            b[i] = u8::from_str_radix(&f[0][2 * i..2 * i + 2], 16).ok()?;
        }
        Some((Ipv6Addr::from(b), u32::from_str_radix(f[1], 16).ok()?))
    })?;
    let mut viol = vec![];
    let mut cases = 0u64;
    let bind_ll = SocketAddr::V6(SocketAddrV6::new(ip, 0, 0, scope));
    let v6any: SocketAddr = (Ipv6Addr::UNSPECIFIED, 0).into();
    for recv_wildcard in [true, false] {
        let Ok(send) = sock(Domain::IPV6, false, bind_ll) else { continue };
        let Ok(recv) = sock(Domain::IPV6, false, if recv_wildcard { v6any } else { bind_ll }) else { continue };
        let (Ok(ss), Ok(rs)) = (UdpSocketState::new((&send).into()), UdpSocketState::new((&recv).into())) else { continue };
        let _ = send.set_nonblocking(true);
        let _ = recv.set_nonblocking(true);
        let sport = send.local_addr().ok()?.as_socket()?.port();
        let rport = recv.local_addr().ok()?.as_socket()?.port();
        let dst = SocketAddr::V6(SocketAddrV6::new(ip, rport, 0, scope));
        let want_addr = SocketAddr::V6(SocketAddrV6::new(ip, sport, 0, scope));
        let mut arena = vec![0u8; SLOT * BATCH_SIZE];
        for (len, seg, ecn) in [(100usize, None, None), (1200, None, Some(EcnCodepoint::Ect0)), (900, Some(300usize), Some(EcnCodepoint::Ce)), (1, None, Some(EcnCodepoint::Ect1))] {
            let payload: Vec<u8> = (0..len).map(|i| pat(len as u32 + 77, 0, i)).collect();
            let t = Transmit { destination: dst, ecn, contents: &payload, segment_size: seg, src_ip: None };
            if ss.try_send((&send).into(), &t).is_err() {
                continue;
            }
            let deadline = Instant::now() + Duration::from_millis(RECV_WAIT_MS);
            let mut got = 0usize;
            let mut metas: Vec<RecvMeta> = vec![];
            while got < len && Instant::now() < deadline {
                let mut meta = [RecvMeta::default(); BATCH_SIZE];
                let res = {
                    let mut bufs: Vec<IoSliceMut<'_>> = arena.chunks_mut(SLOT).take(BATCH_SIZE).map(|c| IoSliceMut::new(&mut c[..SLOT - 1])).collect();
                    catch_unwind(AssertUnwindSafe(|| rs.recv((&recv).into(), &mut bufs, &mut meta)))
                };
                match res {
                    Ok(Ok(n)) => {
                        for m in &meta[..n] {
                            got += m.len;
                            metas.push(*m);
                        }
                    }
                    Ok(Err(e)) if e.kind() == io::ErrorKind::WouldBlock => {
                        poll_in(&recv, 10);
                    }
                    _ => break,
                }
            }
            if metas.is_empty() {
                continue; // silence is not judged
            }
            cases += 1;
            for m in &metas {
                if m.addr != want_addr || m.ecn != ecn {
                    viol.push(Violation {
                        signature: "link-local-source-address".into(),
                        what: format!("a {len}-byte transmit from {want_addr} (link-local, zone {scope}) to a receiver bound to {}: reported source {} ecn {:?}, expected {want_addr} ecn {ecn:?}", if recv_wildcard { "[::]" } else { "the same link-local address" }, m.addr, m.ecn),
                        replay: json!({"check":"c19","kind":"link_local"}),
                    });
                    return Some((cases, viol));
                }
            }
        }
    }
    Some((cases, viol))
}

fn replay(file: &std::path::Path) -> ! {
    let body = std::fs::read_to_string(file).unwrap_or_else(|e| machinery(&format!("cannot read {file:?}: {e}")));
    let v: Value = serde_json::from_str(&body).unwrap_or_else(|e| machinery(&format!("bad json: {e}")));
    let r = if v.get("replay").is_some() { &v["replay"] } else { &v };
    println!("replaying {r}");
    if r["stage"] == "fallback" {
        let kind = Kind::from_name(r["pair"].as_str().unwrap_or("")).unwrap_or_else(|| machinery("bad pair"));
        let trig = match r["trigger"].as_str() {
            Some("oversize-count") => Trigger::Oversize,
            Some("no-check") => Trigger::NoCheck,
            _ => machinery("bad trigger"),
        };
        let (ev, viol, _, _) = fallback(kind, trig, true);
        println!("{}", serde_json::to_string_pretty(&ev).unwrap());
        for v in &viol {
            println!("VIOLATION {}: {}", v.signature, v.what);
        }
        std::process::exit(if viol.is_empty() { 0 } else { 1 });
    }
    if r["kind"] == "link_local" {
        let out = link_local();
        println!("{:?}", out.as_ref().map(|(n, v)| (n, v.iter().map(|x| x.what.clone()).collect::<Vec<_>>())));
        std::process::exit(out.map_or(0, |(_, v)| !v.is_empty() as i32));
    }
    if r["kind"] == "tos" || r["kind"] == "mixed" {
        // the whole (small) part is repeated for the pair
        let kinds: Vec<Kind> = Kind::from_name(r["pair"].as_str().unwrap_or("")).map(|k| vec![k]).unwrap_or_else(|| KINDS.to_vec());
        let mut bad = false;
        for k in kinds {
            let viol = if r["kind"] == "tos" { tos_bytes(k).2 } else { mixed_batches(k, true).2 };
            for v in &viol {
                println!("VIOLATION {}: {}", v.signature, v.what);
                bad = true;
            }
        }
        std::process::exit(bad as i32);
    }
    let case = Case::from_json(r).unwrap_or_else(|| machinery("replay object is not a C19 case"));
    let p = mk_pair(case.kind).unwrap_or_else(|e| machinery(&format!("cannot create pair {}: {e}", case.kind.name())));
    if case.src >= p.src_ips.len() {
        machinery("bad src index");
    }
    println!(
        "pair {}: sender {:?} receiver {:?}; max_gso_segments {} gro_segments {} may_fragment {}",
        case.kind.name(), p.send.local_addr().unwrap().as_socket(), p.recv.local_addr().unwrap().as_socket(),
        p.ss.max_gso_segments(), p.rs.gro_segments(), p.ss.may_fragment()
    );
    let mut arena = vec![0u8; SLOT * BATCH_SIZE];
    let out = guarded(&p, &case, &mut arena, true);
    println!("outcome: {out:?}");
    std::process::exit(match out {
        Outcome::Bad { .. } => 1,
        _ => 0,
    })
}

fn main() {
    std::panic::set_hook(Box::new(|info| {
        let msg = info.to_string().replace('\n', " | ");
        PANIC_MSG.with(|m| *m.borrow_mut() = msg);
    }));
    let argv: Vec<String> = std::env::args().skip(1).collect();
    if argv.first().map(|s| s.as_str()) != Some("c19") {
        machinery("usage: vudp c19 [--tier quick|thorough] [--replay <file>]");
    }
    let args = parse_args(&argv[1..]);
    if let Some(f) = &args.replay {
        replay(f);
    }
    let mut rep = Report::new("C19", &args, "exploration");
    let tier = args.tier;
    let deadline = rep.start + Duration::from_secs(tier.pick(50, 20 * 60));
    rep.rule = "Bounded exhaustive enumeration (no sampling) on real loopback sockets through quinn-udp's public API. \
        For each socket pair {v4->v4, v6->v6, v4->dual-stack v6, dual-stack v6->v4-mapped}: transmit shape x ECN {None,Ect0,Ect1,Ce} \
        x src_ip {None, explicit loopback form(s)} x receive buffer size {exact total, +1, 65535} x receive iovecs {1, BATCH_SIZE} \
        x (multi-datagram transmits only) receiver UDP_GRO {on as quinn-udp sets it, switched off by the harness}. \
        Plus: every value 0..=255 of the TOS / traffic-class byte sent by a plain socket (DSCP set by a peer or router) x receiver UDP_GRO {on, off}: reported ecn = low two bits; a peer on a link-local IPv6 address (if the host has one): the reported source address carries the zone id. \
        Shapes: GSO segment_size {1,2,100,1200,1452} x every count 1..=hi (hi = min(max_gso_segments, first count whose total exceeds the family max)) \
        x last segment {full, 1 byte, half}; every other segment_size 1..=1472 x count (quick {2,3,hi-1,hi}, thorough 1..=hi) x last, with two receive shapes (quick: GRO-off only with BATCH_SIZE iovecs); \
        segment_size == len single datagrams; unsegmented: every length 1..=N (quick 1500, thorough 2048) with all receive shapes, plus \
        {4096,8192,16384,32768,65000,family max}, quick: 2^k-1,2^k,2^k+1 (k=11..15), the 40 lengths below the family max and +-20 around loopback MTU minus headers; \
        thorough: every length up to the family max (65507 / 65527) with two receive shapes. \
        One transmit is sent and fully received before the next; payload byte = hash(case id, segment, index). \
        A case is non-trivial when its datagrams were actually received and compared (bytes, boundaries via stride, order, ecn, source addr, dst_ip, no extra datagram); \
        distinct = distinct (pair, log2 length class, gso shape [named segment sizes exactly / others by log2 bucket, counts 1..3 and >=62 exactly / others by log2 bucket, last-kind], \
        ecn, src_ip, rx size, rx iovecs, rx gro) tuples among those, plus distinct post-fallback tuples. \
        Expected-EMSGSIZE and inconclusive (silent) cases are executed but not counted as distinct."
        .into();

    // probe the platform
    let mut plan: Vec<(Kind, Vec<Shape>)> = vec![];
    let mut platform = serde_json::Map::new();
    let mut skipped_pairs = vec![];
    for kind in KINDS {
        match mk_pair(kind) {
            Ok(p) => {
                let gso = p.ss.max_gso_segments();
                platform.insert(
                    kind.name().into(),
                    json!({"max_gso_segments": gso, "gro_segments": p.rs.gro_segments(), "may_fragment": p.ss.may_fragment(),
                           "src_ip_by_index": p.src_ips.iter().map(|(ip, a)| format!("{ip:?} => receiver must report {}", a.ip())).collect::<Vec<_>>(),
                           "gso_multi_segment_cases": if gso > 1 { "run" } else { "skipped: max_gso_segments() == 1" }}),
                );
                plan.push((kind, shapes(kind, tier, gso)));
            }
            Err(e) => {
                skipped_pairs.push(json!({"pair": kind.name(), "reason": e.to_string()}));
                rep.part(kind.name(), json!({"skipped": format!("kernel refused to create the pair: {e}")}));
            }
        }
    }
    if plan.is_empty() {
        machinery("cannot create any loopback socket pair");
    }
    rep.extra.insert("platform".into(), Value::Object(platform));
    rep.extra.insert("skipped_pairs".into(), json!(skipped_pairs));
    rep.extra.insert("loopback_mtu".into(), json!(lo_mtu()));
    rep.extra.insert("explicit_source_127_0_0_2_honoured_by_kernel".into(), json!(alt_src_honoured()));
    rep.extra.insert("batch_size".into(), json!(BATCH_SIZE));

    // sweep: every shard thread owns its own socket pair
    let results: Vec<(Kind, Result<Stats, String>)> = std::thread::scope(|s| {
        let mut hs = vec![];
        for (kind, shapes) in &plan {
            for sh in 0..SHARDS_PER_PAIR {
                let mine: Vec<Shape> = shapes.iter().skip(sh).step_by(SHARDS_PER_PAIR).copied().collect();
                let kind = *kind;
                hs.push((kind, s.spawn(move || -> Result<Stats, String> {
                    let p = mk_pair(kind).map_err(|e| e.to_string())?;
                    Ok(run_shard(&p, &mine, deadline))
                })));
            }
        }
        hs.into_iter()
            .map(|(k, h)| (k, h.join().unwrap_or_else(|_| Err("shard thread panicked".into()))))
            .collect()
    });
    let mut per_kind: BTreeMap<Kind, Stats> = BTreeMap::new();
    for (kind, r) in results {
        match r {
            Ok(st) => per_kind.entry(kind).or_default().merge(st),
            Err(e) => machinery(&format!("shard for {} failed: {e}", kind.name())),
        }
    }
    let mut gro_seen = false;
    let mut inconclusive_total = 0;
    for (kind, st) in per_kind {
        if st.not_run > 0 {
            rep.exhaustive = false;
        }
        gro_seen |= st.coalesced > 0;
        inconclusive_total += st.inconclusive;
        rep.evaluations += st.evaluations;
        rep.part(
            kind.name(),
            json!({
                "planned": st.planned, "executed": st.evaluations, "received_and_compared_equal": st.compared,
                "of_which_gro_coalesced": st.coalesced, "expected_emsgsize": st.expected_err,
                "inconclusive": st.inconclusive, "not_run_deadline": st.not_run, "recv_calls": st.recv_calls,
                "distinct": st.distinct.len(), "violations": st.violations.len(),
                "expected_emsgsize_samples": st.expected_err_samples.iter().take(3).collect::<Vec<_>>(),
                "inconclusive_samples": st.inconclusive_samples.iter().take(3).collect::<Vec<_>>(),
            }),
        );
        rep.distinct.extend(st.distinct.iter().copied());
        for s in st.samples.into_iter().take(3) {
            rep.sample(s);
        }
        for v in st.violations {
            rep.violation(v);
        }
    }
    rep.extra.insert("gro_coalescing_observed".into(), json!(gro_seen));
    rep.extra.insert("inconclusive_total".into(), json!(inconclusive_total));

    // fallback path
    let mut fb = serde_json::Map::new();
    let mut exercised = 0;
    for (kind, _) in &plan {
        for trig in [Trigger::Oversize, Trigger::NoCheck] {
            if Instant::now() >= deadline {
                rep.exhaustive = false;
                break;
            }
            let (ev, viol, classes, evals) = fallback(*kind, trig, false);
            if ev["max_gso_segments_after"] == 1 && ev.get("plain_transmits_after_fallback").is_some() {
                exercised += 1;
            }
            fb.insert(format!("{}/{}", kind.name(), trig.name()), ev);
            rep.evaluations += evals;
            rep.distinct.extend(classes);
            for v in viol {
                rep.violation(v);
            }
        }
    }
    if exercised == 0 {
        fb.insert(
            "fallback_not_exercised_reason".into(),
            json!("no user-space trigger made the kernel reject UDP_SEGMENT on this platform (GSO unavailable or never refused)"),
        );
    }
    rep.part("fallback", Value::Object(fb));
    // mixed receive batches (a coalesced burst next to a plain datagram in one recvmmsg batch)
    {
        let mut mb = serde_json::Map::new();
        for (kind, _) in &plan {
            let (cases, mixed, viol) = mixed_batches(*kind, tier == Tier::Thorough);
            rep.evaluations += cases;
            mb.insert(kind.name().into(), json!({"cases": cases, "recv_calls_with_coalesced_and_plain_message_together": mixed}));
            for v in viol {
                rep.violation(v);
            }
        }
        rep.part("mixed_receive_batches", Value::Object(mb));
    }
    // every value of the TOS / traffic-class byte, sent by a plain socket
    {
        let mut tb = serde_json::Map::new();
        let mut marked_total = 0;
        for (kind, _) in &plan {
            let (cases, marked, viol) = tos_bytes(*kind);
            rep.evaluations += cases;
            marked_total += marked;
            tb.insert(kind.name().into(), json!({"datagrams_compared": cases, "with_nonzero_dscp_and_ecn": marked}));
            for v in viol {
                rep.violation(v);
            }
        }
        if marked_total == 0 {
            machinery("vacuity guard: no datagram with a non-zero DSCP and a non-zero ECN field was received");
        }
        rep.part("tos_byte_values", Value::Object(tb));
    }
    // a peer on a link-local address (zone id in the reported source address)
    match link_local() {
        None => rep.part("link_local_peer", json!({"skipped": "no fe80::/10 address in /proc/net/if_inet6"})),
        Some((cases, viol)) => {
            rep.evaluations += cases;
            for v in viol {
                rep.violation(v);
            }
            rep.part("link_local_peer", json!({"transmits_compared": cases}));
        }
    }

    // the quinn endpoint's own share of the property: coalesced receive batches are split back into
    // the original datagrams by their stride (RecvState::poll_socket). Explored under the
    // deterministic executor of harness-async over an in-memory socket that coalesces like a
    // GRO-capable kernel; `./check C19` builds that binary and passes its path.
    match std::env::var("VERIF_VA_BIN") {
        Err(_) => machinery("VERIF_VA_BIN not set: ./check C19 builds harness-async and passes its path"),
        Ok(bin) => {
            let out = std::process::Command::new(&bin).arg("c19").arg("--tier").arg(if tier == Tier::Thorough { "thorough" } else { "quick" }).output();
            let out = out.unwrap_or_else(|e| machinery(&format!("cannot run {bin}: {e}")));
            let text = String::from_utf8_lossy(&out.stdout);
            let v: Value = text.lines().rev().find_map(|l| serde_json::from_str(l).ok()).unwrap_or_else(|| machinery(&format!("no result from {bin} c19: {}", String::from_utf8_lossy(&out.stderr))));
            let n = v["executions"].as_u64().unwrap_or(0);
            if n == 0 || v["batches_with_short_tail_before_last_message"].as_u64().unwrap_or(0) == 0 {
                machinery("vacuity guard: the receive-batch part explored nothing, or no batch held a coalesced message with a short tail in front of another message");
            }
            rep.evaluations += n;
            rep.exhaustive &= !v["capped"].as_bool().unwrap_or(true);
            for viol in v["violations"].as_array().cloned().unwrap_or_default() {
                rep.violation(Violation {
                    signature: format!("recv-batch:{}", viol["signature"].as_str().unwrap_or("?")),
                    what: format!("quinn endpoint over a coalescing in-memory socket: {}", viol["what"].as_str().unwrap_or("?")),
                    replay: json!({"check":"c18","async_replay": viol["replay"], "note": "replay with ./check C18 --replay on a file holding {\"replay\": <async_replay>}"}),
                });
            }
            rep.part("endpoint_receive_batches", v);
        }
    }
    rep.assumptions = vec![
        "Linux loopback only: the kernel's lo device stands in for the network; no NIC driver offload paths are exercised.".into(),
        "quinn-udp sets IP_PMTUDISC_PROBE / IPV6_DONTFRAG, so payloads above loopback MTU minus headers fail with EMSGSIZE instead of being fragmented; those cases are executed and counted as expected_emsgsize.".into(),
        "Silence (nothing received after 1+3 sends, 200 ms each) is recorded as inconclusive, not as a violation; partial arrival of one transmit is a violation.".into(),
        "dst_ip is compared in canonical form (v4-mapped == v4) and only when reported; addr is compared exactly (v4-mapped v6 form on a dual-stack receiver).".into(),
        "After an EINVAL/EIO from sendmsg quinn-udp also stops sending IP_TOS for v4 destinations (documented old-kernel fallback): post-fallback ECN on v4 is recorded (ecn_after_fallback), not judged.".into(),
        "The transmit that triggers the fallback is itself dropped by quinn-udp by design (QUIC recovers); only subsequent plain transmits are judged.".into(),
    ];
    rep.finish()
}
