//! D: `BloomTokenLog` and `TokenMemoryCache` through their public API (property C14)
//!
//! Neither exposes a deterministic complete state rendering (`BloomTokenLog` has no `Debug`, the
//! cache's `Debug` walks a randomly ordered `HashMap`), so histories are never merged: plain
//! enumeration of every operation sequence (E3).

use std::{
    collections::{BTreeSet, VecDeque},
    time::{Duration, SystemTime, UNIX_EPOCH},
};

use bytes::Bytes;
use proto::{BloomTokenLog, TokenLog, TokenMemoryCache, TokenStore};
use serde_json::{json, Value};

use crate::engine::{StepOut, Sys};

// ---------------------------------------------------------------------------------------------
// D1 BloomTokenLog
// ---------------------------------------------------------------------------------------------

pub const LIFETIME: Duration = Duration::from_secs(10);
/// Issue times in units of lifetime/2 after t0
pub const ISSUED_HALVES: [u64; 7] = [0, 1, 2, 3, 4, 6, 10];
pub const NONCES: [u64; 3] = [1, 2, 3];
/// `max_bytes` values; `None` = `BloomTokenLog::default()`. 0 and 16 turn the hash set into a
/// bloom filter on the first insertion (1 bit / 64 bits), 64 keeps a hash set for three nonces.
pub const MAX_BYTES: [Option<usize>; 4] = [None, Some(64), Some(16), Some(0)];

fn issued_at(idx: u8, lifetime: Duration) -> SystemTime {
    UNIX_EPOCH
        + Duration::from_secs(1_000_000)
        + (lifetime / 2) * ISSUED_HALVES[idx as usize] as u32
}

#[derive(Clone, Copy, Debug, PartialEq, Eq)]
pub struct Present {
    pub nonce: u8,
    pub issued: u8,
}

#[derive(Clone, Copy, Debug, PartialEq, Eq)]
pub struct BloomCfg {
    pub max_bytes: Option<usize>,
    /// `false`: only presentations a server with a monotone clock passes to the log (the
    /// documented contract). `true`: every presentation in any order (stronger than documented;
    /// a double acceptance there is only recorded as an outcome, not as a violation).
    pub any_order: bool,
    /// token lifetime in milliseconds (whole seconds, fractional seconds, below one second)
    pub lifetime_ms: u64,
}

pub struct BloomSys {
    lifetime: Duration,
    any_order: bool,
    /// Every presentation so far was one a monotone-clock server would have made
    legal: bool,
    real: BloomTokenLog,
    /// Largest issue time (in half lifetimes) presented so far: a lower bound of the server clock
    max_issued: Option<u64>,
    accepted: BTreeSet<(u8, u8)>,
    false_rejects: u32,
}

impl BloomSys {
    fn model_str(&self) -> String {
        format!(
            "clock>={:?} half-lifetimes, legal={}, accepted={:?}, false rejections={}",
            self.max_issued, self.legal, self.accepted, self.false_rejects
        )
    }
}

impl Sys for BloomSys {
    type Cfg = BloomCfg;
    type Op = Present;
    const NAME: &'static str = "bloom_token_log";
    const MERGE: bool = false;

    fn new(cfg: &BloomCfg) -> Self {
        Self {
            lifetime: Duration::from_millis(cfg.lifetime_ms),
            any_order: cfg.any_order,
            legal: true,
            real: match &cfg.max_bytes {
                None => BloomTokenLog::default(),
                Some(b) => BloomTokenLog::new_expected_items(*b, 8),
            },
            max_issued: None,
            accepted: BTreeSet::new(),
            false_rejects: 0,
        }
    }

    /// Only presentations the server would pass on to the log: the server's clock is monotone and
    /// at least the largest issue time it has produced, and it rejects tokens whose
    /// `issued + lifetime` lies before its clock without consulting the log.
    fn ops(&self) -> Vec<Present> {
        let mut v = Vec::new();
        for issued in 0..ISSUED_HALVES.len() as u8 {
            let t = ISSUED_HALVES[issued as usize];
            // lifetime = 2 half-lifetimes
            if !self.any_order && self.max_issued.is_some_and(|m| t + 2 < m) {
                continue;
            }
            for nonce in NONCES {
                v.push(Present {
                    nonce: nonce as u8,
                    issued,
                });
            }
        }
        v
    }

    fn apply(&mut self, op: &Present) -> StepOut {
        // The log only looks at the low 64 bits; distinct tokens sharing them may collide
        // (a permitted false rejection) but are distinct tokens.
        let nonce = ((op.issued as u128 + 1) << 64) | op.nonce as u128;
        let r = self
            .real
            .check_and_insert(nonce, issued_at(op.issued, self.lifetime), self.lifetime);
        let t = ISSUED_HALVES[op.issued as usize];
        if self.max_issued.is_some_and(|m| t + 2 < m) {
            self.legal = false;
        }
        self.max_issued = Some(self.max_issued.map_or(t, |m| m.max(t)));
        let id = (op.nonce, op.issued);
        let real = if r.is_ok() {
            "Ok"
        } else {
            "Err(TokenReuseError)"
        };
        if r.is_ok() {
            if !self.accepted.insert(id) {
                if !self.legal {
                    return StepOut::ok(
                        "Ok (second acceptance, in a history outside the documented contract)",
                        self.model_str(),
                    );
                }
                return StepOut::bad(
                    real,
                    self.model_str(),
                    "bloom_token_log:token-accepted-twice",
                    format!(
                        "token (nonce {}, issued t0+{}*L/2) answered Ok a second time while still within its lifetime for a monotone server clock",
                        op.nonce, t
                    ),
                );
            }
        } else if !self.accepted.contains(&id) {
            self.false_rejects += 1;
        }
        StepOut::ok(real, self.model_str())
    }

    fn key(&self) -> String {
        self.model_str()
    }

    fn cfg_json(c: &BloomCfg) -> Value {
        json!({ "max_bytes": c.max_bytes, "any_order": c.any_order, "lifetime_ms": c.lifetime_ms })
    }
    fn cfg_parse(v: &Value) -> Option<BloomCfg> {
        Some(BloomCfg {
            max_bytes: v["max_bytes"].as_u64().map(|x| x as usize),
            any_order: v["any_order"].as_bool().unwrap_or(false),
            lifetime_ms: v["lifetime_ms"].as_u64().unwrap_or(10_000),
        })
    }
    fn op_json(op: &Present) -> Value {
        json!([
            "check_and_insert",
            op.nonce,
            format!("t0+{}*L/2", ISSUED_HALVES[op.issued as usize])
        ])
    }
    fn op_parse(v: &Value) -> Option<Present> {
        let a = v.as_array()?;
        let s = a.get(2)?.as_str()?;
        let halves: u64 = s.strip_prefix("t0+")?.strip_suffix("*L/2")?.parse().ok()?;
        Some(Present {
            nonce: a.get(1)?.as_u64()? as u8,
            issued: ISSUED_HALVES.iter().position(|&h| h == halves)? as u8,
        })
    }
}

// ---------------------------------------------------------------------------------------------
// D2 TokenMemoryCache
// ---------------------------------------------------------------------------------------------

pub const SERVERS: [&str; 3] = ["a", "b", "c"];

#[derive(Clone, Copy, Debug, PartialEq, Eq)]
pub enum TOp {
    Insert(u8),
    Take(u8),
}

pub struct CacheSys {
    real: TokenMemoryCache,
    max_servers: usize,
    max_tokens: usize,
    /// Least recently used first; queues are never empty
    model: Vec<(u8, VecDeque<u32>)>,
    next_token: u32,
    handed_out: BTreeSet<u32>,
}

impl CacheSys {
    fn model_str(&self) -> String {
        format!("lru->mru {:?}", self.model)
    }
}

impl Sys for CacheSys {
    type Cfg = (u32, usize);
    type Op = TOp;
    const NAME: &'static str = "token_memory_cache";
    const MERGE: bool = false;

    fn new(cfg: &(u32, usize)) -> Self {
        Self {
            real: TokenMemoryCache::new(cfg.0, cfg.1),
            max_servers: cfg.0 as usize,
            max_tokens: cfg.1,
            model: Vec::new(),
            next_token: 0,
            handed_out: BTreeSet::new(),
        }
    }

    fn ops(&self) -> Vec<TOp> {
        let mut v = Vec::new();
        for s in 0..SERVERS.len() as u8 {
            v.push(TOp::Insert(s));
        }
        for s in 0..SERVERS.len() as u8 {
            v.push(TOp::Take(s));
        }
        v
    }

    fn apply(&mut self, op: &TOp) -> StepOut {
        match *op {
            TOp::Insert(s) => {
                let token = self.next_token;
                self.next_token += 1;
                self.real.insert(
                    SERVERS[s as usize],
                    Bytes::copy_from_slice(&token.to_be_bytes()),
                );
                if self.max_servers > 0 && self.max_tokens > 0 {
                    if let Some(i) = self.model.iter().position(|e| e.0 == s) {
                        let (_, mut q) = self.model.remove(i);
                        q.push_back(token);
                        if q.len() > self.max_tokens {
                            q.pop_front();
                        }
                        self.model.push((s, q));
                    } else {
                        self.model.push((s, VecDeque::from([token])));
                        if self.model.len() > self.max_servers {
                            self.model.remove(0);
                        }
                    }
                }
                StepOut::ok(format!("stored token {token}"), self.model_str())
            }
            TOp::Take(s) => {
                let got = self.real.take(SERVERS[s as usize]).map(|b| {
                    if b.len() == 4 {
                        u32::from_be_bytes([b[0], b[1], b[2], b[3]])
                    } else {
                        u32::MAX
                    }
                });
                let want = self.model.iter().position(|e| e.0 == s).map(|i| {
                    let (_, mut q) = self.model.remove(i);
                    let t = q.pop_front().unwrap();
                    if !q.is_empty() {
                        self.model.push((s, q));
                    }
                    t
                });
                let real = format!("{got:?}");
                if let Some(t) = got {
                    if !self.handed_out.insert(t) {
                        return StepOut::bad(
                            real,
                            format!("{want:?}"),
                            "token_memory_cache:token-handed-out-twice",
                            format!("take({}) returned token {t}, which an earlier take already returned", SERVERS[s as usize]),
                        );
                    }
                    if t >= self.next_token {
                        return StepOut::bad(
                            real,
                            format!("{want:?}"),
                            "token_memory_cache:unknown-token",
                            "take returned bytes that were never inserted",
                        );
                    }
                }
                if got != want {
                    return StepOut::bad(
                        real,
                        format!("{want:?}"),
                        "token_memory_cache:take-mismatch",
                        format!(
                            "take({}) = {got:?}, LRU-of-queues reference says {want:?}",
                            SERVERS[s as usize]
                        ),
                    );
                }
                StepOut::ok(real, format!("{want:?}; {}", self.model_str()))
            }
        }
    }

    fn key(&self) -> String {
        self.model_str()
    }

    fn cfg_json(c: &(u32, usize)) -> Value {
        json!({"max_server_names": c.0, "max_tokens_per_server": c.1})
    }
    fn cfg_parse(v: &Value) -> Option<(u32, usize)> {
        Some((
            v["max_server_names"].as_u64()? as u32,
            v["max_tokens_per_server"].as_u64()? as usize,
        ))
    }
    fn op_json(op: &TOp) -> Value {
        match *op {
            TOp::Insert(s) => json!(["insert", SERVERS[s as usize]]),
            TOp::Take(s) => json!(["take", SERVERS[s as usize]]),
        }
    }
    fn op_parse(v: &Value) -> Option<TOp> {
        let a = v.as_array()?;
        let s = SERVERS
            .iter()
            .position(|&n| Some(n) == a.get(1).and_then(|x| x.as_str()))? as u8;
        match a.first()?.as_str()? {
            "insert" => Some(TOp::Insert(s)),
            "take" => Some(TOp::Take(s)),
            _ => None,
        }
    }
}
