//! A2: `connection::send_buffer::SendBuffer` against a per-byte reference model (property C01)

use bytes::Bytes;
use proto::verif_comp::VerifSendBuffer;
use serde_json::{json, Value};

use crate::{
    engine::{StepOut, Sys},
    pattern,
};

#[derive(Clone, Copy, Debug, PartialEq, Eq)]
pub enum Part {
    Whole,
    FirstHalf,
    SecondHalf,
}

#[derive(Clone, Copy, Debug, PartialEq, Eq)]
pub enum SOp {
    Write(u8),
    Poll(u16),
    /// Acknowledge (part of) the i-th in-flight frame
    Ack(u8, Part),
    /// Declare (part of) the i-th in-flight frame lost
    Lost(u8, Part),
    /// Acknowledge once more the range acknowledged last
    AckDup,
    ZeroRtt,
}

/// Sizes of application writes. 17 exceeds the smallest legal `max_len` (16), 64 moves the stream
/// offset to where its varint encoding takes two bytes.
pub const WRITES: [u8; 5] = [1, 2, 3, 17, 64];
/// `max_len` values: 16 is the documented minimum (8 byte offset + 8 byte length); 18/26 sit on
/// both sides of "the data fits only if the length field is dropped" for a 17 byte write; 1200 is
/// a whole packet.
pub const POLLS: [u16; 4] = [1200, 16, 18, 26];

#[derive(Clone, Copy, PartialEq, Eq, Debug)]
enum B {
    Unsent,
    InFlight,
    Queued,
    Acked,
}

pub struct SbSys {
    real: VerifSendBuffer,
    st: Vec<B>,
    frames: Vec<(u64, u64)>,
    last_acked: Option<(u64, u64)>,
    max_frames: usize,
}

fn varint_size(x: u64) -> u64 {
    if x < 1 << 6 {
        1
    } else if x < 1 << 14 {
        2
    } else if x < 1 << 30 {
        4
    } else {
        8
    }
}

fn part_of(r: (u64, u64), p: Part) -> (u64, u64) {
    let mid = r.0 + (r.1 - r.0) / 2;
    match p {
        Part::Whole => r,
        Part::FirstHalf => (r.0, mid),
        Part::SecondHalf => (mid, r.1),
    }
}

impl SbSys {
    fn model_str(&self) -> String {
        let s: String = self
            .st
            .iter()
            .map(|b| match b {
                B::Unsent => 'u',
                B::InFlight => 'f',
                B::Queued => 'q',
                B::Acked => 'A',
            })
            .collect();
        format!(
            "[{}] frames={:?} last_acked={:?}",
            s, self.frames, self.last_acked
        )
    }

    fn take_part(&mut self, i: usize, p: Part) -> (u64, u64) {
        let f = self.frames[i];
        let r = part_of(f, p);
        match p {
            Part::Whole => {
                self.frames.remove(i);
            }
            Part::FirstHalf => self.frames[i] = (r.1, f.1),
            Part::SecondHalf => self.frames[i] = (f.0, r.0),
        }
        r
    }

    fn check_accessors(&self) -> Option<(String, String)> {
        let written = self.st.len() as u64;
        let unacked = self.st.iter().filter(|&&b| b != B::Acked).count() as u64;
        let pending = self.st.iter().any(|&b| b == B::Unsent || b == B::Queued);
        if self.real.offset() != written {
            return Some((
                "send_buffer:offset-mismatch".into(),
                format!(
                    "offset() = {}, bytes written = {written}",
                    self.real.offset()
                ),
            ));
        }
        if self.real.unacked() != unacked {
            return Some((
                "send_buffer:unacked-mismatch".into(),
                format!(
                    "unacked() = {}, written and not acknowledged = {unacked}",
                    self.real.unacked()
                ),
            ));
        }
        if self.real.is_fully_acked() != (unacked == 0) {
            return Some((
                "send_buffer:is-fully-acked-mismatch".into(),
                format!(
                    "is_fully_acked() = {}, unacknowledged bytes = {unacked}",
                    self.real.is_fully_acked()
                ),
            ));
        }
        if self.real.has_unsent_data() != pending {
            return Some((
                "send_buffer:has-unsent-data-mismatch".into(),
                format!(
                    "has_unsent_data() = {}, model pending = {pending}",
                    self.real.has_unsent_data()
                ),
            ));
        }
        None
    }

    fn poll(&mut self, max: u16) -> StepOut {
        let (s, e, enc) = self.real.poll_transmit(max as usize);
        let real = format!("({s}..{e}, encode_length={enc})");
        let written = self.st.len() as u64;
        if s > e || e > written {
            return StepOut::bad(
                real,
                self.model_str(),
                "send_buffer:range-outside-written",
                format!("poll_transmit returned {s}..{e}, only {written} bytes were written"),
            );
        }
        if s == e {
            if let Some(o) = self
                .st
                .iter()
                .position(|&b| b == B::Unsent || b == B::Queued)
            {
                return StepOut::bad(
                    real,
                    self.model_str(),
                    "send_buffer:poll-empty-while-pending",
                    format!("poll_transmit({max}) returned nothing although byte {o} awaits (re)transmission"),
                );
            }
            return StepOut::ok(real, self.model_str());
        }
        let off_sz = if s == 0 { 0 } else { varint_size(s) };
        let need = (e - s) + off_sz + if enc { 8 } else { 0 };
        if need > max as u64 {
            return StepOut::bad(
                real,
                self.model_str(),
                "send_buffer:exceeds-budget",
                format!(
                    "{} data + {off_sz} offset + {} length bytes > max_len {max}",
                    e - s,
                    if enc { 8 } else { 0 }
                ),
            );
        }
        if !enc && (e - s) + off_sz != max as u64 {
            return StepOut::bad(
                real,
                self.model_str(),
                "send_buffer:length-omitted-without-filling",
                format!(
                    "length omitted but {} data + {off_sz} offset bytes != max_len {max}",
                    e - s
                ),
            );
        }
        // the data handed to the packet builder
        let mut data = Vec::new();
        let mut at = s;
        while at < e {
            let piece = self.real.get(at, e);
            if piece.is_empty() {
                break;
            }
            data.extend_from_slice(piece);
            at += piece.len() as u64;
        }
        let want: Vec<u8> = (s..e).map(pattern).collect();
        if data != want {
            return StepOut::bad(
                format!("{real} get={data:?}"),
                format!("want {want:?}"),
                "send_buffer:get-wrong-data",
                format!("get({s}..{e}) does not return the bytes written at these offsets"),
            );
        }
        for o in s..e {
            match self.st[o as usize] {
                B::Acked => {
                    return StepOut::bad(
                        real,
                        self.model_str(),
                        "send_buffer:acked-byte-transmitted",
                        format!("byte {o} was acknowledged and is handed out again"),
                    )
                }
                B::InFlight => {
                    return StepOut::bad(
                        real,
                        self.model_str(),
                        "send_buffer:in-flight-byte-transmitted",
                        format!("byte {o} is in flight (neither lost nor acknowledged) and is handed out again"),
                    )
                }
                B::Unsent | B::Queued => self.st[o as usize] = B::InFlight,
            }
        }
        self.frames.push((s, e));
        StepOut::ok(real, self.model_str())
    }
}

impl Sys for SbSys {
    type Cfg = usize;
    type Op = SOp;
    const NAME: &'static str = "send_buffer";

    fn new(cfg: &usize) -> Self {
        Self {
            real: VerifSendBuffer::new(),
            st: Vec::new(),
            frames: Vec::new(),
            last_acked: None,
            max_frames: *cfg,
        }
    }

    fn ops(&self) -> Vec<SOp> {
        let mut v = Vec::new();
        for w in WRITES {
            v.push(SOp::Write(w));
        }
        for p in POLLS {
            v.push(SOp::Poll(p));
        }
        for (i, f) in self.frames.iter().enumerate().take(self.max_frames) {
            v.push(SOp::Ack(i as u8, Part::Whole));
            v.push(SOp::Lost(i as u8, Part::Whole));
            if f.1 - f.0 >= 2 {
                for p in [Part::FirstHalf, Part::SecondHalf] {
                    v.push(SOp::Ack(i as u8, p));
                    v.push(SOp::Lost(i as u8, p));
                }
            }
        }
        if self.last_acked.is_some() {
            v.push(SOp::AckDup);
        }
        // 0-RTT rejection: nothing can have been acknowledged or declared lost yet
        if !self.st.is_empty() && self.st.iter().all(|&b| b == B::Unsent || b == B::InFlight) {
            v.push(SOp::ZeroRtt);
        }
        v
    }

    fn apply(&mut self, op: &SOp) -> StepOut {
        let mut out = match *op {
            SOp::Write(n) => {
                let at = self.st.len() as u64;
                let data: Vec<u8> = (at..at + n as u64).map(pattern).collect();
                self.real.write(Bytes::from(data));
                self.st
                    .extend(std::iter::repeat(B::Unsent).take(n as usize));
                StepOut::ok("()", self.model_str())
            }
            SOp::Poll(max) => self.poll(max),
            SOp::Ack(i, p) => {
                if i as usize >= self.frames.len() {
                    return StepOut::ok("(skipped: no such frame)", self.model_str());
                }
                let r = self.take_part(i as usize, p);
                self.real.ack(r.0, r.1);
                for o in r.0..r.1 {
                    self.st[o as usize] = B::Acked;
                }
                self.last_acked = Some(r);
                StepOut::ok(format!("ack({}..{})", r.0, r.1), self.model_str())
            }
            SOp::Lost(i, p) => {
                if i as usize >= self.frames.len() {
                    return StepOut::ok("(skipped: no such frame)", self.model_str());
                }
                let r = self.take_part(i as usize, p);
                self.real.retransmit(r.0, r.1);
                for o in r.0..r.1 {
                    self.st[o as usize] = B::Queued;
                }
                StepOut::ok(format!("retransmit({}..{})", r.0, r.1), self.model_str())
            }
            SOp::AckDup => {
                if let Some(r) = self.last_acked {
                    self.real.ack(r.0, r.1);
                    StepOut::ok(format!("ack({}..{}) again", r.0, r.1), self.model_str())
                } else {
                    StepOut::ok("(skipped)", self.model_str())
                }
            }
            SOp::ZeroRtt => {
                self.real.retransmit_all_for_0rtt();
                for b in self.st.iter_mut() {
                    *b = B::Unsent;
                }
                self.frames.clear();
                StepOut::ok("()", self.model_str())
            }
        };
        if out.viol.is_none() {
            out.viol = self.check_accessors();
        }
        out
    }

    fn key(&self) -> String {
        format!("{} || {}", self.real.render(), self.model_str())
    }

    /// Every byte awaiting (re)transmission is handed out exactly once when polled to exhaustion
    fn state_check(cfg: &usize, hist: &[SOp]) -> Option<(String, String)> {
        let mut s = Self::new(cfg);
        for op in hist {
            let _ = s.apply(op);
        }
        let mut count = vec![0u32; s.st.len()];
        for _ in 0..(s.st.len() + 4) {
            let (a, b, _) = s.real.poll_transmit(1200);
            if a == b {
                break;
            }
            if a > b || b as usize > count.len() {
                return Some((
                    "send_buffer:range-outside-written".into(),
                    format!("drain: poll_transmit returned {a}..{b}"),
                ));
            }
            for o in a..b {
                count[o as usize] += 1;
            }
        }
        for (o, (&c, &b)) in count.iter().zip(&s.st).enumerate() {
            let pending = b == B::Unsent || b == B::Queued;
            if pending && c == 0 {
                return Some((
                    "send_buffer:pending-byte-never-transmitted".into(),
                    format!("byte {o} is written, unacknowledged and not in flight, but polling to exhaustion never hands it out ({})", s.model_str()),
                ));
            }
            if c > 1 || (c == 1 && !pending) {
                return Some((
                    "send_buffer:drain-hands-out-extra".into(),
                    format!("polling to exhaustion hands out byte {o} {c} time(s), model state {b:?} ({})", s.model_str()),
                ));
            }
        }
        None
    }

    fn cfg_json(cfg: &usize) -> Value {
        json!({ "max_frames": cfg })
    }
    fn cfg_parse(v: &Value) -> Option<usize> {
        Some(v["max_frames"].as_u64()? as usize)
    }
    fn op_json(op: &SOp) -> Value {
        let part = |p: Part| match p {
            Part::Whole => "whole",
            Part::FirstHalf => "first-half",
            Part::SecondHalf => "second-half",
        };
        match *op {
            SOp::Write(n) => json!(["write", n]),
            SOp::Poll(m) => json!(["poll_transmit", m]),
            SOp::Ack(i, p) => json!(["ack", i, part(p)]),
            SOp::Lost(i, p) => json!(["retransmit", i, part(p)]),
            SOp::AckDup => json!(["ack-again"]),
            SOp::ZeroRtt => json!(["retransmit_all_for_0rtt"]),
        }
    }
    fn op_parse(v: &Value) -> Option<SOp> {
        let a = v.as_array()?;
        let part = |v: &Value| match v.as_str()? {
            "whole" => Some(Part::Whole),
            "first-half" => Some(Part::FirstHalf),
            "second-half" => Some(Part::SecondHalf),
            _ => None,
        };
        match a.first()?.as_str()? {
            "write" => Some(SOp::Write(a.get(1)?.as_u64()? as u8)),
            "poll_transmit" => Some(SOp::Poll(a.get(1)?.as_u64()? as u16)),
            "ack" => Some(SOp::Ack(a.get(1)?.as_u64()? as u8, part(a.get(2)?)?)),
            "retransmit" => Some(SOp::Lost(a.get(1)?.as_u64()? as u8, part(a.get(2)?)?)),
            "ack-again" => Some(SOp::AckDup),
            "retransmit_all_for_0rtt" => Some(SOp::ZeroRtt),
            _ => None,
        }
    }
}
