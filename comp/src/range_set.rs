//! A3: `range_set::RangeSet` (B-tree) and `range_set::ArrayRangeSet` against `BTreeSet<u64>`
//! over the domain 0..=9 (property C01: both back stream reassembly and (re)transmission)

use std::{collections::BTreeSet, marker::PhantomData, ops::Range};

use proto::verif_comp::{VerifArrayRangeSet, VerifRangeSet};
use serde_json::{json, Value};

use crate::engine::{StepOut, Sys};

pub const DOMAIN: u64 = 10;

#[derive(Clone, Copy, Debug, PartialEq, Eq)]
pub enum ROp {
    Insert(u8, u8),
    InsertOne(u8),
    Remove(u8, u8),
    PopMin,
    /// B-tree set only
    Replace(u8, u8),
}

/// Common surface of the two implementations
pub trait Rs: Send {
    const NAME: &'static str;
    const HAS_REPLACE: bool;
    fn new() -> Self;
    fn insert(&mut self, r: Range<u64>) -> bool;
    fn insert_one(&mut self, x: u64) -> bool;
    fn remove(&mut self, r: Range<u64>) -> bool;
    fn replace(&mut self, r: Range<u64>) -> Vec<Range<u64>>;
    fn pop_min(&mut self) -> Option<Range<u64>>;
    fn min(&self) -> Option<u64>;
    fn max(&self) -> Option<u64>;
    fn len(&self) -> usize;
    fn is_empty(&self) -> bool;
    fn contains(&self, x: u64) -> bool;
    fn ranges(&self) -> Vec<Range<u64>>;
    fn ranges_rev(&self) -> Vec<Range<u64>>;
    fn elts(&self) -> Vec<u64>;
    /// Other read-only views that must agree with `ranges()`
    fn extra(&self) -> Option<String>;
    fn render(&self) -> String;
}

impl Rs for VerifRangeSet {
    const NAME: &'static str = "range_set_btree";
    const HAS_REPLACE: bool = true;
    fn new() -> Self {
        VerifRangeSet::new()
    }
    fn insert(&mut self, r: Range<u64>) -> bool {
        VerifRangeSet::insert(self, r)
    }
    fn insert_one(&mut self, x: u64) -> bool {
        VerifRangeSet::insert_one(self, x)
    }
    fn remove(&mut self, r: Range<u64>) -> bool {
        VerifRangeSet::remove(self, r)
    }
    fn replace(&mut self, r: Range<u64>) -> Vec<Range<u64>> {
        VerifRangeSet::replace(self, r)
    }
    fn pop_min(&mut self) -> Option<Range<u64>> {
        VerifRangeSet::pop_min(self)
    }
    fn min(&self) -> Option<u64> {
        VerifRangeSet::min(self)
    }
    fn max(&self) -> Option<u64> {
        VerifRangeSet::max(self)
    }
    fn len(&self) -> usize {
        VerifRangeSet::len(self)
    }
    fn is_empty(&self) -> bool {
        VerifRangeSet::is_empty(self)
    }
    fn contains(&self, x: u64) -> bool {
        VerifRangeSet::contains(self, x)
    }
    fn ranges(&self) -> Vec<Range<u64>> {
        VerifRangeSet::ranges(self)
    }
    fn ranges_rev(&self) -> Vec<Range<u64>> {
        VerifRangeSet::ranges_rev(self)
    }
    fn elts(&self) -> Vec<u64> {
        VerifRangeSet::elts(self)
    }
    fn extra(&self) -> Option<String> {
        let first = self.ranges().first().cloned();
        (self.peek_min() != first).then(|| {
            format!(
                "peek_min() = {:?}, first range = {:?}",
                self.peek_min(),
                first
            )
        })
    }
    fn render(&self) -> String {
        VerifRangeSet::render(self)
    }
}

impl Rs for VerifArrayRangeSet {
    const NAME: &'static str = "range_set_array";
    const HAS_REPLACE: bool = false;
    fn new() -> Self {
        VerifArrayRangeSet::new()
    }
    fn insert(&mut self, r: Range<u64>) -> bool {
        VerifArrayRangeSet::insert(self, r)
    }
    fn insert_one(&mut self, x: u64) -> bool {
        VerifArrayRangeSet::insert_one(self, x)
    }
    fn remove(&mut self, r: Range<u64>) -> bool {
        VerifArrayRangeSet::remove(self, r)
    }
    fn replace(&mut self, _: Range<u64>) -> Vec<Range<u64>> {
        unreachable!()
    }
    fn pop_min(&mut self) -> Option<Range<u64>> {
        VerifArrayRangeSet::pop_min(self)
    }
    fn min(&self) -> Option<u64> {
        VerifArrayRangeSet::min(self)
    }
    fn max(&self) -> Option<u64> {
        VerifArrayRangeSet::max(self)
    }
    fn len(&self) -> usize {
        VerifArrayRangeSet::len(self)
    }
    fn is_empty(&self) -> bool {
        VerifArrayRangeSet::is_empty(self)
    }
    fn contains(&self, x: u64) -> bool {
        VerifArrayRangeSet::contains(self, x)
    }
    fn ranges(&self) -> Vec<Range<u64>> {
        VerifArrayRangeSet::ranges(self)
    }
    fn ranges_rev(&self) -> Vec<Range<u64>> {
        VerifArrayRangeSet::ranges_rev(self)
    }
    fn elts(&self) -> Vec<u64> {
        VerifArrayRangeSet::elts(self)
    }
    fn extra(&self) -> Option<String> {
        let c = self.clone_ranges();
        (c != self.ranges())
            .then(|| format!("clone iterates {:?}, original {:?}", c, self.ranges()))
    }
    fn render(&self) -> String {
        VerifArrayRangeSet::render(self)
    }
}

pub struct RsSys<R: Rs> {
    real: R,
    model: BTreeSet<u64>,
    _p: PhantomData<R>,
}

fn runs(m: &BTreeSet<u64>) -> Vec<Range<u64>> {
    let mut v: Vec<Range<u64>> = Vec::new();
    for &x in m {
        match v.last_mut() {
            Some(r) if r.end == x => r.end = x + 1,
            _ => v.push(x..x + 1),
        }
    }
    v
}

impl<R: Rs> RsSys<R> {
    fn compare(&self) -> Option<(String, String)> {
        let sig = |s: &str| format!("{}:{}", R::NAME, s);
        let want = runs(&self.model);
        let got = self.real.ranges();
        if got != want {
            let s = if got.iter().any(|r| r.start >= r.end) {
                "stores-empty-range"
            } else {
                "iteration-mismatch"
            };
            return Some((sig(s), format!("iter() yields {got:?}, expected {want:?}")));
        }
        let mut rev = self.real.ranges_rev();
        rev.reverse();
        if rev != want {
            return Some((
                sig("reverse-iteration-mismatch"),
                format!("iter().rev() yields {rev:?} (reversed), expected {want:?}"),
            ));
        }
        let elts: Vec<u64> = self.model.iter().copied().collect();
        if self.real.elts() != elts {
            return Some((
                sig("elts-mismatch"),
                format!("elts() yields {:?}, expected {elts:?}", self.real.elts()),
            ));
        }
        if self.real.len() != want.len() {
            return Some((
                sig("len-mismatch"),
                format!("len() = {}, expected {}", self.real.len(), want.len()),
            ));
        }
        if self.real.is_empty() != self.model.is_empty() {
            return Some((
                sig("is-empty-mismatch"),
                format!("is_empty() = {}", self.real.is_empty()),
            ));
        }
        let (min, max) = (self.model.first().copied(), self.model.last().copied());
        if self.real.min() != min {
            return Some((
                sig("min-mismatch"),
                format!("min() = {:?}, expected {min:?}", self.real.min()),
            ));
        }
        if self.real.max() != max {
            return Some((
                sig("max-mismatch"),
                format!("max() = {:?}, expected {max:?}", self.real.max()),
            ));
        }
        for x in 0..=DOMAIN + 1 {
            if self.real.contains(x) != self.model.contains(&x) {
                return Some((
                    sig("contains-mismatch"),
                    format!("contains({x}) = {}", self.real.contains(x)),
                ));
            }
        }
        if let Some(what) = self.real.extra() {
            return Some((sig("view-mismatch"), what));
        }
        None
    }
}

impl<R: Rs> Sys for RsSys<R> {
    type Cfg = ();
    type Op = ROp;
    const NAME: &'static str = R::NAME;

    fn new(_: &()) -> Self {
        Self {
            real: R::new(),
            model: BTreeSet::new(),
            _p: PhantomData,
        }
    }

    fn ops(&self) -> Vec<ROp> {
        let d = DOMAIN as u8;
        let mut v = Vec::new();
        for x in 0..d {
            v.push(ROp::InsertOne(x));
        }
        v.push(ROp::PopMin);
        for len in 1..=d {
            for a in 0..=d - len {
                v.push(ROp::Insert(a, a + len));
            }
        }
        for len in 1..=d {
            for a in 0..=d - len {
                v.push(ROp::Remove(a, a + len));
            }
        }
        // empty and inverted ranges
        for (a, b) in [(3, 3), (0, 0), (6, 4)] {
            v.push(ROp::Insert(a, b));
            v.push(ROp::Remove(a, b));
        }
        if R::HAS_REPLACE {
            for len in 1..=d {
                for a in 0..=d - len {
                    v.push(ROp::Replace(a, a + len));
                }
            }
            // `replace` with an empty range is not part of the alphabet: nothing documents what
            // it should do, and its only caller (the assembler's unordered deduplication) never
            // passes one (zero-length frames return before reaching it).
        }
        v
    }

    fn apply(&mut self, op: &ROp) -> StepOut {
        let sig = |s: &str| format!("{}:{}", R::NAME, s);
        let (real, want) = match *op {
            ROp::Insert(a, b) => {
                let got = self.real.insert(a as u64..b as u64);
                let mut changed = false;
                for x in a as u64..b as u64 {
                    changed |= self.model.insert(x);
                }
                (format!("{got}"), format!("{changed}"))
            }
            ROp::InsertOne(x) => {
                let got = self.real.insert_one(x as u64);
                let changed = self.model.insert(x as u64);
                (format!("{got}"), format!("{changed}"))
            }
            ROp::Remove(a, b) => {
                let got = self.real.remove(a as u64..b as u64);
                let mut changed = false;
                for x in a as u64..b as u64 {
                    changed |= self.model.remove(&x);
                }
                (format!("{got}"), format!("{changed}"))
            }
            ROp::PopMin => {
                let got = self.real.pop_min();
                let want = runs(&self.model).first().cloned();
                if let Some(r) = &want {
                    for x in r.clone() {
                        self.model.remove(&x);
                    }
                }
                (format!("{got:?}"), format!("{want:?}"))
            }
            ROp::Replace(a, b) => {
                let got = self.real.replace(a as u64..b as u64);
                let inter: BTreeSet<u64> = (a as u64..b as u64)
                    .filter(|x| self.model.contains(x))
                    .collect();
                let want = runs(&inter);
                for x in a as u64..b as u64 {
                    self.model.insert(x);
                }
                (format!("{got:?}"), format!("{want:?}"))
            }
        };
        if real != want {
            return StepOut::bad(
                real.clone(),
                want.clone(),
                sig("result-mismatch"),
                format!("returned {real}, the reference set says {want}"),
            );
        }
        let model = format!("{:?}", runs(&self.model));
        match self.compare() {
            Some((s, w)) => StepOut::bad(real, model, s, w),
            None => StepOut::ok(real, model),
        }
    }

    fn key(&self) -> String {
        format!("{} || {:?}", self.real.render(), self.model)
    }

    fn cfg_json(_: &()) -> Value {
        json!(null)
    }
    fn cfg_parse(_: &Value) -> Option<()> {
        Some(())
    }
    fn op_json(op: &ROp) -> Value {
        match *op {
            ROp::Insert(a, b) => json!(["insert", a, b]),
            ROp::InsertOne(x) => json!(["insert_one", x]),
            ROp::Remove(a, b) => json!(["remove", a, b]),
            ROp::PopMin => json!(["pop_min"]),
            ROp::Replace(a, b) => json!(["replace", a, b]),
        }
    }
    fn op_parse(v: &Value) -> Option<ROp> {
        let a = v.as_array()?;
        let n = |i: usize| a.get(i).and_then(|x| x.as_u64()).map(|x| x as u8);
        match a.first()?.as_str()? {
            "insert" => Some(ROp::Insert(n(1)?, n(2)?)),
            "insert_one" => Some(ROp::InsertOne(n(1)?)),
            "remove" => Some(ROp::Remove(n(1)?, n(2)?)),
            "pop_min" => Some(ROp::PopMin),
            "replace" => Some(ROp::Replace(n(1)?, n(2)?)),
            _ => None,
        }
    }
}
