//! E1: explicit-state search by replay, and E3: plain sequence enumeration by replay.
//!
//! A state is the operation history reaching it. Every expansion builds a fresh real component,
//! replays the history and applies one more operation. Two histories are merged only when the
//! complete key (Debug rendering of the real object + reference model state) is equal.

use std::{
    collections::{hash_map::DefaultHasher, HashMap, HashSet},
    hash::{Hash, Hasher},
    panic::{catch_unwind, AssertUnwindSafe},
    time::Instant,
};

use rayon::prelude::*;
use serde_json::{json, Value};

use crate::Viol;

/// Result of applying one operation to the pair (real component, reference model)
pub struct StepOut {
    /// Observable result of the real component
    pub real: String,
    /// What the reference model says
    pub model: String,
    /// `(signature, description)` if real and model disagree or an invariant is broken
    pub viol: Option<(String, String)>,
}

impl StepOut {
    pub fn ok(real: impl Into<String>, model: impl Into<String>) -> Self {
        Self {
            real: real.into(),
            model: model.into(),
            viol: None,
        }
    }
    pub fn bad(
        real: impl Into<String>,
        model: impl Into<String>,
        sig: impl Into<String>,
        what: impl Into<String>,
    ) -> Self {
        Self {
            real: real.into(),
            model: model.into(),
            viol: Some((sig.into(), what.into())),
        }
    }
}

/// A real component paired with its reference model
pub trait Sys: Sized {
    type Cfg: Clone + Send + Sync;
    type Op: Clone + Send + Sync;
    const NAME: &'static str;
    fn new(cfg: &Self::Cfg) -> Self;
    /// Operations enabled in the current state, simplest first
    fn ops(&self) -> Vec<Self::Op>;
    fn apply(&mut self, op: &Self::Op) -> StepOut;
    /// Complete state: rendering of the real object and of the model
    fn key(&self) -> String;
    /// Whether `key` identifies the future behaviour (false => histories are never merged)
    const MERGE: bool = true;
    /// Extra check run once on every newly discovered state (may perform side replays)
    fn state_check(_cfg: &Self::Cfg, _hist: &[Self::Op]) -> Option<(String, String)> {
        None
    }
    fn cfg_json(cfg: &Self::Cfg) -> Value;
    fn cfg_parse(v: &Value) -> Option<Self::Cfg>;
    fn op_json(op: &Self::Op) -> Value;
    fn op_parse(v: &Value) -> Option<Self::Op>;
}

pub struct Limits {
    pub max_depth: u32,
    pub max_states: u64,
    pub deadline: Instant,
}

#[derive(Default)]
pub struct SearchOut {
    pub states: u64,
    pub transitions: u64,
    pub depth: u32,
    pub closed: bool,
    pub capped: bool,
    pub outcomes: HashSet<u64>,
    pub samples: Vec<Value>,
    pub viols: Vec<Viol>,
    pub viol_counts: HashMap<String, u64>,
    pub levels: Vec<u64>,
    pub wall_ms: u64,
}

pub fn h64(s: &str, salt: u64) -> u64 {
    let mut h = DefaultHasher::new();
    salt.hash(&mut h);
    s.hash(&mut h);
    h.finish()
}

fn h128(s: &str) -> u128 {
    ((h64(s, 0x9e37_79b9_7f4a_7c15) as u128) << 64) | h64(s, 0x51ed_270b_0f2f_5d1b) as u128
}

pub fn replay_json<S: Sys>(cfg: &S::Cfg, hist: &[S::Op]) -> Value {
    json!({
        "component": S::NAME,
        "config": S::cfg_json(cfg),
        "ops": hist.iter().map(S::op_json).collect::<Vec<_>>(),
    })
}

/// Build a fresh system and replay `hist`; `None` if the replay itself panics
fn rebuild<S: Sys>(cfg: &S::Cfg, hist: &[S::Op]) -> Option<S> {
    catch_unwind(AssertUnwindSafe(|| {
        let mut s = S::new(cfg);
        for op in hist {
            let _ = s.apply(op);
        }
        s
    }))
    .ok()
}

struct Succ {
    key: u128,
    outcome: u64,
    viol: Option<(String, String)>,
}

fn panic_text(e: Box<dyn std::any::Any + Send>) -> String {
    if let Some(s) = e.downcast_ref::<&str>() {
        s.to_string()
    } else if let Some(s) = e.downcast_ref::<String>() {
        s.clone()
    } else {
        "panic".into()
    }
}

/// Apply `op` after replaying `hist` on a fresh system
fn step<S: Sys>(cfg: &S::Cfg, hist: &[S::Op], op: &S::Op) -> Succ {
    let Some(mut s) = rebuild::<S>(cfg, hist) else {
        return Succ {
            key: 0,
            outcome: 0,
            viol: Some((
                format!("{}:panic-in-replay", S::NAME),
                "replay panicked".into(),
            )),
        };
    };
    match catch_unwind(AssertUnwindSafe(|| {
        let out = s.apply(op);
        let key = if out.viol.is_none() && S::MERGE {
            h128(&s.key())
        } else {
            0
        };
        (out, key)
    })) {
        Ok((out, key)) => Succ {
            key,
            outcome: h64(&out.real, 1),
            viol: out.viol,
        },
        Err(e) => {
            let text = panic_text(e);
            Succ {
                key: 0,
                outcome: h64(&text, 2),
                viol: Some((format!("{}:panic", S::NAME), format!("panic: {text}"))),
            }
        }
    }
}

const MAX_VIOLS_PER_SIG: u64 = 2;

fn record_viol<S: Sys>(
    out: &mut SearchOut,
    cfg: &S::Cfg,
    hist: &[S::Op],
    op: Option<&S::Op>,
    sig: String,
    what: String,
) {
    let n = out.viol_counts.entry(sig.clone()).or_insert(0);
    *n += 1;
    if *n <= MAX_VIOLS_PER_SIG {
        let mut h = hist.to_vec();
        if let Some(op) = op {
            h.push(op.clone());
        }
        out.viols.push(Viol {
            signature: sig,
            what,
            replay: replay_json::<S>(cfg, &h),
        });
    }
}

/// Level-synchronous BFS by replay with merging on the complete key
pub fn bfs<S: Sys>(cfg: &S::Cfg, lim: &Limits) -> SearchOut {
    let t0 = Instant::now();
    let mut out = SearchOut::default();
    let mut seen: HashSet<u128> = HashSet::new();
    let init = S::new(cfg);
    seen.insert(h128(&init.key()));
    drop(init);
    out.states = 1;
    out.levels.push(1);
    if let Some((sig, what)) = S::state_check(cfg, &[]) {
        record_viol::<S>(&mut out, cfg, &[], None, sig, what);
    }
    let mut frontier: Vec<Vec<S::Op>> = vec![Vec::new()];
    const CHUNK: usize = 2048;
    'levels: for depth in 1..=lim.max_depth {
        if frontier.is_empty() {
            out.closed = true;
            break;
        }
        let mut next: Vec<Vec<S::Op>> = Vec::new();
        for chunk in frontier.chunks(CHUNK) {
            if Instant::now() >= lim.deadline {
                out.capped = true;
                break 'levels;
            }
            let expanded: Vec<(Vec<S::Op>, Vec<Succ>)> = chunk
                .par_iter()
                .map(|hist| {
                    let ops = match rebuild::<S>(cfg, hist) {
                        Some(s) => s.ops(),
                        None => Vec::new(),
                    };
                    let succs = ops.iter().map(|op| step::<S>(cfg, hist, op)).collect();
                    (ops, succs)
                })
                .collect();
            let mut fresh: Vec<Vec<S::Op>> = Vec::new();
            for (hist, (ops, succs)) in chunk.iter().zip(expanded) {
                for (op, succ) in ops.iter().zip(succs) {
                    out.transitions += 1;
                    out.outcomes.insert(succ.outcome);
                    if let Some((sig, what)) = succ.viol {
                        record_viol::<S>(&mut out, cfg, hist, Some(op), sig, what);
                        continue;
                    }
                    if !S::MERGE || seen.insert(succ.key) {
                        out.states += 1;
                        let mut h = Vec::with_capacity(hist.len() + 1);
                        h.extend_from_slice(hist);
                        h.push(op.clone());
                        fresh.push(h);
                    }
                }
            }
            // side checks on the newly discovered states
            let checks: Vec<Option<(String, String)>> = fresh
                .par_iter()
                .map(|h| {
                    catch_unwind(AssertUnwindSafe(|| S::state_check(cfg, h))).unwrap_or_else(|e| {
                        Some((
                            format!("{}:panic-in-state-check", S::NAME),
                            format!("panic: {}", panic_text(e)),
                        ))
                    })
                })
                .collect();
            for (h, c) in fresh.into_iter().zip(checks) {
                match c {
                    Some((sig, what)) => record_viol::<S>(&mut out, cfg, &h, None, sig, what),
                    None => next.push(h),
                }
            }
            if out.states >= lim.max_states {
                out.capped = true;
                break 'levels;
            }
        }
        out.depth = depth;
        out.levels.push(next.len() as u64);
        if let Some(h) = next.first() {
            if out.samples.len() < 3 {
                out.samples.push(replay_json::<S>(cfg, h));
            }
        }
        if let Some(h) = next.get(next.len() / 2) {
            if depth == lim.max_depth {
                out.samples.push(replay_json::<S>(cfg, h));
            }
        }
        frontier = next;
        if frontier.is_empty() {
            out.closed = true;
            break;
        }
    }
    out.wall_ms = t0.elapsed().as_millis() as u64;
    out
}

#[derive(Default)]
struct Acc {
    nodes: u64,
    outcomes: HashSet<u64>,
    max_depth: u32,
    timed_out: bool,
    viol_count: u64,
}

/// E3: enumerate every operation sequence up to `max_depth` (no merging), by replay
pub fn enumerate<S: Sys>(cfg: &S::Cfg, lim: &Limits) -> SearchOut {
    let t0 = Instant::now();
    let mut out = SearchOut {
        states: 1,
        ..Default::default()
    };

    // Sequentially enumerate prefixes of length <= 2, then fan out.
    let mut prefixes: Vec<Vec<S::Op>> = vec![Vec::new()];
    let split = lim.max_depth.min(2);
    let mut level: Vec<Vec<S::Op>> = vec![Vec::new()];
    for d in 1..=split {
        let mut nxt = Vec::new();
        for hist in &level {
            let ops = rebuild::<S>(cfg, hist).map(|s| s.ops()).unwrap_or_default();
            for op in ops {
                let s = step::<S>(cfg, hist, &op);
                out.transitions += 1;
                out.outcomes.insert(s.outcome);
                if let Some((sig, what)) = s.viol {
                    record_viol::<S>(&mut out, cfg, hist, Some(&op), sig, what);
                    continue;
                }
                out.states += 1;
                let mut h = hist.clone();
                h.push(op);
                nxt.push(h);
            }
        }
        out.depth = d;
        out.levels.push(nxt.len() as u64);
        level = nxt;
        if d == split {
            prefixes = level.clone();
        }
    }
    if lim.max_depth > split {
        let results: Vec<(Acc, Vec<(Vec<S::Op>, String, String)>)> = prefixes
            .par_iter()
            .map(|p| {
                let mut acc = Acc::default();
                let mut viols = Vec::new();
                let mut hist = p.clone();
                dfs::<S>(
                    cfg,
                    &mut hist,
                    lim.max_depth,
                    lim.deadline,
                    &mut acc,
                    &mut viols,
                );
                (acc, viols)
            })
            .collect();
        let mut all_viols = Vec::new();
        let total: u64 = results.iter().map(|(acc, _)| acc.viol_count).sum();
        if total > 0 {
            out.viol_counts.insert(
                "(violating sequences below the fan-out prefixes, all signatures)".into(),
                total,
            );
        }
        for (acc, viols) in results {
            out.states += acc.nodes;
            out.transitions += acc.nodes;
            out.outcomes.extend(acc.outcomes);
            out.depth = out.depth.max(acc.max_depth);
            out.capped |= acc.timed_out;
            all_viols.extend(viols);
        }
        // depth-first order is not shortest-first: report the shortest counterexamples
        all_viols.sort_by_key(|(h, _, _)| h.len());
        for (h, sig, what) in all_viols {
            record_viol::<S>(&mut out, cfg, &h, None, sig, what);
        }
    }
    if let Some(p) = prefixes.last() {
        out.samples.push(replay_json::<S>(cfg, p));
    }
    out.wall_ms = t0.elapsed().as_millis() as u64;
    out
}

fn dfs<S: Sys>(
    cfg: &S::Cfg,
    hist: &mut Vec<S::Op>,
    max_depth: u32,
    deadline: Instant,
    acc: &mut Acc,
    viols: &mut Vec<(Vec<S::Op>, String, String)>,
) {
    if hist.len() as u32 >= max_depth {
        return;
    }
    if acc.nodes % 256 == 0 && Instant::now() >= deadline {
        acc.timed_out = true;
        return;
    }
    let ops = rebuild::<S>(cfg, hist).map(|s| s.ops()).unwrap_or_default();
    for op in ops {
        let s = step::<S>(cfg, hist, &op);
        acc.nodes += 1;
        acc.outcomes.insert(s.outcome);
        acc.max_depth = acc.max_depth.max(hist.len() as u32 + 1);
        hist.push(op);
        if let Some((sig, what)) = s.viol {
            // keep the shortest two per signature within this subtree
            let same: Vec<usize> = viols
                .iter()
                .enumerate()
                .filter(|(_, v)| v.1 == sig)
                .map(|(i, _)| i)
                .collect();
            if same.len() < 2 {
                viols.push((hist.clone(), sig, what));
            } else if let Some(&worst) = same.iter().max_by_key(|&&i| viols[i].0.len()) {
                if viols[worst].0.len() > hist.len() {
                    viols[worst] = (hist.clone(), sig, what);
                }
            }
            acc.viol_count += 1;
        } else {
            dfs::<S>(cfg, hist, max_depth, deadline, acc, viols);
        }
        hist.pop();
        if acc.timed_out {
            return;
        }
    }
}

/// Re-execute an operation list, printing each step
pub fn replay_text<S: Sys>(v: &Value) -> String {
    let mut text = String::new();
    let Some(cfg) = S::cfg_parse(&v["config"]) else {
        return format!("{}: cannot parse config {}", S::NAME, v["config"]);
    };
    let Some(ops) = v["ops"].as_array() else {
        return format!("{}: no ops", S::NAME);
    };
    let mut hist: Vec<S::Op> = Vec::new();
    for o in ops {
        match S::op_parse(o) {
            Some(op) => hist.push(op),
            None => return format!("{}: cannot parse op {}", S::NAME, o),
        }
    }
    text.push_str(&format!(
        "component {} config {}\n",
        S::NAME,
        S::cfg_json(&cfg)
    ));
    let mut s = S::new(&cfg);
    for (i, op) in hist.iter().enumerate() {
        let r = catch_unwind(AssertUnwindSafe(|| {
            let enabled = s.ops().iter().any(|o| S::op_json(o) == S::op_json(op));
            let out = s.apply(op);
            (enabled, out)
        }));
        match r {
            Ok((enabled, out)) => {
                text.push_str(&format!(
                    "  #{:<2} {}{}\n        real : {}\n        model: {}\n",
                    i + 1,
                    S::op_json(op),
                    if enabled {
                        ""
                    } else {
                        "   (not in the enabled alphabet here)"
                    },
                    out.real,
                    out.model
                ));
                if let Some((sig, what)) = out.viol {
                    text.push_str(&format!("        VIOLATION {sig}: {what}\n"));
                    return text;
                }
            }
            Err(e) => {
                text.push_str(&format!(
                    "  #{:<2} {}\n        VIOLATION {}:panic: {}\n",
                    i + 1,
                    S::op_json(op),
                    S::NAME,
                    panic_text(e)
                ));
                return text;
            }
        }
    }
    match catch_unwind(AssertUnwindSafe(|| S::state_check(&cfg, &hist))) {
        Ok(Some((sig, what))) => text.push_str(&format!("  state check VIOLATION {sig}: {what}\n")),
        Ok(None) => text.push_str("  no violation\n"),
        Err(e) => text.push_str(&format!("  state check panicked: {}\n", panic_text(e))),
    }
    text.push_str(&format!("  final state: {}\n", s.key()));
    text
}
