//! C: the built-in congestion controllers through their public API (property C12)

use std::{
    marker::PhantomData,
    sync::Arc,
    time::{Duration, Instant},
};

use proto::{
    congestion::{
        Bbr, BbrConfig, Controller, ControllerFactory, Cubic, CubicConfig, NewReno, NewRenoConfig,
    },
    verif_comp::rtt_estimator,
    RttEstimator,
};
use serde_json::{json, Value};

use crate::{
    base_instant,
    engine::{StepOut, Sys},
};

pub const DT_MS: [u64; 3] = [0, 100, 10_000];
pub const MTUS: [u16; 3] = [1200, 1452, 9000];
pub const LOST: [u64; 3] = [0, 1200, 120_000];
const RTT_MS: u64 = 100;

#[derive(Clone, Copy, Debug, PartialEq, Eq)]
pub enum COp {
    Sent {
        dt: u8,
    },
    Ack {
        dt: u8,
        app_limited: bool,
        in_flight_big: bool,
    },
    Cong {
        dt: u8,
        persistent: bool,
        ecn: bool,
        lost: u8,
    },
    Spurious {
        dt: u8,
    },
    Mtu {
        dt: u8,
        mtu: u16,
    },
    /// a 300-byte packet (request/response or datagram traffic)
    SentSmall,
    /// acknowledgement of one 300-byte packet; `in_flight` bytes remain afterwards
    AckSmall {
        in_flight: u16,
    },
    /// almost everything in flight is lost at once
    CongBurst,
}

pub trait Kind: Send + Sync + 'static {
    const NAME: &'static str;
    fn build(now: Instant, seed: u64) -> Box<dyn Controller>;
    fn render(c: &dyn Controller) -> String;
}

pub struct KCubic;
pub struct KNewReno;
pub struct KBbr;

impl Kind for KCubic {
    const NAME: &'static str = "cubic";
    fn build(now: Instant, _: u64) -> Box<dyn Controller> {
        Arc::new(CubicConfig::default()).build(now, 1200)
    }
    fn render(c: &dyn Controller) -> String {
        match c.clone_box().into_any().downcast::<Cubic>() {
            Ok(x) => format!("{x:?}"),
            Err(_) => "?".into(),
        }
    }
}
impl Kind for KNewReno {
    const NAME: &'static str = "new_reno";
    fn build(now: Instant, _: u64) -> Box<dyn Controller> {
        Arc::new(NewRenoConfig::default()).build(now, 1200)
    }
    fn render(c: &dyn Controller) -> String {
        match c.clone_box().into_any().downcast::<NewReno>() {
            Ok(x) => format!("{x:?}"),
            Err(_) => "?".into(),
        }
    }
}
impl Kind for KBbr {
    const NAME: &'static str = "bbr";
    fn build(now: Instant, seed: u64) -> Box<dyn Controller> {
        let c = Arc::new(BbrConfig::default()).build(now, 1200);
        // `Bbr::new` seeds its gain-cycle RNG from OS entropy; pin it so histories are
        // reproducible and state keys comparable.
        let mut bbr = c
            .into_any()
            .downcast::<Bbr>()
            .expect("BbrConfig builds Bbr");
        bbr.verif_reseed(seed);
        bbr
    }
    fn render(c: &dyn Controller) -> String {
        match c.clone_box().into_any().downcast::<Bbr>() {
            Ok(x) => format!("{x:?}"),
            Err(_) => "?".into(),
        }
    }
}

/// Configuration: RNG seed (BBR only) and which slice of the alphabet is explored
#[derive(Clone, Copy, Debug, PartialEq, Eq)]
pub struct CCfg {
    pub seed: u64,
    pub alphabet: Alphabet,
}

#[derive(Clone, Copy, Debug, PartialEq, Eq)]
pub enum Alphabet {
    /// Everything: 3 time steps x 21 calls
    Full,
    /// Time steps {100 ms, 10 s} x 9 calls (one representative per call kind and flag that
    /// any of the three controllers looks at)
    Reduced,
    /// Time step 100 ms x the same 9 calls
    Minimal,
    /// The search starts from a controller that was driven through 60 rounds of full-window
    /// traffic and one loss (past start-up, in recovery); calls at 100 ms steps: full-size and
    /// 300-byte packets sent / acknowledged, single and burst losses
    Recovery,
}

impl Alphabet {
    fn name(self) -> &'static str {
        match self {
            Self::Full => "full",
            Self::Reduced => "reduced",
            Self::Minimal => "minimal",
            Self::Recovery => "recovery",
        }
    }
}

pub struct CcSys<K: Kind> {
    alphabet: Alphabet,
    real: Box<dyn Controller>,
    rtt: RttEstimator,
    now_ms: u64,
    next_pn: u64,
    mtu: u16,
    _k: PhantomData<K>,
}

impl<K: Kind> CcSys<K> {
    fn at(ms: u64) -> Instant {
        // one second of head room so that `now - rtt` never precedes the base
        base_instant() + Duration::from_millis(1000 + ms)
    }
    fn model_str(&self) -> String {
        format!(
            "t={}ms next_pn={} mtu={}",
            self.now_ms, self.next_pn, self.mtu
        )
    }
}

impl<K: Kind> Sys for CcSys<K> {
    type Cfg = CCfg;
    type Op = COp;
    const NAME: &'static str = K::NAME;

    fn new(cfg: &CCfg) -> Self {
        let mut s = Self {
            alphabet: cfg.alphabet,
            real: K::build(Self::at(0), cfg.seed),
            rtt: rtt_estimator(
                Duration::from_millis(RTT_MS),
                &[(Duration::ZERO, Duration::from_millis(RTT_MS))],
            ),
            now_ms: 0,
            next_pn: 0,
            mtu: 1200,
            _k: PhantomData,
        };
        if cfg.alphabet == Alphabet::Recovery {
            // warm-up (not part of the searched history): steady full-window traffic, then one loss
            for _ in 0..60 {
                for _ in 0..10 {
                    let _ = s.apply(&COp::Sent { dt: 0 });
                }
                let _ = s.apply(&COp::Ack {
                    dt: 1,
                    app_limited: false,
                    in_flight_big: true,
                });
            }
            let _ = s.apply(&COp::Cong {
                dt: 1,
                persistent: false,
                ecn: false,
                lost: 1,
            });
        }
        s
    }

    fn ops(&self) -> Vec<COp> {
        let mut v = Vec::new();
        if self.alphabet == Alphabet::Recovery {
            return vec![
                COp::SentSmall,
                COp::AckSmall { in_flight: 600 },
                COp::AckSmall { in_flight: 0 },
                COp::CongBurst,
                COp::Sent { dt: 1 },
                COp::Ack {
                    dt: 1,
                    app_limited: false,
                    in_flight_big: true,
                },
                COp::Cong {
                    dt: 1,
                    persistent: false,
                    ecn: false,
                    lost: 1,
                },
            ];
        }
        if self.alphabet != Alphabet::Full {
            let dts: &[u8] = if self.alphabet == Alphabet::Reduced {
                &[1, 2]
            } else {
                &[1]
            };
            for &dt in dts {
                v.push(COp::Sent { dt });
                v.push(COp::Ack {
                    dt,
                    app_limited: false,
                    in_flight_big: false,
                });
                v.push(COp::Ack {
                    dt,
                    app_limited: false,
                    in_flight_big: true,
                });
                v.push(COp::Ack {
                    dt,
                    app_limited: true,
                    in_flight_big: false,
                });
                v.push(COp::Cong {
                    dt,
                    persistent: false,
                    ecn: false,
                    lost: 1,
                });
                v.push(COp::Cong {
                    dt,
                    persistent: true,
                    ecn: false,
                    lost: 1,
                });
                v.push(COp::Spurious { dt });
                v.push(COp::Mtu { dt, mtu: 9000 });
                v.push(COp::Mtu { dt, mtu: 1200 });
            }
            return v;
        }
        for dt in 0..DT_MS.len() as u8 {
            v.push(COp::Sent { dt });
            for app_limited in [false, true] {
                for in_flight_big in [false, true] {
                    v.push(COp::Ack {
                        dt,
                        app_limited,
                        in_flight_big,
                    });
                }
            }
            for persistent in [false, true] {
                for ecn in [false, true] {
                    for lost in 0..LOST.len() as u8 {
                        v.push(COp::Cong {
                            dt,
                            persistent,
                            ecn,
                            lost,
                        });
                    }
                }
            }
            v.push(COp::Spurious { dt });
            for mtu in MTUS {
                v.push(COp::Mtu { dt, mtu });
            }
        }
        v
    }

    fn apply(&mut self, op: &COp) -> StepOut {
        let dt = match *op {
            COp::Sent { dt }
            | COp::Ack { dt, .. }
            | COp::Cong { dt, .. }
            | COp::Spurious { dt }
            | COp::Mtu { dt, .. } => dt,
            COp::SentSmall => 0,
            COp::AckSmall { .. } | COp::CongBurst => 1,
        };
        self.now_ms += DT_MS[dt as usize];
        let now = Self::at(self.now_ms);
        let sent = now - Duration::from_millis(RTT_MS);
        match *op {
            COp::Sent { .. } => {
                self.real.on_sent(now, 1200, self.next_pn);
                self.next_pn += 1;
            }
            COp::Ack {
                app_limited,
                in_flight_big,
                ..
            } => {
                self.real.on_ack(now, sent, 1200, app_limited, &self.rtt);
                let largest = self.next_pn.checked_sub(1);
                self.real.on_end_acks(
                    now,
                    if in_flight_big { 12_000 } else { 0 },
                    app_limited,
                    largest,
                );
            }
            COp::Cong {
                persistent,
                ecn,
                lost,
                ..
            } => {
                self.real
                    .on_congestion_event(now, sent, persistent, ecn, LOST[lost as usize]);
            }
            COp::SentSmall => {
                self.real.on_sent(now, 300, self.next_pn);
                self.next_pn += 1;
            }
            COp::AckSmall { in_flight } => {
                self.real.on_ack(now, sent, 300, false, &self.rtt);
                let largest = self.next_pn.checked_sub(1);
                self.real.on_end_acks(now, in_flight as u64, false, largest);
            }
            COp::CongBurst => {
                self.real
                    .on_congestion_event(now, sent, false, false, 11_000);
            }
            COp::Spurious { .. } => self.real.on_spurious_congestion_event(),
            COp::Mtu { mtu, .. } => {
                self.real.on_mtu_update(mtu);
                self.mtu = mtu;
            }
        }
        let w = self.real.window();
        let m = self.real.metrics();
        let real = format!(
            "window={w} ssthresh={:?} pacing_rate={:?}",
            m.ssthresh, m.pacing_rate
        );
        let floor = 2 * self.mtu as u64;
        if w < floor {
            StepOut::bad(
                real,
                self.model_str(),
                format!("{}:window-below-two-datagrams", K::NAME),
                format!(
                    "window() = {w} < 2 x current max datagram size {} = {floor}",
                    self.mtu
                ),
            )
        } else if m.congestion_window != w {
            StepOut::bad(
                real,
                self.model_str(),
                format!("{}:metrics-window-mismatch", K::NAME),
                format!(
                    "metrics().congestion_window = {} but window() = {w}",
                    m.congestion_window
                ),
            )
        } else {
            StepOut::ok(real, self.model_str())
        }
    }

    fn key(&self) -> String {
        format!("{} || {}", K::render(&*self.real), self.model_str())
    }

    fn cfg_json(c: &CCfg) -> Value {
        json!({ "seed": c.seed, "alphabet": c.alphabet.name() })
    }
    fn cfg_parse(v: &Value) -> Option<CCfg> {
        Some(CCfg {
            seed: v["seed"].as_u64()?,
            alphabet: match v["alphabet"].as_str().unwrap_or("full") {
                "reduced" => Alphabet::Reduced,
                "minimal" => Alphabet::Minimal,
                "recovery" => Alphabet::Recovery,
                _ => Alphabet::Full,
            },
        })
    }
    fn op_json(op: &COp) -> Value {
        match *op {
            COp::Sent { dt } => json!(["on_sent", DT_MS[dt as usize]]),
            COp::Ack {
                dt,
                app_limited,
                in_flight_big,
            } => {
                json!([
                    "on_ack+on_end_acks",
                    DT_MS[dt as usize],
                    app_limited,
                    if in_flight_big { 12_000 } else { 0 }
                ])
            }
            COp::Cong {
                dt,
                persistent,
                ecn,
                lost,
            } => {
                json!([
                    "on_congestion_event",
                    DT_MS[dt as usize],
                    persistent,
                    ecn,
                    LOST[lost as usize]
                ])
            }
            COp::Spurious { dt } => json!(["on_spurious_congestion_event", DT_MS[dt as usize]]),
            COp::Mtu { dt, mtu } => json!(["on_mtu_update", DT_MS[dt as usize], mtu]),
            COp::SentSmall => json!(["on_sent_300", 0]),
            COp::AckSmall { in_flight } => json!(["on_ack_300+on_end_acks", 100, in_flight]),
            COp::CongBurst => json!(["on_congestion_event_burst", 100, 11_000]),
        }
    }
    fn op_parse(v: &Value) -> Option<COp> {
        let a = v.as_array()?;
        match a.first()?.as_str()? {
            "on_sent_300" => return Some(COp::SentSmall),
            "on_ack_300+on_end_acks" => {
                return Some(COp::AckSmall {
                    in_flight: a.get(2)?.as_u64()? as u16,
                })
            }
            "on_congestion_event_burst" => return Some(COp::CongBurst),
            _ => {}
        }
        let dt = DT_MS
            .iter()
            .position(|&d| Some(d) == a.get(1).and_then(|x| x.as_u64()))? as u8;
        match a.first()?.as_str()? {
            "on_sent" => Some(COp::Sent { dt }),
            "on_ack+on_end_acks" => Some(COp::Ack {
                dt,
                app_limited: a.get(2)?.as_bool()?,
                in_flight_big: a.get(3)?.as_u64()? != 0,
            }),
            "on_congestion_event" => Some(COp::Cong {
                dt,
                persistent: a.get(2)?.as_bool()?,
                ecn: a.get(3)?.as_bool()?,
                lost: LOST
                    .iter()
                    .position(|&l| Some(l) == a.get(4).and_then(|x| x.as_u64()))?
                    as u8,
            }),
            "on_spurious_congestion_event" => Some(COp::Spurious { dt }),
            "on_mtu_update" => Some(COp::Mtu {
                dt,
                mtu: a.get(2)?.as_u64()? as u16,
            }),
            _ => None,
        }
    }
}
