//! A1: `connection::assembler::Assembler` against a per-byte reference model (property C01)

use bytes::Bytes;
use proto::verif_comp::VerifAssembler;
use serde_json::{json, Value};

use crate::{
    engine::{StepOut, Sys},
    pattern,
};

/// Which slice of the alphabet a search uses
#[derive(Clone, Debug)]
pub struct Profile {
    pub name: &'static str,
    /// Length of the stream
    pub stream: u8,
    /// Largest insert length
    pub max_len: u8,
    /// Offsets at which empty frames are inserted
    pub empties: Vec<u8>,
    /// Also insert with `allocation_size = 40_000` (forces `defragment`)
    pub big_alloc: bool,
    /// Operations applied before the search starts (e.g. a mode switch)
    pub prefix: Vec<AOp>,
    /// Whether ordered reads are part of the alphabet
    pub ordered_reads: bool,
}

pub fn profiles() -> Vec<Profile> {
    vec![
        // Tiny stream, whole alphabet incl. switching from ordered to unordered reads at any point:
        // small enough to be searched deep (mode switches after partial reads, late duplicates).
        Profile {
            name: "mix3",
            stream: 3,
            max_len: 2,
            empties: vec![0, 3],
            big_alloc: true,
            prefix: vec![],
            ordered_reads: true,
        },
        // The alphabet as specified: 10-byte stream, every (off, len<=3) x {exact, huge} allocation.
        Profile {
            name: "full10",
            stream: 10,
            max_len: 3,
            empties: vec![0, 3, 5, 8, 10],
            big_alloc: true,
            prefix: vec![],
            ordered_reads: true,
        },
        // Same inserts, but the stream is switched to unordered mode first; duplicates are not
        // stored in that mode, so the search gets deeper.
        Profile {
            name: "unordered10",
            stream: 10,
            max_len: 3,
            empties: vec![0, 3, 5, 8, 10],
            big_alloc: true,
            prefix: vec![AOp::Read {
                max: 0,
                ordered: false,
            }],
            ordered_reads: false,
        },
        // Short stream: everything, deeper.
        Profile {
            name: "full5",
            stream: 5,
            max_len: 3,
            empties: vec![0, 2, 5],
            big_alloc: true,
            prefix: vec![],
            ordered_reads: true,
        },
        // Short stream in unordered mode: deepest.
        Profile {
            name: "unordered5",
            stream: 5,
            max_len: 3,
            empties: vec![0, 2, 5],
            big_alloc: true,
            prefix: vec![AOp::Read {
                max: 0,
                ordered: false,
            }],
            ordered_reads: false,
        },
    ]
}

#[derive(Clone, Copy, Debug, PartialEq, Eq)]
pub enum AOp {
    Insert {
        off: u8,
        len: u8,
        big: bool,
    },
    /// `max == 0` stands for `usize::MAX`
    Read {
        max: u8,
        ordered: bool,
    },
    Clear,
}

#[derive(Clone, Copy, PartialEq, Eq, Debug)]
enum B {
    Missing,
    Buffered,
    Returned,
    /// Received, then discarded by `clear()` in unordered mode. The implementation remembers the
    /// offsets as received, so re-sent copies are normally dropped; nothing documents that, hence
    /// the model lets such a byte be delivered at most once more or never.
    Gone,
}

pub struct AsmSys {
    profile: Profile,
    real: VerifAssembler,
    st: Vec<B>,
    unordered: bool,
    cursor: usize,
}

impl AsmSys {
    fn check_counters(&self) -> Option<(String, String)> {
        let want = self.st.iter().filter(|&&b| b == B::Returned).count() as u64;
        let got = self.real.bytes_read();
        (want != got).then(|| {
            (
                "assembler:bytes-read-mismatch".to_string(),
                format!("bytes_read() = {got}, bytes actually returned to the reader = {want}"),
            )
        })
    }

    fn model_str(&self) -> String {
        let s: String = self
            .st
            .iter()
            .map(|b| match b {
                B::Missing => '.',
                B::Buffered => 'b',
                B::Returned => 'R',
                B::Gone => 'x',
            })
            .collect();
        format!(
            "{} cursor={} [{}]",
            if self.unordered {
                "unordered"
            } else {
                "ordered"
            },
            self.cursor,
            s
        )
    }
}

impl Sys for AsmSys {
    type Cfg = Profile;
    type Op = AOp;
    const NAME: &'static str = "assembler";

    fn new(cfg: &Profile) -> Self {
        let mut s = Self {
            profile: cfg.clone(),
            real: VerifAssembler::new(),
            st: vec![B::Missing; cfg.stream as usize],
            unordered: false,
            cursor: 0,
        };
        for op in &cfg.prefix {
            let _ = s.apply(op);
        }
        s
    }

    fn ops(&self) -> Vec<AOp> {
        let p = &self.profile;
        let mut v = Vec::new();
        for len in 1..=p.max_len {
            for off in 0..p.stream {
                if off + len <= p.stream {
                    v.push(AOp::Insert {
                        off,
                        len,
                        big: false,
                    });
                }
            }
        }
        if p.ordered_reads {
            for max in [0u8, 1, 2] {
                v.push(AOp::Read { max, ordered: true });
            }
        }
        for max in [0u8, 1] {
            v.push(AOp::Read {
                max,
                ordered: false,
            });
        }
        v.push(AOp::Clear);
        for &off in &p.empties {
            v.push(AOp::Insert {
                off,
                len: 0,
                big: false,
            });
        }
        if p.big_alloc {
            for len in 1..=p.max_len {
                for off in 0..p.stream {
                    if off + len <= p.stream {
                        v.push(AOp::Insert {
                            off,
                            len,
                            big: true,
                        });
                    }
                }
            }
        }
        v
    }

    fn apply(&mut self, op: &AOp) -> StepOut {
        let mut out = match *op {
            AOp::Insert { off, len, big } => {
                let data: Vec<u8> = (off..off + len).map(|o| pattern(o as u64)).collect();
                let alloc = if big { 40_000 } else { len as usize };
                let ok = self.real.insert(off as u64, Bytes::from(data), alloc);
                for o in off as usize..(off + len) as usize {
                    if self.unordered {
                        if self.st[o] == B::Missing {
                            self.st[o] = B::Buffered;
                        }
                    } else if o >= self.cursor && self.st[o] == B::Missing {
                        self.st[o] = B::Buffered;
                    }
                }
                if ok {
                    StepOut::ok("Ok", self.model_str())
                } else {
                    StepOut::bad(
                        "Err(TooManyChunks)",
                        self.model_str(),
                        "assembler:too-many-chunks",
                        "insert refused with TooManyChunks although only a handful of chunks exist",
                    )
                }
            }
            AOp::Read { max, ordered } => self.read(max, ordered),
            AOp::Clear => {
                self.real.clear();
                for b in self.st.iter_mut() {
                    if *b == B::Buffered {
                        *b = if self.unordered { B::Gone } else { B::Missing };
                    }
                }
                StepOut::ok("()", self.model_str())
            }
        };
        if out.viol.is_none() {
            out.viol = self.check_counters();
        }
        out
    }

    fn key(&self) -> String {
        format!("{} || {}", self.real.render(), self.model_str())
    }

    fn cfg_json(cfg: &Profile) -> Value {
        json!(cfg.name)
    }
    fn cfg_parse(v: &Value) -> Option<Profile> {
        let name = v.as_str()?;
        profiles().into_iter().find(|p| p.name == name)
    }
    fn op_json(op: &AOp) -> Value {
        match *op {
            AOp::Insert { off, len, big } => {
                json!(["insert", off, len, if big { 40_000 } else { len as u32 }])
            }
            AOp::Read { max, ordered } => json!([
                "read",
                if max == 0 { json!("MAX") } else { json!(max) },
                if ordered { "ordered" } else { "unordered" }
            ]),
            AOp::Clear => json!(["clear"]),
        }
    }
    fn op_parse(v: &Value) -> Option<AOp> {
        let a = v.as_array()?;
        match a.first()?.as_str()? {
            "insert" => Some(AOp::Insert {
                off: a.get(1)?.as_u64()? as u8,
                len: a.get(2)?.as_u64()? as u8,
                big: a.get(3)?.as_u64()? == 40_000,
            }),
            "read" => Some(AOp::Read {
                max: a.get(1)?.as_u64().unwrap_or(0) as u8,
                ordered: a.get(2)?.as_str()? == "ordered",
            }),
            "clear" => Some(AOp::Clear),
            _ => None,
        }
    }
}

impl AsmSys {
    fn read(&mut self, max: u8, ordered: bool) -> StepOut {
        let max_len = if max == 0 { usize::MAX } else { max as usize };
        let allowed = self.real.ensure_ordering(ordered);
        if ordered && self.unordered {
            // Once unordered reads were used, ordered reads must be refused
            return if allowed {
                StepOut::bad(
                    "ensure_ordering(true) = Ok",
                    "must be Err(IllegalOrderedRead)",
                    "assembler:ordered-read-allowed-after-unordered",
                    "ensure_ordering(true) succeeded after an unordered read",
                )
            } else {
                StepOut::ok("Err(IllegalOrderedRead)", "Err(IllegalOrderedRead)")
            };
        }
        if !allowed {
            return StepOut::bad(
                "Err(IllegalOrderedRead)",
                "Ok",
                "assembler:read-refused",
                format!("ensure_ordering({ordered}) failed in a legal situation"),
            );
        }
        if !ordered {
            self.unordered = true;
        }
        let got = self.real.read(max_len, ordered);
        let real = match &got {
            None => "None".to_string(),
            Some((off, b)) => format!("Some(offset={off}, bytes={:?})", &b[..]),
        };
        let n = self.st.len();
        match got {
            None => {
                if ordered {
                    if self.cursor < n && self.st[self.cursor] == B::Buffered {
                        return StepOut::bad(
                            real,
                            self.model_str(),
                            "assembler:ordered-read-loses-byte",
                            format!(
                                "ordered read returned None although byte {} was received and not yet read",
                                self.cursor
                            ),
                        );
                    }
                } else if let Some(o) = self.st.iter().position(|&b| b == B::Buffered) {
                    return StepOut::bad(
                        real,
                        self.model_str(),
                        "assembler:unordered-read-loses-byte",
                        format!("unordered read returned None although byte {o} was received and never returned"),
                    );
                }
                StepOut::ok(real, self.model_str())
            }
            Some((off, bytes)) => {
                let off = off as usize;
                if bytes.is_empty() {
                    return StepOut::bad(
                        real,
                        self.model_str(),
                        "assembler:empty-chunk",
                        "read returned an empty chunk",
                    );
                }
                if bytes.len() > max_len {
                    return StepOut::bad(
                        real,
                        self.model_str(),
                        "assembler:read-exceeds-max",
                        format!("chunk of {} bytes for max_length {max_len}", bytes.len()),
                    );
                }
                if off + bytes.len() > n {
                    return StepOut::bad(
                        real,
                        self.model_str(),
                        "assembler:chunk-out-of-stream",
                        "chunk extends past everything ever inserted",
                    );
                }
                if ordered && off != self.cursor {
                    let sig = if off > self.cursor {
                        "assembler:ordered-read-skips"
                    } else {
                        "assembler:ordered-read-repeats"
                    };
                    return StepOut::bad(
                        real,
                        self.model_str(),
                        sig,
                        format!(
                            "ordered read returned offset {off}, read cursor is {}",
                            self.cursor
                        ),
                    );
                }
                for (i, &b) in bytes.iter().enumerate() {
                    let o = off + i;
                    if b != pattern(o as u64) {
                        return StepOut::bad(
                            real,
                            self.model_str(),
                            "assembler:content-mismatch",
                            format!(
                                "byte at offset {o} is {b}, written value is {}",
                                pattern(o as u64)
                            ),
                        );
                    }
                    match self.st[o] {
                        B::Buffered => self.st[o] = B::Returned,
                        B::Returned => {
                            // bytes below the (frozen) ordered cursor were returned by ordered reads
                            let (sig, by) = if !ordered && o < self.cursor {
                                (
                                    "assembler:byte-returned-twice:ordered-then-unordered",
                                    "ordered",
                                )
                            } else {
                                ("assembler:byte-returned-twice", "earlier")
                            };
                            return StepOut::bad(
                                real,
                                self.model_str(),
                                sig,
                                format!("byte at offset {o} was already returned by an {by} read"),
                            );
                        }
                        // Discarded by clear() in unordered mode: the documentation promises
                        // nothing about re-received data, so a single late delivery is tolerated
                        B::Gone => self.st[o] = B::Returned,
                        B::Missing => {
                            return StepOut::bad(
                                real,
                                self.model_str(),
                                "assembler:returns-unreceived-byte",
                                format!(
                                    "byte at offset {o} returned although not buffered ({:?})",
                                    self.st[o]
                                ),
                            )
                        }
                    }
                }
                if ordered {
                    self.cursor = off + bytes.len();
                }
                StepOut::ok(real, self.model_str())
            }
        }
    }
}
