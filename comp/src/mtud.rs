//! B: `connection::mtud::MtuDiscovery` against a simulated link of MTU `M` (property C13)

use std::time::{Duration, Instant};

use proto::verif_comp::VerifMtuDiscovery;
use serde_json::{json, Value};

use crate::{
    base_instant,
    engine::{StepOut, Sys},
};

pub const INITIAL_MTU: u16 = 1200;
pub const MIN_MTU: u16 = 1200;
pub const LINKS: [u16; 5] = [1200, 1350, 1452, 1500, 9000];
pub const UPPER_BOUNDS: [u16; 2] = [1452, 9000];
pub const PEER_LIMITS: [u16; 3] = [1200, 1350, 65527];

#[derive(Clone, Copy, Debug, PartialEq, Eq)]
pub struct MCfg {
    pub link: u16,
    pub upper_bound: u16,
    pub peer: u16,
    /// Restrict the alphabet to a faithful environment (probe acknowledged iff it fits the link,
    /// no other losses); every state is then also driven to completion in a side replay
    pub faithful_only: bool,
}

#[derive(Clone, Copy, Debug, PartialEq, Eq)]
pub enum MOp {
    Poll,
    /// The in-flight probe is acknowledged (enabled iff it fits the link)
    ProbeAcked,
    /// The in-flight probe is lost (faithful iff it does not fit the link, else adversarial)
    ProbeLost,
    /// A non-probe packet with a fresh packet number is acknowledged; `true` = of size current_mtu
    Acked(bool),
    /// A non-probe packet is lost; (`true` = of size current_mtu else 1200, packet-number gap)
    Lost(bool, bool),
    BlackHole,
    /// Advance the clock by 1 s or by the re-probe interval
    Time(bool),
}

pub struct MtuSys {
    cfg: MCfg,
    real: VerifMtuDiscovery,
    now_s: u64,
    next_pn: u64,
    /// (packet number, size) of the probe in flight
    probe: Option<(u64, u16)>,
    current: u16,
    faithful: bool,
}

impl MtuSys {
    fn now(&self) -> Instant {
        base_instant() + Duration::from_secs(self.now_s)
    }
    fn model_str(&self) -> String {
        format!(
            "t={}s next_pn={} probe={:?} current_mtu={} faithful={}",
            self.now_s, self.next_pn, self.probe, self.current, self.faithful
        )
    }
    fn target(&self) -> u16 {
        self.cfg
            .link
            .min(self.cfg.upper_bound)
            .min(self.cfg.peer)
            .max(INITIAL_MTU.min(self.cfg.peer))
    }

    /// Invariants on current_mtu after any operation; `expected` is what the model allows
    fn check_mtu(&mut self, expected: u16, ctx: &str) -> Option<(String, String)> {
        let got = self.real.current_mtu();
        let floor = MIN_MTU.min(self.cfg.peer);
        if got < floor {
            return Some((
                "mtud:mtu-below-minimum".into(),
                format!(
                    "{ctx}: current_mtu {got} < min(min_mtu, peer max_udp_payload_size) = {floor}"
                ),
            ));
        }
        if got > self.cfg.link {
            return Some((
                "mtud:mtu-exceeds-link".into(),
                format!("{ctx}: current_mtu {got} > link MTU {} although only fitting probes were acknowledged", self.cfg.link),
            ));
        }
        if got > self.cfg.peer {
            return Some((
                "mtud:mtu-exceeds-peer-limit".into(),
                format!(
                    "{ctx}: current_mtu {got} > peer max_udp_payload_size {}",
                    self.cfg.peer
                ),
            ));
        }
        if got != expected {
            let sig = if got > self.current {
                "mtud:mtu-rose-without-acked-probe"
            } else {
                "mtud:mtu-changed-unexpectedly"
            };
            return Some((
                sig.into(),
                format!(
                    "{ctx}: current_mtu went {} -> {got}, the model allows {expected}",
                    self.current
                ),
            ));
        }
        self.current = got;
        let real_probe = self.real.in_flight_mtu_probe();
        if real_probe != self.probe.map(|p| p.0) {
            return Some((
                "mtud:in-flight-probe-mismatch".into(),
                format!(
                    "{ctx}: in_flight_mtu_probe() = {real_probe:?}, environment has {:?}",
                    self.probe
                ),
            ));
        }
        None
    }
}

fn minimum_change() -> u16 {
    VerifMtuDiscovery::default_config().1
}

impl Sys for MtuSys {
    type Cfg = MCfg;
    type Op = MOp;
    const NAME: &'static str = "mtud";

    fn new(cfg: &MCfg) -> Self {
        let real = VerifMtuDiscovery::new(INITIAL_MTU, MIN_MTU, Some(cfg.peer), cfg.upper_bound);
        let current = real.current_mtu();
        Self {
            cfg: *cfg,
            real,
            now_s: 0,
            next_pn: 0,
            probe: None,
            current,
            faithful: true,
        }
    }

    fn ops(&self) -> Vec<MOp> {
        let mut v = vec![MOp::Poll];
        if let Some((_, size)) = self.probe {
            if size <= self.cfg.link {
                v.push(MOp::ProbeAcked);
            }
            if !self.cfg.faithful_only || size > self.cfg.link {
                v.push(MOp::ProbeLost);
            }
        }
        v.push(MOp::Time(false));
        v.push(MOp::Time(true));
        v.push(MOp::Acked(false));
        if self.current != 1200 {
            v.push(MOp::Acked(true));
        }
        if !self.cfg.faithful_only {
            v.push(MOp::BlackHole);
            for gap in [false, true] {
                v.push(MOp::Lost(false, gap));
                if self.current != 1200 {
                    v.push(MOp::Lost(true, gap));
                }
            }
        }
        v
    }

    fn apply(&mut self, op: &MOp) -> StepOut {
        match *op {
            MOp::Poll => {
                let pn = self.next_pn;
                let got = self.real.poll_transmit(self.now(), pn);
                let real = format!("{got:?}");
                match got {
                    Some(size) => {
                        self.next_pn += 1;
                        if self.probe.is_some() {
                            return StepOut::bad(
                                real,
                                self.model_str(),
                                "mtud:second-probe-in-flight",
                                "poll_transmit produced a probe while another one is in flight",
                            );
                        }
                        if size <= self.current {
                            return StepOut::bad(
                                real,
                                self.model_str(),
                                "mtud:probe-not-above-current-mtu",
                                format!("probe of {size} bytes with current_mtu {}", self.current),
                            );
                        }
                        if size > self.cfg.upper_bound {
                            return StepOut::bad(
                                real,
                                self.model_str(),
                                "mtud:probe-exceeds-upper-bound",
                                format!(
                                    "probe of {size} bytes, configured upper bound {}",
                                    self.cfg.upper_bound
                                ),
                            );
                        }
                        if size > self.cfg.peer {
                            return StepOut::bad(
                                real,
                                self.model_str(),
                                "mtud:probe-exceeds-peer-limit",
                                format!(
                                    "probe of {size} bytes, peer max_udp_payload_size {}",
                                    self.cfg.peer
                                ),
                            );
                        }
                        self.probe = Some((pn, size));
                    }
                    None => {}
                }
                let cur = self.current;
                match self.check_mtu(cur, "poll_transmit") {
                    Some((s, w)) => StepOut::bad(real, self.model_str(), s, w),
                    None => StepOut::ok(real, self.model_str()),
                }
            }
            MOp::ProbeAcked => {
                let Some((pn, size)) = self.probe.take() else {
                    return StepOut::ok("(skipped)", self.model_str());
                };
                let was_probe = self.real.on_acked(pn, size);
                let real = format!("on_acked({pn},{size}) = {was_probe}");
                if !was_probe {
                    return StepOut::bad(
                        real,
                        self.model_str(),
                        "mtud:acked-probe-not-recognised",
                        "on_acked of the in-flight probe returned false",
                    );
                }
                match self.check_mtu(size, "probe acked") {
                    Some((s, w)) => StepOut::bad(real, self.model_str(), s, w),
                    None => StepOut::ok(real, self.model_str()),
                }
            }
            MOp::ProbeLost => {
                let Some((_, size)) = self.probe.take() else {
                    return StepOut::ok("(skipped)", self.model_str());
                };
                if size <= self.cfg.link {
                    self.faithful = false;
                }
                self.real.on_probe_lost();
                let cur = self.current;
                match self.check_mtu(cur, "probe lost") {
                    Some((s, w)) => StepOut::bad("()", self.model_str(), s, w),
                    None => StepOut::ok("()", self.model_str()),
                }
            }
            MOp::Acked(big) => {
                let pn = self.next_pn;
                self.next_pn += 1;
                let len = if big { self.current } else { 1200 };
                let was_probe = self.real.on_acked(pn, len);
                let real = format!("on_acked({pn},{len}) = {was_probe}");
                if was_probe {
                    return StepOut::bad(
                        real,
                        self.model_str(),
                        "mtud:non-probe-taken-for-probe",
                        "on_acked of an ordinary packet returned true",
                    );
                }
                let cur = self.current;
                match self.check_mtu(cur, "non-probe acked") {
                    Some((s, w)) => StepOut::bad(real, self.model_str(), s, w),
                    None => StepOut::ok(real, self.model_str()),
                }
            }
            MOp::Lost(big, gap) => {
                self.faithful = false;
                if gap {
                    self.next_pn += 1;
                }
                let pn = self.next_pn;
                self.next_pn += 1;
                let len = if big { self.current } else { 1200 };
                self.real.on_non_probe_lost(pn, len);
                let real = format!("on_non_probe_lost({pn},{len})");
                let cur = self.current;
                match self.check_mtu(cur, "non-probe lost") {
                    Some((s, w)) => StepOut::bad(real, self.model_str(), s, w),
                    None => StepOut::ok(real, self.model_str()),
                }
            }
            MOp::BlackHole => {
                let hit = self.real.black_hole_detected(self.now());
                let real = format!("black_hole_detected = {hit}");
                if hit {
                    // The search is abandoned; a probe still in flight is forgotten by mtud. The
                    // environment may still answer it later, which must then count as non-probe.
                    self.probe = None;
                }
                let expected = if hit { MIN_MTU } else { self.current };
                match self.check_mtu(expected, "black hole check") {
                    Some((s, w)) => StepOut::bad(real, self.model_str(), s, w),
                    None => StepOut::ok(real, self.model_str()),
                }
            }
            MOp::Time(long) => {
                self.now_s += if long { 600 } else { 1 };
                StepOut::ok("()", self.model_str())
            }
        }
    }

    fn key(&self) -> String {
        format!("{} || {}", self.real.render(), self.model_str())
    }

    /// With a faithful environment, probing at a fixed time terminates and ends near the target
    fn state_check(cfg: &MCfg, hist: &[MOp]) -> Option<(String, String)> {
        let mut s = Self::new(cfg);
        for op in hist {
            let _ = s.apply(op);
        }
        if !s.faithful {
            return None;
        }
        let mut probes = 0u32;
        let mut steps = 0u32;
        loop {
            steps += 1;
            if steps > 400 {
                return Some((
                    "mtud:probing-does-not-terminate".into(),
                    format!(
                        "faithful link {}: still probing after {probes} probes at a fixed time",
                        cfg.link
                    ),
                ));
            }
            if s.probe.is_none() {
                let out = s.apply(&MOp::Poll);
                if let Some(v) = out.viol {
                    return Some(v);
                }
                if s.probe.is_none() {
                    break;
                }
                probes += 1;
            }
            let (_, size) = s.probe.unwrap();
            let op = if size <= cfg.link {
                MOp::ProbeAcked
            } else {
                MOp::ProbeLost
            };
            if let Some(v) = s.apply(&op).viol {
                return Some(v);
            }
        }
        let fin = s.real.current_mtu();
        let target = s.target();
        let mc = minimum_change();
        if fin > cfg.link {
            return Some((
                "mtud:mtu-exceeds-link".into(),
                format!("final current_mtu {fin} > link {}", cfg.link),
            ));
        }
        // The binary search stops once the next step would move by less than `minimum_change`
        // from the last probed size; the last failed probe may sit up to `minimum_change` above
        // the midpoint, so the documented granularity amounts to 2 x minimum_change.
        if target.saturating_sub(fin) >= 2 * mc {
            return Some((
                "mtud:search-ends-far-from-path-mtu".into(),
                format!("faithful link {}: search completed at {fin}, reachable target {target}, minimum_change {mc}", cfg.link),
            ));
        }
        None
    }

    fn cfg_json(c: &MCfg) -> Value {
        json!({"link": c.link, "upper_bound": c.upper_bound, "peer_max_udp_payload_size": c.peer, "faithful_only": c.faithful_only})
    }
    fn cfg_parse(v: &Value) -> Option<MCfg> {
        Some(MCfg {
            link: v["link"].as_u64()? as u16,
            upper_bound: v["upper_bound"].as_u64()? as u16,
            peer: v["peer_max_udp_payload_size"].as_u64()? as u16,
            faithful_only: v["faithful_only"].as_bool().unwrap_or(false),
        })
    }
    fn op_json(op: &MOp) -> Value {
        match *op {
            MOp::Poll => json!(["poll_transmit"]),
            MOp::ProbeAcked => json!(["probe_acked"]),
            MOp::ProbeLost => json!(["probe_lost"]),
            MOp::Acked(big) => json!(["on_acked", if big { "current_mtu" } else { "1200" }]),
            MOp::Lost(big, gap) => json!([
                "on_non_probe_lost",
                if big { "current_mtu" } else { "1200" },
                if gap { "gap" } else { "contiguous" }
            ]),
            MOp::BlackHole => json!(["black_hole_detected"]),
            MOp::Time(long) => json!(["time", if long { 600 } else { 1 }]),
        }
    }
    fn op_parse(v: &Value) -> Option<MOp> {
        let a = v.as_array()?;
        let s = |i: usize| a.get(i).and_then(|x| x.as_str());
        match a.first()?.as_str()? {
            "poll_transmit" => Some(MOp::Poll),
            "probe_acked" => Some(MOp::ProbeAcked),
            "probe_lost" => Some(MOp::ProbeLost),
            "on_acked" => Some(MOp::Acked(s(1)? == "current_mtu")),
            "on_non_probe_lost" => Some(MOp::Lost(s(1)? == "current_mtu", s(2)? == "gap")),
            "black_hole_detected" => Some(MOp::BlackHole),
            "time" => Some(MOp::Time(a.get(1)?.as_u64()? == 600)),
            _ => None,
        }
    }
}

/// Max over reached states of (target - final mtu) in the faithful drive, for the report
pub fn faithful_gap(cfg: &MCfg) -> (u16, u16, u32) {
    let mut s = MtuSys::new(cfg);
    let mut probes = 0;
    for _ in 0..400 {
        if s.probe.is_none() {
            let _ = s.apply(&MOp::Poll);
            if s.probe.is_none() {
                break;
            }
            probes += 1;
        }
        let (_, size) = s.probe.unwrap();
        let op = if size <= cfg.link {
            MOp::ProbeAcked
        } else {
            MOp::ProbeLost
        };
        let _ = s.apply(&op);
    }
    (s.real.current_mtu(), s.target(), probes)
}
