use std::time::{Duration, Instant};

fn main() {
    let args: Vec<String> = std::env::args().collect();
    if args.get(1).map(|s| s.as_str()) == Some("replay") {
        let path = args.get(2).expect("vcomp replay <file.json>");
        let text = std::fs::read_to_string(path).expect("readable file");
        let v: serde_json::Value = serde_json::from_str(&text).expect("json");
        print!("{}", vcomp::replay(&v));
        return;
    }
    let which = args.get(1).map(|s| s.as_str()).unwrap_or("all");
    let thorough = args.get(2).map(|s| s.as_str()) == Some("thorough");
    let verbose = args.iter().any(|a| a == "-v");
    let props: Vec<&str> = match which {
        "all" => vec!["C01", "C04", "C09", "C12", "C13", "C14"],
        p => vec![p],
    };
    let budget = if thorough {
        Duration::from_secs(300)
    } else {
        Duration::from_secs(15)
    };
    for p in props {
        let t0 = Instant::now();
        let parts = vcomp::run(p, thorough, Instant::now() + budget);
        for part in &parts {
            println!(
                "{} {:<20} states={:<9} transitions={:<11} depth={:<3} closed={:<5} capped={:<5} outcomes={:<7} violations={} wall_ms={}",
                part.property,
                part.name,
                part.states,
                part.transitions,
                part.depth,
                part.closed,
                part.capped,
                part.distinct_outcomes,
                part.violations.len(),
                part.detail["wall_ms"]
            );
            for v in &part.violations {
                println!(
                    "    VIOLATION {}: {}\n      replay: {}",
                    v.signature, v.what, v.replay
                );
            }
            if verbose {
                println!("    detail: {}", part.detail);
                for s in &part.samples {
                    println!("    sample: {}", s);
                }
            }
        }
        println!("{} total wall {:.1}s", p, t0.elapsed().as_secs_f64());
    }
}
