//! A9: `cid_queue::CidQueue` (the ring of connection IDs the peer issued, from which the destination
//! CID of every outgoing packet is taken) against a map `sequence number -> CID` (property C09: a
//! datagram is only ever addressed with a connection ID that is still valid for this connection;
//! C03: sequence numbers are chosen by the peer)

use std::collections::BTreeMap;

use proto::{verif_comp::VerifCidQueue, ConnectionId};
use serde_json::{json, Value};

use crate::engine::{StepOut, Sys};

const LEN: u64 = VerifCidQueue::LEN as u64;

#[derive(Clone, Copy, Debug, PartialEq, Eq)]
pub enum QOp {
    /// NEW_CONNECTION_ID with `sequence = active + ds - 1` (so `ds == 0` is one below the active
    /// sequence number) and `retire_prior_to = active + dr`, clamped to `<= sequence` as the frame
    /// decoder guarantees
    Insert { ds: u8, dr: u8 },
    /// switch to the next CID (migration, `local_address_changed`)
    Next,
}

fn cid_of(seq: u64) -> ConnectionId {
    ConnectionId::new(&seq.to_be_bytes())
}

fn token_of(seq: u64) -> [u8; 16] {
    let mut t = [0x5a; 16];
    t[..8].copy_from_slice(&seq.to_be_bytes());
    t
}

pub struct CidqSys {
    real: VerifCidQueue,
    /// active sequence number
    off: u64,
    /// CIDs known and not retired
    known: BTreeMap<u64, ()>,
    /// largest retire_prior_to ever processed
    retired_below: u64,
}

impl CidqSys {
    fn model_str(&self) -> String {
        let rel: Vec<u64> = self.known.keys().map(|s| s - self.off).collect();
        format!("active+{rel:?}")
    }

    /// Invariants on the real object after every operation
    fn invariants(&self) -> Option<(String, String)> {
        let seq = self.real.active_seq();
        if seq != self.off {
            return Some(("cid_queue:active-seq-mismatch".into(), format!("active_seq() = {seq}, model says {}", self.off)));
        }
        let act = self.real.active();
        if act != cid_of(self.off) {
            let got = u64::from_be_bytes(act[..8].try_into().unwrap_or([0xff; 8]));
            let sig = if got < self.retired_below { "cid_queue:retired-cid-active" } else { "cid_queue:wrong-cid-active" };
            return Some((sig.into(), format!("active() is the CID issued with sequence number {got}, the active sequence number is {} (everything below {} was retired)", self.off, self.retired_below)));
        }
        // every stored CID is one the model knows, stored at the slot of its sequence number
        let (slots, cursor) = self.real.slots();
        for (i, s) in slots.iter().enumerate() {
            let Some(bytes) = s else { continue };
            let q = u64::from_be_bytes(bytes[..8].try_into().unwrap_or([0xff; 8]));
            let step = (i + slots.len() - cursor) % slots.len();
            if !self.known.contains_key(&q) {
                return Some(("cid_queue:stale-cid-kept".into(), format!("ring slot {i} still holds the CID of sequence number {q}, which was retired or never valid (active {}, known {:?})", self.off, self.known.keys().collect::<Vec<_>>())));
            }
            if q != self.off + step as u64 {
                return Some(("cid_queue:cid-at-wrong-slot".into(), format!("ring slot {i} ({step} after the cursor) holds sequence number {q}, expected {}", self.off + step as u64)));
            }
        }
        for q in self.known.keys() {
            let step = (q - self.off) as usize;
            let i = (cursor + step) % slots.len();
            if step >= slots.len() || slots[i].is_none() {
                return Some(("cid_queue:known-cid-lost".into(), format!("the CID of sequence number {q} was accepted and not retired, but is not stored")));
            }
        }
        None
    }
}

impl Sys for CidqSys {
    type Cfg = ();
    type Op = QOp;
    const NAME: &'static str = "cid_queue";

    fn new(_: &()) -> Self {
        let mut known = BTreeMap::new();
        known.insert(0, ());
        Self { real: VerifCidQueue::new(cid_of(0)), off: 0, known, retired_below: 0 }
    }

    fn ops(&self) -> Vec<QOp> {
        let mut v = vec![QOp::Next];
        for ds in 0..=(2 * LEN as u8 + 2) {
            for dr in 0..=(LEN as u8 + 3) {
                v.push(QOp::Insert { ds, dr });
            }
        }
        v
    }

    fn apply(&mut self, op: &QOp) -> StepOut {
        let out = match *op {
            QOp::Next => {
                let got = self.real.advance();
                let mut it = self.known.keys().copied();
                let _ = it.next();
                let want = it.next().map(|n| (token_of(n), self.off..n));
                if let Some((_, r)) = &want {
                    self.known.remove(&self.off);
                    self.off = r.end;
                }
                let (g, w) = (format!("{got:?}"), format!("{want:?}"));
                if got == want {
                    StepOut::ok(g, w)
                } else {
                    StepOut::bad(g, w, "cid_queue:next-mismatch", "next() disagrees with the map model (token of the next known CID, range of sequence numbers to retire)")
                }
            }
            QOp::Insert { ds, dr } => {
                if self.off + (ds as u64) < 1 {
                    return StepOut::ok("n/a", "n/a");
                }
                let seq = self.off + ds as u64 - 1;
                let rpt = (self.off + dr as u64).min(seq);
                let got = self.real.insert(seq, rpt, cid_of(seq), token_of(seq));
                let retired_count = rpt.saturating_sub(self.off);
                let want: Result<Option<(std::ops::Range<u64>, [u8; 16])>, &'static str> = if seq < self.off {
                    Err("Retired")
                } else if seq - self.off >= LEN + retired_count {
                    Err("ExceedsLimit")
                } else {
                    let below: Vec<u64> = self.known.range(..rpt).map(|(k, _)| *k).collect();
                    for k in below {
                        self.known.remove(&k);
                    }
                    self.known.insert(seq, ());
                    self.retired_below = self.retired_below.max(rpt);
                    if retired_count == 0 {
                        Ok(None)
                    } else {
                        let orig = self.off;
                        let new_active = *self.known.keys().next().expect("the new CID itself is >= retire_prior_to");
                        self.off = new_active;
                        Ok(Some((orig..new_active.min(orig + LEN), token_of(new_active))))
                    }
                };
                let (g, w) = (format!("{got:?}"), format!("{want:?}"));
                if got == want {
                    StepOut::ok(g, w)
                } else {
                    StepOut::bad(g, w, "cid_queue:insert-mismatch", format!("insert(sequence {seq}, retire_prior_to {rpt}) disagrees with the map model"))
                }
            }
        };
        if out.viol.is_some() {
            return out;
        }
        match self.invariants() {
            Some((sig, what)) => StepOut::bad(out.real, out.model, sig, what),
            None => out,
        }
    }

    fn key(&self) -> String {
        // translation-invariant: cursor, which ring slots hold which relative sequence number, model
        let (slots, cursor) = self.real.slots();
        let rel: Vec<Option<i64>> = slots
            .iter()
            .map(|s| s.as_ref().map(|b| u64::from_be_bytes(b[..8].try_into().unwrap_or([0; 8])) as i64 - self.off as i64))
            .collect();
        // the absolute position only matters through `retired_below - off`, which is <= 0 or irrelevant
        format!("{cursor} {rel:?} || {} first={}", self.model_str(), self.off == 0)
    }

    fn cfg_json(_: &()) -> Value {
        json!(null)
    }
    fn cfg_parse(_: &Value) -> Option<()> {
        Some(())
    }
    fn op_json(op: &QOp) -> Value {
        match *op {
            QOp::Next => json!(["next"]),
            QOp::Insert { ds, dr } => json!(["insert", ds, dr]),
        }
    }
    fn op_parse(v: &Value) -> Option<QOp> {
        let a = v.as_array()?;
        match a.first()?.as_str()? {
            "next" => Some(QOp::Next),
            "insert" => Some(QOp::Insert { ds: a.get(1)?.as_u64()? as u8, dr: a.get(2)?.as_u64()? as u8 }),
            _ => None,
        }
    }
}
