//! A4: `connection::spaces::Dedup` against the set of packet numbers seen (property C01:
//! exactly-once delivery rests on never processing a packet twice)

use std::collections::BTreeSet;

use proto::verif_comp::VerifDedup;
use serde_json::{json, Value};

use crate::engine::{StepOut, Sys};

pub const PNS: [u64; 13] = [
    0, 1, 2, 3, 126, 127, 128, 129, 130, 131, 200, 260, 1_000_000,
];
/// Packet numbers dense around the window edge after jumps of 126..=131 from 0, 1 and 5, and around
/// the second window (property C04: a packet delivered twice is processed at most once)
pub const PNS_EDGE: [u64; 20] = [
    0, 1, 5, 126, 127, 128, 129, 130, 131, 132, 133, 134, 135, 136, 255, 256, 257, 258, 259, 300,
];
/// `WINDOW_SIZE` in spaces.rs: `1 + 128` packet numbers ending at the highest one seen
pub const WINDOW_SIZE: u64 = 129;

pub struct DedupSys {
    real: VerifDedup,
    seen: BTreeSet<u64>,
    edge: bool,
}

impl Sys for DedupSys {
    /// `true`: the edge-dense alphabet
    type Cfg = bool;
    type Op = u64;
    const NAME: &'static str = "dedup";

    fn new(edge: &bool) -> Self {
        Self {
            real: VerifDedup::new(),
            seen: BTreeSet::new(),
            edge: *edge,
        }
    }
    fn ops(&self) -> Vec<u64> {
        if self.edge {
            PNS_EDGE.to_vec()
        } else {
            PNS.to_vec()
        }
    }
    fn apply(&mut self, &pn: &u64) -> StepOut {
        let got = self.real.insert(pn);
        let highest = self.seen.last().copied();
        let (want, why) = match highest {
            None => (false, "first packet"),
            Some(h) if pn > h => (false, "right of the window"),
            Some(h) if h - pn < WINDOW_SIZE => {
                if self.seen.contains(&pn) {
                    (true, "repeat inside the window")
                } else {
                    (false, "first occurrence inside the window")
                }
            }
            Some(_) => (true, "left of the window"),
        };
        self.seen.insert(pn);
        let model = format!("{want} ({why}; highest before = {highest:?})");
        if got == want {
            StepOut::ok(format!("{got}"), model)
        } else if got {
            StepOut::bad(
                format!("{got}"),
                model,
                "dedup:fresh-packet-rejected",
                format!("insert({pn}) reports a duplicate, but it is the {why}"),
            )
        } else {
            StepOut::bad(
                format!("{got}"),
                model,
                "dedup:duplicate-accepted",
                format!("insert({pn}) reports a fresh packet, but it is a {why}"),
            )
        }
    }
    fn key(&self) -> String {
        // Packet numbers left of the window can no longer influence the model's answers
        let h = self.seen.last().copied().unwrap_or(0);
        let live: Vec<u64> = self
            .seen
            .iter()
            .copied()
            .filter(|&p| h - p < WINDOW_SIZE)
            .collect();
        format!("{} || {:?}", self.real.render(), live)
    }
    fn cfg_json(edge: &bool) -> Value {
        json!(edge)
    }
    fn cfg_parse(v: &Value) -> Option<bool> {
        Some(v.as_bool().unwrap_or(false))
    }
    fn op_json(op: &u64) -> Value {
        json!(["insert", op])
    }
    fn op_parse(v: &Value) -> Option<u64> {
        v.as_array()?.get(1)?.as_u64()
    }
}
