//! Explicit-state model checking, by replay, of small quinn-proto components against boring
//! reference models.
//!
//! `run(property, thorough, deadline)` explores every component relevant for a property and
//! returns one `PartOut` per component; `replay(json)` re-executes a recorded operation list.

use std::{
    sync::OnceLock,
    time::{Duration, Instant},
};

use serde_json::{json, Value};

pub mod assembler;
pub mod cidq;
pub mod congestion;
pub mod dedup;
pub mod engine;
pub mod mtud;
pub mod range_set;
pub mod send_buffer;
pub mod tokens;

use engine::{bfs, enumerate, replay_text, Limits, SearchOut, Sys};

#[derive(Debug, Clone)]
pub struct PartOut {
    /// "assembler", "send_buffer", "range_set_btree", "range_set_array", "dedup", "mtud",
    /// "cubic", "new_reno", "bbr", "bloom_token_log", "token_memory_cache"
    pub name: String,
    /// "C01" | "C12" | "C13" | "C14"
    pub property: String,
    /// Distinct complete state keys (for the unmerged E3 parts: operation sequences)
    pub states: u64,
    /// Operations applied on top of a replayed history
    pub transitions: u64,
    pub depth: u32,
    /// The frontier reached a fixpoint: exhaustive for the alphabet
    pub closed: bool,
    /// Stopped by the state cap or the deadline (as opposed to the configured depth)
    pub capped: bool,
    /// Distinct observable results seen
    pub distinct_outcomes: u64,
    pub detail: Value,
    /// A few operation histories written out
    pub samples: Vec<Value>,
    pub violations: Vec<Viol>,
}

#[derive(Debug, Clone)]
pub struct Viol {
    /// Short and stable, e.g. "assembler:ordered-read-skips"
    pub signature: String,
    pub what: String,
    /// `{"component":..., "config":..., "ops":[...]}`
    pub replay: Value,
}

/// Value of the stream byte at `offset`
pub fn pattern(offset: u64) -> u8 {
    (offset.wrapping_mul(37).wrapping_add(11)) as u8
}

/// One `Instant` per process, so that Debug renderings containing instants are comparable
pub fn base_instant() -> Instant {
    static BASE: OnceLock<Instant> = OnceLock::new();
    *BASE.get_or_init(Instant::now)
}

pub const MAX_STATES: u64 = 5_000_000;

#[derive(Clone, Copy, PartialEq)]
enum Mode {
    /// E1: BFS by replay with merging on the complete key
    Bfs,
    /// E3: enumeration of all sequences, no merging
    Enumerate,
}

struct Plan<S: Sys> {
    cfg: S::Cfg,
    depth: u32,
}

fn search<S: Sys>(mode: Mode, cfg: &S::Cfg, lim: &Limits) -> SearchOut {
    match mode {
        Mode::Bfs => bfs::<S>(cfg, lim),
        Mode::Enumerate => enumerate::<S>(cfg, lim),
    }
}

/// Run all configurations of one component; in the thorough tier twice (determinism guard)
fn run_part<S: Sys>(
    property: &str,
    mode: Mode,
    plans: Vec<Plan<S>>,
    alphabet: Value,
    thorough: bool,
    deadline: Instant,
) -> PartOut {
    let t0 = Instant::now();
    let mut part = PartOut {
        name: S::NAME.to_string(),
        property: property.to_string(),
        states: 0,
        transitions: 0,
        depth: 0,
        closed: true,
        capped: false,
        distinct_outcomes: 0,
        detail: json!(null),
        samples: Vec::new(),
        violations: Vec::new(),
    };
    let mut per_cfg = Vec::new();
    let mut outcomes = std::collections::HashSet::new();
    let mut deterministic = true;
    let mut found: Vec<Viol> = Vec::new();
    let n = plans.len().max(1) as u32;
    for (i, plan) in plans.iter().enumerate() {
        // share the remaining time evenly among the remaining configurations (and both passes)
        let now = Instant::now();
        let remaining = deadline.saturating_duration_since(now);
        let share = remaining / (n - i as u32) / if thorough { 2 } else { 1 };
        let lim = Limits {
            max_depth: plan.depth,
            max_states: MAX_STATES,
            deadline: now + share,
        };
        let out = search::<S>(mode, &plan.cfg, &lim);
        let mut second = None;
        if thorough && !out.capped {
            let lim2 = Limits {
                max_depth: plan.depth,
                max_states: MAX_STATES,
                deadline: Instant::now() + share.max(Duration::from_millis(out.wall_ms * 2)),
            };
            let again = search::<S>(mode, &plan.cfg, &lim2);
            let same = (
                again.states,
                again.transitions,
                again.depth,
                again.closed,
                again.outcomes.len(),
                again.viol_counts.len(),
            ) == (
                out.states,
                out.transitions,
                out.depth,
                out.closed,
                out.outcomes.len(),
                out.viol_counts.len(),
            );
            if !same && !again.capped {
                deterministic = false;
                part.violations.push(Viol {
                    signature: format!("harness:nondeterministic-{}", S::NAME),
                    what: format!(
                        "two identical searches disagree: states {} vs {}, transitions {} vs {}, outcomes {} vs {}",
                        out.states, again.states, out.transitions, again.transitions, out.outcomes.len(), again.outcomes.len()
                    ),
                    replay: json!({"component": S::NAME, "config": S::cfg_json(&plan.cfg), "ops": []}),
                });
            }
            second = Some(
                json!({"states": again.states, "transitions": again.transitions, "same": same, "wall_ms": again.wall_ms}),
            );
        }
        part.states += out.states;
        part.transitions += out.transitions;
        part.depth = part.depth.max(out.depth);
        part.closed &= out.closed;
        part.capped |= out.capped;
        outcomes.extend(out.outcomes.iter().copied());
        let mut counts: Vec<(String, u64)> = out
            .viol_counts
            .iter()
            .map(|(k, v)| (k.clone(), *v))
            .collect();
        counts.sort();
        per_cfg.push(json!({
            "config": S::cfg_json(&plan.cfg),
            "depth_cap": plan.depth,
            "depth": out.depth,
            "states": out.states,
            "transitions": out.transitions,
            "closed": out.closed,
            "capped": out.capped,
            "frontier_sizes": out.levels,
            "violation_counts": counts,
            "wall_ms": out.wall_ms,
            "second_pass": second,
        }));
        if part.samples.len() < 4 {
            part.samples.extend(out.samples.into_iter().take(2));
        }
        found.extend(out.viols);
    }
    // the shortest two counterexamples per signature over all configurations
    found.sort_by_key(|v| v.replay["ops"].as_array().map_or(0, |a| a.len()));
    for v in found {
        if part
            .violations
            .iter()
            .filter(|x| x.signature == v.signature)
            .count()
            < 2
        {
            part.violations.push(v);
        }
    }
    part.distinct_outcomes = outcomes.len() as u64;
    part.detail = json!({
        "engine": match mode { Mode::Bfs => "E1 bfs-by-replay, merge on Debug(real)+model", Mode::Enumerate => "E3 enumeration of all sequences by replay, no merging" },
        "alphabet": alphabet,
        "state_cap": MAX_STATES,
        "determinism_guard": if thorough { json!(deterministic) } else { json!("not run (quick tier)") },
        "configs": per_cfg,
        "wall_ms": t0.elapsed().as_millis() as u64,
    });
    part
}

fn sub_deadline(deadline: Instant, parts_left: u32) -> Instant {
    let now = Instant::now();
    now + deadline.saturating_duration_since(now) / parts_left.max(1)
}

/// Explore every component relevant for `property` ("C01" | "C12" | "C13" | "C14")
pub fn run(property: &str, thorough: bool, deadline: Instant) -> Vec<PartOut> {
    base_instant();
    // Panics of the real components are caught and reported as violations; keep stderr quiet.
    let old_hook = std::panic::take_hook();
    std::panic::set_hook(Box::new(|_| {}));
    let out = run_inner(property, thorough, deadline);
    std::panic::set_hook(old_hook);
    out
}

fn run_inner(property: &str, thorough: bool, deadline: Instant) -> Vec<PartOut> {
    let mut parts = Vec::new();
    match property {
        "C01" => {
            // A1
            // cheapest first: unused time flows to the later, larger searches
            let depths: [(&str, u32); 5] = if thorough {
                [
                    ("mix3", 9),
                    ("full10", 4),
                    ("full5", 6),
                    ("unordered5", 14),
                    ("unordered10", 5),
                ]
            } else {
                [
                    ("mix3", 6),
                    ("full10", 3),
                    ("full5", 4),
                    ("unordered5", 6),
                    ("unordered10", 4),
                ]
            };
            let profiles = assembler::profiles();
            let plans = depths
                .iter()
                .map(|&(name, depth)| Plan::<assembler::AsmSys> {
                    cfg: profiles.iter().find(|p| p.name == name).unwrap().clone(),
                    depth,
                })
                .collect();
            parts.push(run_part::<assembler::AsmSys>(
                "C01",
                Mode::Bfs,
                plans,
                json!({
                    "insert": "off x len in 1..=3 (off+len <= stream) x allocation_size in {len, 40000}; plus empty frames at a few offsets",
                    "read": "ordered max in {MAX,1,2}; unordered max in {MAX,1}; each preceded by ensure_ordering",
                    "clear": 1,
                    "profiles": "mix3 = 3-byte stream, whole alphabet incl. ordered->unordered switches at any point, searched deepest; full10 = 10-byte stream, whole alphabet; unordered10 = same after a switch to unordered mode; full5 / unordered5 = the same two on a 5-byte stream (deeper)",
                }),
                thorough,
                sub_deadline(deadline, 2),
            ));
            // A2
            parts.push(run_part::<send_buffer::SbSys>(
                "C01",
                Mode::Bfs,
                vec![Plan { cfg: 3, depth: if thorough { 7 } else { 6 } }],
                json!({
                    "write": send_buffer::WRITES,
                    "poll_transmit": send_buffer::POLLS,
                    "ack/retransmit": "whole, first half or second half of any of the first 3 in-flight frames",
                    "ack-again": "re-acknowledge the range acknowledged last",
                    "retransmit_all_for_0rtt": "enabled while nothing is acknowledged or queued for retransmission",
                    "state_check": "side replay: poll_transmit(1200) to exhaustion hands out exactly the pending bytes",
                }),
                thorough,
                sub_deadline(deadline, 2),
            ));
            // A3
            let rs_alpha = json!({
                "domain": "0..=9",
                "insert/remove": "all 55 non-empty ranges + 2 empty + 1 inverted",
                "insert_one": 10, "pop_min": 1,
                "replace (btree only)": "all 55 non-empty ranges + 4 empty",
                "compared after every op": "result, iter, iter.rev, elts, len, is_empty, min, max, contains(0..=11), peek_min / clone",
            });
            parts.push(
                run_part::<range_set::RsSys<proto::verif_comp::VerifRangeSet>>(
                    "C01",
                    Mode::Bfs,
                    vec![Plan { cfg: (), depth: 24 }],
                    rs_alpha.clone(),
                    thorough,
                    sub_deadline(deadline, 3),
                ),
            );
            parts.push(run_part::<
                range_set::RsSys<proto::verif_comp::VerifArrayRangeSet>,
            >(
                "C01",
                Mode::Bfs,
                vec![Plan { cfg: (), depth: 24 }],
                rs_alpha,
                thorough,
                sub_deadline(deadline, 2),
            ));
            // A4
            parts.push(run_part::<dedup::DedupSys>(
                "C01",
                Mode::Bfs,
                vec![Plan {
                    cfg: false,
                    depth: if thorough { 16 } else { 5 },
                }],
                json!({"insert": dedup::PNS}),
                thorough,
                sub_deadline(deadline, 1),
            ));
        }
        "C04" => {
            // the replay window itself: both alphabets
            parts.push(run_part::<dedup::DedupSys>(
                "C04",
                Mode::Bfs,
                vec![
                    Plan {
                        cfg: false,
                        depth: if thorough { 16 } else { 5 },
                    },
                    Plan {
                        cfg: true,
                        depth: if thorough { 7 } else { 4 },
                    },
                ],
                json!({"insert": dedup::PNS, "insert (edge-dense profile)": dedup::PNS_EDGE}),
                thorough,
                sub_deadline(deadline, 1),
            ));
        }
        "C09" => {
            parts.push(run_part::<cidq::CidqSys>(
                "C09",
                Mode::Bfs,
                vec![Plan {
                    cfg: (),
                    depth: if thorough { 12 } else { 6 },
                }],
                json!({
                    "insert": "NEW_CONNECTION_ID with sequence = active-1 ..= active+2*LEN+1 and retire_prior_to = active ..= active+LEN+3 (clamped to <= sequence as the frame decoder guarantees)",
                    "next": "switch to the next known CID",
                    "invariants": "active()/active_seq() equal the map model's; every ring slot holds a CID the model still knows, at the slot of its sequence number; no accepted CID is lost",
                }),
                thorough,
                sub_deadline(deadline, 1),
            ));
        }
        "C12" => {
            use congestion::{Alphabet, CCfg};
            let alpha = json!({
                "time step before every call (ms)": congestion::DT_MS,
                "on_sent": "1200 bytes, pn++",
                "on_ack+on_end_acks": "sent = now - 100 ms, 1200 bytes, app_limited x in_flight in {0, 12000}, largest acked = last sent",
                "on_congestion_event": "sent = now - 100 ms, persistent x ecn x lost in {0,1200,120000}",
                "on_spurious_congestion_event": 1,
                "on_mtu_update": congestion::MTUS,
                "alphabets": "full = all of the above (63 ops); reduced = time steps {100 ms, 10 s} x 9 calls (sent; ack x3; loss normal/persistent; spurious; mtu 9000/1200); minimal = the same 9 calls with the 100 ms step only",
            });
            // (alphabet, quick depth, thorough depth)
            let plan = |list: &[(Alphabet, u32, u32)], seeds: &[u64]| -> Vec<(CCfg, u32)> {
                let mut v = Vec::new();
                for &(alphabet, q, t) in list {
                    let seeds: &[u64] = if alphabet == Alphabet::Full || alphabet == Alphabet::Recovery {
                        &seeds[..1]
                    } else {
                        seeds
                    };
                    for &seed in seeds {
                        v.push((CCfg { seed, alphabet }, if thorough { t } else { q }));
                    }
                }
                v
            };
            let cubic = plan(&[(Alphabet::Full, 5, 6), (Alphabet::Reduced, 6, 7)], &[0]);
            parts.push(run_part::<congestion::CcSys<congestion::KCubic>>(
                "C12",
                Mode::Bfs,
                cubic
                    .into_iter()
                    .map(|(cfg, depth)| Plan { cfg, depth })
                    .collect(),
                alpha.clone(),
                thorough,
                sub_deadline(deadline, 3),
            ));
            let reno = plan(&[(Alphabet::Full, 5, 7), (Alphabet::Reduced, 7, 10)], &[0]);
            parts.push(run_part::<congestion::CcSys<congestion::KNewReno>>(
                "C12",
                Mode::Bfs,
                reno.into_iter()
                    .map(|(cfg, depth)| Plan { cfg, depth })
                    .collect(),
                alpha.clone(),
                thorough,
                sub_deadline(deadline, 2),
            ));
            // BBR keeps time stamps and counters in most fields, so few histories merge: the
            // full alphabet stays shallow, the minimal one goes deep. The RNG seed only matters
            // once PROBE_BW is entered.
            let seeds: &[u64] = if thorough { &[0, 1, 2] } else { &[0] };
            let bbr = plan(&[(Alphabet::Full, 4, 5), (Alphabet::Minimal, 8, 9), (Alphabet::Recovery, 6, 8)], seeds);
            parts.push(run_part::<congestion::CcSys<congestion::KBbr>>(
                "C12",
                Mode::Bfs,
                bbr.into_iter()
                    .map(|(cfg, depth)| Plan { cfg, depth })
                    .collect(),
                alpha,
                thorough,
                sub_deadline(deadline, 1),
            ));
        }
        "C13" => {
            let mut plans = Vec::new();
            for faithful_only in [true, false] {
                for link in mtud::LINKS {
                    for upper_bound in mtud::UPPER_BOUNDS {
                        for peer in mtud::PEER_LIMITS {
                            let depth = match (faithful_only, thorough) {
                                (true, true) => 16,
                                (true, false) => 10,
                                (false, true) => 10,
                                (false, false) => 8,
                            };
                            plans.push(Plan::<mtud::MtuSys> {
                                cfg: mtud::MCfg {
                                    link,
                                    upper_bound,
                                    peer,
                                    faithful_only,
                                },
                                depth,
                            });
                        }
                    }
                }
            }
            parts.push(run_part::<mtud::MtuSys>(
                "C13",
                Mode::Bfs,
                plans,
                json!({
                    "config": "initial 1200, min 1200, link x upper_bound x peer max_udp_payload_size",
                    "poll_transmit": "now, next_pn",
                    "probe_acked": "enabled iff the in-flight probe fits the link",
                    "probe_lost": "always enabled for an in-flight probe (adversarial when it fits); in faithful_only searches only when it does not fit",
                    "on_acked": "fresh non-probe pn, len in {1200, current_mtu}",
                    "on_non_probe_lost": "len in {1200, current_mtu} x {contiguous pn, pn gap}",
                    "black_hole_detected": 1,
                    "time": "+1 s, +600 s",
                    "state_check": "faithful histories: side replay probing at a fixed time terminates; final mtu <= link and within 2 x minimum_change of min(link, upper bound, peer limit)",
                }),
                thorough,
                deadline,
            ));
            // What the faithful environment converges to, per configuration
            let mut table = Vec::new();
            for link in mtud::LINKS {
                for upper_bound in mtud::UPPER_BOUNDS {
                    for peer in mtud::PEER_LIMITS {
                        let cfg = mtud::MCfg {
                            link,
                            upper_bound,
                            peer,
                            faithful_only: true,
                        };
                        let (fin, target, probes) = mtud::faithful_gap(&cfg);
                        table.push(json!({"link": link, "upper_bound": upper_bound, "peer": peer, "final_mtu": fin, "target": target, "gap": target.saturating_sub(fin), "probes": probes}));
                    }
                }
            }
            if let Some(part) = parts.last_mut() {
                part.detail["faithful_first_search"] = json!(table);
            }
        }
        "C14" => {
            let mut plans = Vec::new();
            for any_order in [false, true] {
                let depth = match (any_order, thorough) {
                    (false, true) => 6,
                    (false, false) => 5,
                    (true, true) => 5,
                    (true, false) => 4,
                };
                for &max_bytes in tokens::MAX_BYTES.iter() {
                    for lifetime_ms in [10_000u64, 1_500, 700] {
                        // the additional lifetimes run one level shallower
                        let depth = if lifetime_ms == 10_000 { depth } else { depth - 1 };
                        if lifetime_ms != 10_000 && any_order {
                            continue;
                        }
                        plans.push(Plan::<tokens::BloomSys> {
                            cfg: tokens::BloomCfg {
                                max_bytes,
                                any_order,
                                lifetime_ms,
                            },
                            depth,
                        });
                    }
                }
            }
            parts.push(run_part::<tokens::BloomSys>(
                "C14",
                Mode::Enumerate,
                plans,
                json!({
                    "check_and_insert": "nonce in {1,2,3} x issued in t0 + {0,1,2,3,4,6,10} x L/2, lifetime L in {10 s, 1.5 s, 0.7 s}",
                    "enabled": "any_order=false: only presentations a server with a monotone clock would pass to the log (issued + L >= largest issue time seen); any_order=true: everything, a double acceptance in a history outside the contract is only an outcome",
                    "max_bytes": "default, 64, 16, 0",
                }),
                thorough,
                sub_deadline(deadline, 2),
            ));
            let depth = if thorough { 8 } else { 7 };
            let mut plans = Vec::new();
            for servers in 0..=2u32 {
                for tokens in 0..=2usize {
                    plans.push(Plan::<tokens::CacheSys> {
                        cfg: (servers, tokens),
                        depth,
                    });
                }
            }
            parts.push(run_part::<tokens::CacheSys>(
                "C14",
                Mode::Enumerate,
                plans,
                json!({"insert": "server in {a,b,c}, fresh unique token", "take": "server in {a,b,c}", "capacities": "(0..=2) x (0..=2)"}),
                thorough,
                sub_deadline(deadline, 1),
            ));
        }
        _ => {}
    }
    parts
}

/// Re-execute an operation list on the real component, printing each step's real vs model result
pub fn replay(v: &Value) -> String {
    base_instant();
    let old_hook = std::panic::take_hook();
    std::panic::set_hook(Box::new(|_| {}));
    let text = match v["component"].as_str().unwrap_or("") {
        "assembler" => replay_text::<assembler::AsmSys>(v),
        "send_buffer" => replay_text::<send_buffer::SbSys>(v),
        "range_set_btree" => replay_text::<range_set::RsSys<proto::verif_comp::VerifRangeSet>>(v),
        "range_set_array" => {
            replay_text::<range_set::RsSys<proto::verif_comp::VerifArrayRangeSet>>(v)
        }
        "dedup" => replay_text::<dedup::DedupSys>(v),
        "cid_queue" => replay_text::<cidq::CidqSys>(v),
        "mtud" => replay_text::<mtud::MtuSys>(v),
        "cubic" => replay_text::<congestion::CcSys<congestion::KCubic>>(v),
        "new_reno" => replay_text::<congestion::CcSys<congestion::KNewReno>>(v),
        "bbr" => replay_text::<congestion::CcSys<congestion::KBbr>>(v),
        "bloom_token_log" => replay_text::<tokens::BloomSys>(v),
        "token_memory_cache" => replay_text::<tokens::CacheSys>(v),
        other => format!("unknown component {other:?}"),
    };
    std::panic::set_hook(old_hook);
    text
}
