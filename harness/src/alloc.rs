//! Counting global allocator (installed by the check binaries) so that checks can bound heap
//! growth caused by hostile input.

use std::{
    alloc::{GlobalAlloc, Layout, System},
    sync::atomic::{AtomicUsize, Ordering},
};

pub struct Counting;

static LIVE: AtomicUsize = AtomicUsize::new(0);
static PEAK: AtomicUsize = AtomicUsize::new(0);

unsafe impl GlobalAlloc for Counting {
    unsafe fn alloc(&self, l: Layout) -> *mut u8 {
        let p = System.alloc(l);
        if !p.is_null() {
            let n = LIVE.fetch_add(l.size(), Ordering::Relaxed) + l.size();
            PEAK.fetch_max(n, Ordering::Relaxed);
        }
        p
    }
    unsafe fn dealloc(&self, p: *mut u8, l: Layout) {
        System.dealloc(p, l);
        LIVE.fetch_sub(l.size(), Ordering::Relaxed);
    }
    unsafe fn realloc(&self, p: *mut u8, l: Layout, new: usize) -> *mut u8 {
        let q = System.realloc(p, l, new);
        if !q.is_null() {
            if new >= l.size() {
                let n = LIVE.fetch_add(new - l.size(), Ordering::Relaxed) + new - l.size();
                PEAK.fetch_max(n, Ordering::Relaxed);
            } else {
                LIVE.fetch_sub(l.size() - new, Ordering::Relaxed);
            }
        }
        q
    }
}

pub fn live() -> usize {
    LIVE.load(Ordering::Relaxed)
}

/// Peak live bytes above `before` since the peak counter was last reset; resets the peak.
pub fn peak_since(before: usize) -> usize {
    let p = PEAK.swap(LIVE.load(Ordering::Relaxed), Ordering::Relaxed);
    p.saturating_sub(before)
}
