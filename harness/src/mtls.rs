//! "Model TLS": a deterministic implementation of the public `quinn_proto::crypto` traits.
//!
//! Payloads are left in the clear and authenticated with a keyed 128-bit tag; header
//! protection is the identity. The handshake follows the TLS 1.3 key schedule order that
//! rustls exposes to quinn (CH -> SH -> EE/CERT/SFIN -> CFIN), supports session tickets with
//! 0-RTT, key updates, Retry integrity tags and hostile transport-parameter encodings.
//! Every session logs its secret into a shared `KeyLog` so that the harness can forge
//! correctly protected packets (puppet peer).

use std::{
    any::Any,
    hash::Hasher,
    sync::{Arc, Mutex},
};

use bytes::BytesMut;
use proto::{
    crypto::{
        self, CryptoError, ExportKeyingMaterialError, HeaderKey, KeyPair, Keys, PacketKey,
        UnsupportedVersion,
    },
    transport_parameters::TransportParameters,
    ConnectError, ConnectionId, Side, TransportError, TransportErrorCode,
};

pub const TAG_LEN: usize = 16;

pub fn h(parts: &[&[u8]]) -> [u8; 16] {
    let mut out = [0u8; 16];
    for (i, seed) in [0x9e3779b97f4a7c15u64, 0xc2b2ae3d27d4eb4f].iter().enumerate() {
        #[allow(deprecated)]
        let mut s = std::hash::SipHasher::new_with_keys(*seed, 0x1234_5678);
        for p in parts {
            s.write_usize(p.len());
            s.write(p);
        }
        out[i * 8..i * 8 + 8].copy_from_slice(&s.finish().to_le_bytes());
    }
    out
}

/// Direction byte: 0 = client-to-server, 1 = server-to-client
pub fn dir_of_sender(side: Side) -> u8 {
    match side {
        Side::Client => 0,
        Side::Server => 1,
    }
}

#[derive(Clone, Copy, Debug, PartialEq, Eq)]
pub struct MKey(pub [u8; 16]);

impl MKey {
    pub fn derive(base: &[u8], label: &str, dir: u8, generation: u32) -> Self {
        MKey(h(&[base, label.as_bytes(), &[dir], &generation.to_le_bytes()]))
    }
    pub fn tag(&self, packet: u64, header: &[u8], payload: &[u8]) -> [u8; 16] {
        h(&[&self.0, &packet.to_le_bytes(), header, payload])
    }
}

impl PacketKey for MKey {
    fn encrypt(&self, packet: u64, buf: &mut [u8], header_len: usize) {
        let n = buf.len();
        let (body, tag) = buf.split_at_mut(n - TAG_LEN);
        let (header, payload) = body.split_at(header_len);
        tag.copy_from_slice(&self.tag(packet, header, payload));
    }
    fn decrypt(
        &self,
        packet: u64,
        header: &[u8],
        payload: &mut BytesMut,
    ) -> Result<(), CryptoError> {
        if payload.len() < TAG_LEN {
            return Err(CryptoError);
        }
        let n = payload.len() - TAG_LEN;
        let expect = self.tag(packet, header, &payload[..n]);
        if expect[..] != payload[n..] {
            return Err(CryptoError);
        }
        payload.truncate(n);
        Ok(())
    }
    fn tag_len(&self) -> usize {
        TAG_LEN
    }
    fn confidentiality_limit(&self) -> u64 {
        1 << 40
    }
    fn integrity_limit(&self) -> u64 {
        1 << 36
    }
}

/// Identity header protection. Like a real header key it *reads* the sample
/// (`sample_size()` bytes starting 4 bytes after the packet number offset) and the first header
/// byte and packet number bytes, so a caller that hands it a packet too short for the sample
/// panics on the slice exactly as with rustls' implementation.
pub struct NoHp;
impl NoHp {
    fn touch(pn_offset: usize, packet: &[u8]) {
        let sample = &packet[pn_offset + 4..pn_offset + 4 + 16];
        let first = packet[0];
        std::hint::black_box((sample, first, &packet[pn_offset..pn_offset + 4]));
    }
}
impl HeaderKey for NoHp {
    fn decrypt(&self, pn_offset: usize, packet: &mut [u8]) {
        Self::touch(pn_offset, packet);
    }
    fn encrypt(&self, pn_offset: usize, packet: &mut [u8]) {
        Self::touch(pn_offset, packet);
    }
    fn sample_size(&self) -> usize {
        16
    }
}

fn keys(base: &[u8], label: &str, side: Side, generation: u32) -> Keys {
    let (l, r) = match side {
        Side::Client => (0u8, 1u8),
        Side::Server => (1u8, 0u8),
    };
    Keys {
        header: KeyPair {
            local: Box::new(NoHp),
            remote: Box::new(NoHp),
        },
        packet: KeyPair {
            local: Box::new(MKey::derive(base, label, l, generation)),
            remote: Box::new(MKey::derive(base, label, r, generation)),
        },
    }
}

pub fn initial_keys(dst_cid: ConnectionId, side: Side) -> Keys {
    keys(&dst_cid, "initial", side, 0)
}

/// Key a sender on `side` uses in the given space. `space`: 0 initial (base = initial dst cid),
/// 1 handshake, 2 1-RTT (generation counts key updates), 3 0-RTT (base = ticket secret).
pub fn sender_key(base: &[u8], space: u8, side: Side, generation: u32) -> MKey {
    let label = match space {
        0 => "initial",
        1 => "hs",
        2 => "1rtt",
        _ => "0rtt",
    };
    MKey::derive(base, label, dir_of_sender(side), generation)
}

pub fn retry_tag(orig_dst_cid: &ConnectionId, packet: &[u8]) -> [u8; 16] {
    h(&[b"retry", orig_dst_cid, packet])
}

#[derive(Clone, Debug)]
pub struct SessionRecord {
    pub side: Side,
    pub secret: Vec<u8>,
    /// The transport parameters this session sent (honest encoding before any override)
    pub my_params: Vec<u8>,
    /// what was actually put into the handshake (differs from `my_params` under a params override)
    pub sent_params: Vec<u8>,
}

#[derive(Default, Debug)]
pub struct KeyLog {
    pub sessions: Mutex<Vec<SessionRecord>>,
}

impl KeyLog {
    pub fn last(&self, side: Side) -> Option<SessionRecord> {
        self.sessions
            .lock()
            .unwrap()
            .iter()
            .rev()
            .find(|s| s.side == side && !s.secret.is_empty())
            .cloned()
    }
    pub fn nth(&self, side: Side, n: usize) -> Option<SessionRecord> {
        self.sessions
            .lock()
            .unwrap()
            .iter()
            .filter(|s| s.side == side && !s.secret.is_empty())
            .nth(n)
            .cloned()
    }
}

/// Resumption ticket handed to a `MockClient`
#[derive(Clone, Debug)]
pub struct Ticket {
    /// Server transport parameters remembered from the previous connection
    pub server_params: Vec<u8>,
    pub secret: [u8; 16],
}

pub type ParamsOverride = Arc<dyn Fn(&[u8]) -> Vec<u8> + Send + Sync>;

const M_CH: u8 = 1;
const M_SH: u8 = 2;
const M_EE: u8 = 3;
const M_CERT: u8 = 4;
const M_SFIN: u8 = 5;
const M_CFIN: u8 = 6;

pub struct MockSession {
    side: Side,
    my_params: Vec<u8>,
    sent_params: Vec<u8>,
    peer_params: Option<Vec<u8>>,
    remembered_params: Option<Vec<u8>>,
    inbuf: Vec<u8>,
    secret: Vec<u8>,
    stage: u8,
    got_ch: bool,
    got_sh: bool,
    got_sfin: bool,
    handshaking: bool,
    hs_data: bool,
    generation: u32,
    cert_len: usize,
    // 0-RTT
    ticket_secret: Option<[u8; 16]>,
    early_offered: bool,
    early_accepted: Option<bool>,
    server_accepts_early: bool,
    keylog: Arc<KeyLog>,
}

fn msg(out: &mut Vec<u8>, ty: u8, body: &[u8]) {
    out.push(ty);
    out.extend_from_slice(&(body.len() as u32).to_be_bytes()[1..]);
    out.extend_from_slice(body);
}

fn perr(m: &str) -> TransportError {
    TransportError::new(TransportErrorCode::PROTOCOL_VIOLATION, m.to_string())
}

impl MockSession {
    fn log(&self) {
        self.keylog.sessions.lock().unwrap().push(SessionRecord {
            side: self.side,
            secret: self.secret.clone(),
            my_params: self.my_params.clone(),
            sent_params: self.sent_params.clone(),
        });
    }
}

impl crypto::Session for MockSession {
    fn initial_keys(&self, dst_cid: ConnectionId, side: Side) -> Keys {
        initial_keys(dst_cid, side)
    }
    fn handshake_data(&self) -> Option<Box<dyn Any>> {
        self.hs_data.then(|| Box::new(()) as Box<dyn Any>)
    }
    fn peer_identity(&self) -> Option<Box<dyn Any>> {
        None
    }
    fn early_crypto(&self) -> Option<(Box<dyn HeaderKey>, Box<dyn PacketKey>)> {
        let secret = self.ticket_secret?;
        match self.side {
            Side::Client => {}
            Side::Server => {
                if !(self.early_offered && self.server_accepts_early) {
                    return None;
                }
            }
        }
        // 0-RTT packets only flow client -> server
        Some((Box::new(NoHp), Box::new(MKey::derive(&secret, "0rtt", 0, 0))))
    }
    fn early_data_accepted(&self) -> Option<bool> {
        self.early_accepted
    }
    fn is_handshaking(&self) -> bool {
        self.handshaking
    }
    fn read_handshake(&mut self, buf: &[u8]) -> Result<bool, TransportError> {
        self.inbuf.extend_from_slice(buf);
        let mut ready = false;
        loop {
            if self.inbuf.len() < 4 {
                break;
            }
            let len =
                u32::from_be_bytes([0, self.inbuf[1], self.inbuf[2], self.inbuf[3]]) as usize;
            if self.inbuf.len() < 4 + len {
                break;
            }
            let ty = self.inbuf[0];
            let body: Vec<u8> = self.inbuf[4..4 + len].to_vec();
            self.inbuf.drain(..4 + len);
            match (self.side, ty) {
                (Side::Server, M_CH) if !self.got_ch => {
                    // body: flag(1) [ticket secret(16)] params
                    if body.is_empty() {
                        return Err(perr("mtls: empty CH"));
                    }
                    let mut rest = &body[1..];
                    if body[0] == 1 {
                        if rest.len() < 16 {
                            return Err(perr("mtls: short CH"));
                        }
                        let mut s = [0u8; 16];
                        s.copy_from_slice(&rest[..16]);
                        self.ticket_secret = Some(s);
                        self.early_offered = true;
                        rest = &rest[16..];
                    }
                    self.secret = h(&[b"secret", &body]).to_vec();
                    self.peer_params = Some(rest.to_vec());
                    self.got_ch = true;
                    self.log();
                    if !self.hs_data {
                        self.hs_data = true;
                        ready = true;
                    }
                }
                (Side::Server, M_CFIN) if self.stage == 2 => {
                    self.handshaking = false;
                }
                (Side::Client, M_SH) if !self.got_sh => {
                    self.got_sh = true;
                }
                (Side::Client, M_EE) if self.got_sh => {
                    if body.is_empty() {
                        return Err(perr("mtls: empty EE"));
                    }
                    if self.early_offered {
                        self.early_accepted = Some(body[0] == 1);
                    }
                    self.peer_params = Some(body[1..].to_vec());
                    if !self.hs_data {
                        self.hs_data = true;
                        ready = true;
                    }
                }
                (Side::Client, M_CERT) if self.got_sh => {}
                (Side::Client, M_SFIN) if self.got_sh && self.peer_params.is_some() => {
                    self.got_sfin = true;
                }
                _ => return Err(perr("mtls: unexpected message")),
            }
        }
        Ok(ready)
    }
    fn transport_parameters(&self) -> Result<Option<TransportParameters>, TransportError> {
        let bytes = match (&self.peer_params, &self.remembered_params) {
            (Some(b), _) => b,
            (None, Some(b)) => b,
            (None, None) => return Ok(None),
        };
        Ok(Some(TransportParameters::read(self.side, &mut &bytes[..])?))
    }
    fn write_handshake(&mut self, buf: &mut Vec<u8>) -> Option<Keys> {
        match self.side {
            Side::Client => match self.stage {
                0 => {
                    let mut body = Vec::new();
                    match self.ticket_secret {
                        Some(s) => {
                            body.push(1);
                            body.extend_from_slice(&s);
                        }
                        None => body.push(0),
                    }
                    body.extend_from_slice(&self.sent_params);
                    self.secret = h(&[b"secret", &body]).to_vec();
                    msg(buf, M_CH, &body);
                    self.log();
                    self.stage = 1;
                    None
                }
                1 if self.got_sh => {
                    self.stage = 2;
                    Some(keys(&self.secret, "hs", self.side, 0))
                }
                2 if self.got_sfin => {
                    msg(buf, M_CFIN, &[]);
                    self.stage = 3;
                    self.handshaking = false;
                    Some(keys(&self.secret, "1rtt", self.side, 0))
                }
                _ => None,
            },
            Side::Server => match self.stage {
                0 if self.got_ch => {
                    msg(buf, M_SH, &[0u8; 32]);
                    self.stage = 1;
                    Some(keys(&self.secret, "hs", self.side, 0))
                }
                1 => {
                    let mut ee = vec![(self.early_offered && self.server_accepts_early) as u8];
                    ee.extend_from_slice(&self.sent_params);
                    msg(buf, M_EE, &ee);
                    msg(buf, M_CERT, &vec![0xcc; self.cert_len]);
                    msg(buf, M_SFIN, &[]);
                    self.stage = 2;
                    Some(keys(&self.secret, "1rtt", self.side, 0))
                }
                _ => None,
            },
        }
    }
    fn next_1rtt_keys(&mut self) -> Option<KeyPair<Box<dyn PacketKey>>> {
        self.generation += 1;
        let k = keys(&self.secret, "1rtt", self.side, self.generation);
        Some(k.packet)
    }
    fn is_valid_retry(&self, orig_dst_cid: ConnectionId, header: &[u8], payload: &[u8]) -> bool {
        if payload.len() < 16 {
            return false;
        }
        let n = payload.len() - 16;
        let mut pkt = header.to_vec();
        pkt.extend_from_slice(&payload[..n]);
        retry_tag(&orig_dst_cid, &pkt)[..] == payload[n..]
    }
    fn export_keying_material(
        &self,
        output: &mut [u8],
        label: &[u8],
        context: &[u8],
    ) -> Result<(), ExportKeyingMaterialError> {
        let x = h(&[&self.secret, label, context]);
        for (i, o) in output.iter_mut().enumerate() {
            *o = x[i % 16];
        }
        Ok(())
    }
}

fn params_bytes(p: &TransportParameters) -> Vec<u8> {
    let mut v = Vec::new();
    p.write(&mut v);
    v
}

#[derive(Clone, Default)]
pub struct MockClient {
    pub keylog: Arc<KeyLog>,
    pub ticket: Option<Ticket>,
    pub params_override: Option<ParamsOverride>,
}

impl crypto::ClientConfig for MockClient {
    fn start_session(
        self: Arc<Self>,
        _version: u32,
        _server_name: &str,
        params: &TransportParameters,
    ) -> Result<Box<dyn crypto::Session>, ConnectError> {
        let my = params_bytes(params);
        let sent = match &self.params_override {
            Some(f) => f(&my),
            None => my.clone(),
        };
        Ok(Box::new(MockSession {
            side: Side::Client,
            my_params: my,
            sent_params: sent,
            peer_params: None,
            remembered_params: self.ticket.as_ref().map(|t| t.server_params.clone()),
            inbuf: vec![],
            secret: vec![],
            stage: 0,
            got_ch: false,
            got_sh: false,
            got_sfin: false,
            handshaking: true,
            hs_data: false,
            generation: 0,
            cert_len: 0,
            ticket_secret: self.ticket.as_ref().map(|t| t.secret),
            early_offered: self.ticket.is_some(),
            early_accepted: None,
            server_accepts_early: false,
            keylog: self.keylog.clone(),
        }))
    }
}

#[derive(Clone)]
pub struct MockServer {
    pub keylog: Arc<KeyLog>,
    pub cert_len: usize,
    pub accept_early: bool,
    pub params_override: Option<ParamsOverride>,
}

impl Default for MockServer {
    fn default() -> Self {
        Self {
            keylog: Arc::default(),
            cert_len: 1500,
            accept_early: true,
            params_override: None,
        }
    }
}

impl crypto::ServerConfig for MockServer {
    fn initial_keys(
        &self,
        _version: u32,
        dst_cid: ConnectionId,
    ) -> Result<Keys, UnsupportedVersion> {
        Ok(initial_keys(dst_cid, Side::Server))
    }
    fn retry_tag(&self, _version: u32, orig_dst_cid: ConnectionId, packet: &[u8]) -> [u8; 16] {
        retry_tag(&orig_dst_cid, packet)
    }
    fn start_session(
        self: Arc<Self>,
        _version: u32,
        params: &TransportParameters,
    ) -> Box<dyn crypto::Session> {
        let my = params_bytes(params);
        let sent = match &self.params_override {
            Some(f) => f(&my),
            None => my.clone(),
        };
        Box::new(MockSession {
            side: Side::Server,
            my_params: my,
            sent_params: sent,
            peer_params: None,
            remembered_params: None,
            inbuf: vec![],
            secret: vec![],
            stage: 0,
            got_ch: false,
            got_sh: false,
            got_sfin: false,
            handshaking: true,
            hs_data: false,
            generation: 0,
            cert_len: self.cert_len,
            ticket_secret: None,
            early_offered: false,
            early_accepted: None,
            server_accepts_early: self.accept_early,
            keylog: self.keylog.clone(),
        })
    }
}
