//! Exploration engines. E2: deviation-bounded stateless exploration over per-datagram fates.
//! E3: exhaustive vector enumeration (parallel map over a finite task list).

use std::{
    collections::BTreeMap,
    panic::{catch_unwind, AssertUnwindSafe},
    sync::atomic::{AtomicBool, Ordering},
    time::{Duration, Instant},
};

use rayon::prelude::*;

use crate::sim::Fate;

/// A deviation: at choice point `point` take alternative `alt` (0-based index into the
/// alternative list; the default answer is not listed)
pub type Devs = Vec<(u64, u16)>;

#[derive(Debug, Clone, Default)]
pub struct RunOut {
    /// Number of choice points this execution encountered (points are numbered 0..n)
    pub points: u64,
    /// Hash of the observable trace
    pub trace: u64,
    /// Violation: (signature, description)
    pub violation: Option<(String, String)>,
    /// Anything the check wants to aggregate
    pub note: u64,
}

pub struct E2Result {
    pub executions: u64,
    /// Executions per deviation count 0..=k
    pub per_k: Vec<u64>,
    pub k_completed: usize,
    pub capped: bool,
    pub outs: Vec<(Devs, RunOut)>,
}

/// Run `f`, converting a panic in the subject into a violation.
pub fn guarded<T>(f: impl FnOnce() -> T) -> Result<T, String> {
    catch_unwind(AssertUnwindSafe(f)).map_err(|e| {
        if let Some(s) = e.downcast_ref::<String>() {
            s.clone()
        } else if let Some(s) = e.downcast_ref::<&str>() {
            s.to_string()
        } else {
            "panic".to_string()
        }
    })
}

pub fn quiet_panics() {
    std::panic::set_hook(Box::new(|_| {}));
}

/// Deviation-bounded exploration. `run(devs)` executes one complete run with the given
/// deviations (sorted by point). Choice points are in `window`; each has `alts` alternatives.
/// All executions with at most `k` deviations are enumerated (iteratively k=0,1,..), in
/// parallel, level by level. Stops early (capped) when `deadline` passes.
pub fn e2<F>(run: F, window: (u64, u64), alts: u16, k: usize, deadline: Instant) -> E2Result
where
    F: Fn(&Devs) -> RunOut + Sync,
{
    let mut outs: Vec<(Devs, RunOut)> = Vec::new();
    let mut per_k = vec![];
    let base = run(&vec![]);
    {
        // determinism guard: the deviation-free execution must reproduce bit-identically
        let again = run(&vec![]);
        if again.trace != base.trace || again.points != base.points || again.violation != base.violation {
            crate::report::machinery("nondeterminism: two deviation-free executions of the same scenario differ");
        }
    }
    let mut frontier: Vec<(Devs, u64)> = vec![(vec![], base.points)];
    outs.push((vec![], base));
    per_k.push(1);
    let mut k_completed = 0;
    let mut capped = false;
    let stop = AtomicBool::new(false);
    for _level in 1..=k {
        let mut tasks: Vec<Devs> = Vec::new();
        for (d, points) in &frontier {
            let from = d.last().map_or(window.0, |(p, _)| (*p + 1).max(window.0));
            let to = window.1.min(*points);
            for p in from..to {
                for a in 0..alts {
                    let mut nd = d.clone();
                    nd.push((p, a));
                    tasks.push(nd);
                }
            }
        }
        let results: Vec<Option<(Devs, RunOut)>> = tasks
            .into_par_iter()
            .map(|d| {
                if stop.load(Ordering::Relaxed) {
                    return None;
                }
                if Instant::now() > deadline {
                    stop.store(true, Ordering::Relaxed);
                    return None;
                }
                let o = run(&d);
                Some((d, o))
            })
            .collect();
        if results.iter().any(|r| r.is_none()) {
            capped = true;
        }
        let done: Vec<(Devs, RunOut)> = results.into_iter().flatten().collect();
        // determinism guard: the last execution of the level and every violating one (up to 8)
        // must reproduce before anything is reported
        let mut recheck: Vec<&(Devs, RunOut)> = done.iter().filter(|(_, o)| o.violation.is_some()).take(8).collect();
        if let Some(l) = done.last() {
            recheck.push(l);
        }
        for (d, o) in recheck {
            let again = run(d);
            if again.trace != o.trace || again.violation.as_ref().map(|v| &v.0) != o.violation.as_ref().map(|v| &v.0) {
                crate::report::machinery(&format!("nondeterminism: execution with deviations {d:?} did not reproduce"));
            }
        }
        per_k.push(done.len() as u64);
        frontier = done.iter().map(|(d, o)| (d.clone(), o.points)).collect();
        outs.extend(done);
        if capped {
            break;
        }
        k_completed += 1;
    }
    E2Result { executions: outs.len() as u64, per_k, k_completed, capped, outs }
}

pub const FATE_ALTS: [Fate; 5] = [
    Fate::Drop,
    Fate::Dup(Duration::from_millis(15)),
    Fate::Delay(Duration::from_millis(15)),
    Fate::Dup(Duration::from_millis(40)),
    Fate::Delay(Duration::from_millis(40)),
];

pub fn fates_of(devs: &Devs, alts: &[Fate]) -> BTreeMap<u64, Fate> {
    devs.iter().map(|(p, a)| (*p, alts[*a as usize])).collect()
}

/// Exhaustive parallel enumeration of a finite task list with a wall-clock cap.
/// Returns (results in task order for completed tasks, capped?)
pub fn e3<T: Send + Sync, R: Send>(tasks: Vec<T>, deadline: Instant, f: impl Fn(&T) -> R + Sync) -> (Vec<(T, R)>, bool) {
    let stop = AtomicBool::new(false);
    let res: Vec<Option<(T, R)>> = tasks
        .into_par_iter()
        .map(|t| {
            if stop.load(Ordering::Relaxed) {
                return None;
            }
            if Instant::now() > deadline {
                stop.store(true, Ordering::Relaxed);
                return None;
            }
            let r = f(&t);
            Some((t, r))
        })
        .collect();
    let capped = res.iter().any(|r| r.is_none());
    (res.into_iter().flatten().collect(), capped)
}

pub fn deadline(secs: u64) -> Instant {
    Instant::now() + Duration::from_secs(secs)
}

/// Reduced fate alphabet for quick tiers
pub const FATE_ALTS3: [Fate; 3] = [Fate::Drop, Fate::Dup(Duration::from_millis(15)), Fate::Delay(Duration::from_millis(40))];
