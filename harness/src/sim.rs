//! The simulated world: real `quinn_proto::Endpoint`s and `Connection`s joined by a virtual
//! network under a virtual clock. The harness owns every source of nondeterminism.

use std::{
    collections::BTreeMap,
    hash::{Hash, Hasher},
    net::SocketAddr,
    sync::{
        atomic::{AtomicU64, Ordering},
        Arc,
    },
    time::{Duration, Instant, SystemTime, UNIX_EPOCH},
};

use bytes::BytesMut;
use proto::{
    ClientConfig, Connection, ConnectionHandle, ConnectionId, ConnectionIdGenerator,
    DatagramEvent, EcnCodepoint, Endpoint, EndpointConfig, Event, Incoming, ServerConfig,
    TimeSource, Transmit, TransportConfig,
};

use crate::mtls;

/// Counter-based connection ID generator of any length; fully deterministic.
pub struct CounterCid {
    pub len: usize,
    pub next: u64,
    pub tag: u8,
    pub lifetime: Option<Duration>,
}

impl ConnectionIdGenerator for CounterCid {
    fn generate_cid(&mut self) -> ConnectionId {
        let mut b = [0u8; 20];
        let n = self.next;
        self.next += 1;
        // little-endian counter in the leading bytes so that 1-byte CIDs cycle through 0..=255
        let c = n.to_le_bytes();
        for i in 0..self.len.min(8) {
            b[i] = c[i];
        }
        if self.len > 8 {
            b[8] = self.tag;
            for i in 9..self.len {
                b[i] = 0xa0 + i as u8;
            }
        }
        ConnectionId::new(&b[..self.len])
    }
    fn cid_len(&self) -> usize {
        self.len
    }
    fn cid_lifetime(&self) -> Option<Duration> {
        self.lifetime
    }
}

/// Virtual wall clock for tokens
pub struct SimTime {
    /// microseconds since UNIX_EPOCH + 50 years
    pub micros: AtomicU64,
}

impl SimTime {
    pub fn new() -> Arc<Self> {
        Arc::new(Self { micros: AtomicU64::new(0) })
    }
    pub fn set(&self, d: Duration) {
        self.micros.store(d.as_micros() as u64, Ordering::SeqCst);
    }
}

impl TimeSource for SimTime {
    fn now(&self) -> SystemTime {
        UNIX_EPOCH
            + Duration::from_secs(50 * 365 * 86400)
            + Duration::from_micros(self.micros.load(Ordering::SeqCst))
    }
}

pub fn endpoint_config(seed: u8, cid_len: usize, cid_lifetime: Option<Duration>) -> EndpointConfig {
    let key = ring::hmac::Key::new(ring::hmac::HMAC_SHA256, &[seed; 64]);
    let mut c = EndpointConfig::new(Arc::new(key));
    c.rng_seed(Some([seed; 32]));
    c.cid_generator(Arc::new(move || {
        Box::new(CounterCid { len: cid_len, next: 0, tag: seed, lifetime: cid_lifetime })
    }));
    c
}

pub fn token_key(seed: u8) -> Arc<ring::hkdf::Prk> {
    Arc::new(ring::hkdf::Salt::new(ring::hkdf::HKDF_SHA256, &[]).extract(&[seed; 32]))
}

pub fn reset_token_for(seed: u8, cid: &[u8]) -> [u8; 16] {
    let key = ring::hmac::Key::new(ring::hmac::HMAC_SHA256, &[seed; 64]);
    let sig = ring::hmac::sign(&key, cid);
    let mut out = [0u8; 16];
    out.copy_from_slice(&sig.as_ref()[..16]);
    out
}

#[derive(Debug, Clone, Copy, PartialEq, Eq, Hash)]
pub enum Fate {
    Deliver,
    Drop,
    /// Deliver, plus a second copy `extra` later
    Dup(Duration),
    /// Deliver `extra` later than normal
    Delay(Duration),
}

#[derive(Debug, Clone)]
pub struct Flight {
    pub at: Duration,
    pub seq: u64,
    /// Emission index (global); duplicates share the index of the original
    pub idx: u64,
    pub src: SocketAddr,
    pub dst: SocketAddr,
    pub ecn: Option<EcnCodepoint>,
    pub data: Vec<u8>,
    /// Injected by the harness rather than emitted by an endpoint
    pub injected: bool,
}

#[derive(Debug, Clone, Copy, PartialEq, Eq)]
pub enum AcceptPolicy {
    Accept,
    /// `retry()` unless the address is already validated
    Retry,
    Refuse,
    Ignore,
    /// Keep the `Incoming` in `Node::held` until the check accepts it
    Hold,
    /// `retry()` unless the address is validated, then hold
    RetryHold,
}

/// What an application does with a connection. `drive` is called after every settle round
/// with the events polled since the last call; it returns true if it called into the
/// connection (so the settle loop runs another round).
pub trait App {
    fn drive(&mut self, cx: &mut AppCx<'_>) -> bool;
}

pub struct AppCx<'a> {
    pub conn: &'a mut Connection,
    pub events: &'a mut Vec<Event>,
    pub now: Instant,
    /// Time since the base instant
    pub t: Duration,
    pub node: usize,
    pub ch: ConnectionHandle,
}

pub struct NullApp;
impl App for NullApp {
    fn drive(&mut self, cx: &mut AppCx<'_>) -> bool {
        cx.events.clear();
        false
    }
}

pub struct Slot<A> {
    pub conn: Connection,
    pub app: A,
    pub events: Vec<Event>,
    /// Number of `Drained` endpoint events seen
    pub drained_events: u32,
    /// `ConnectionLost` events seen by the harness (before handing to the app)
    pub lost: Vec<proto::ConnectionError>,
    pub all_events: Vec<String>,
    /// id of the connection for ledgers: (node, serial)
    pub serial: u64,
    pub last_timeout: Option<Option<Duration>>,
}

pub struct Node<A> {
    pub ep: Endpoint,
    pub addr: SocketAddr,
    pub cid_len: usize,
    pub seed: u8,
    pub conns: BTreeMap<ConnectionHandle, Slot<A>>,
    /// Connections removed from the endpoint after draining
    pub dead: Vec<(ConnectionHandle, Slot<A>)>,
    pub policy: AcceptPolicy,
    pub held: Vec<Incoming>,
    pub server_cfg_for_accept: Option<Arc<ServerConfig>>,
    pub next_serial: u64,
    /// Rejections observed on accept: error strings
    pub accept_errors: Vec<String>,
    /// Every Incoming seen: (time, remote, remote_address_validated(), may_retry())
    pub incomings: Vec<(Duration, SocketAddr, bool, bool)>,
}

/// Connection internals read (through the hook) right before a poll_transmit call
#[derive(Debug, Clone, PartialEq, Eq)]
pub struct Pre {
    pub in_flight: u64,
    pub cwnd: u64,
    pub loss_probes: [u32; 3],
    pub state: &'static str,
    pub path_validated: bool,
    pub path_challenge: bool,
    pub path_total_sent: u64,
    pub path_total_recvd: u64,
}

#[derive(Debug, Clone, PartialEq, Eq)]
pub enum Routed {
    Conn(ConnectionHandle),
    New(Option<ConnectionHandle>),
    Response(usize),
    Nothing,
    NoSuchNode,
}

/// One thing that happened, as seen by the harness (ground truth for all ledgers)
#[derive(Debug, Clone)]
pub enum Rec {
    Emit {
        t: Duration,
        node: usize,
        /// None for endpoint-level responses (stateless reset, VN, Retry, initial close)
        ch: Option<ConnectionHandle>,
        serial: Option<u64>,
        idx: u64,
        src: SocketAddr,
        dst: SocketAddr,
        data: Vec<u8>,
        ecn: bool,
        /// index of the poll_transmit call this datagram came from, and position inside it
        batch: u64,
        seg: usize,
        nseg: usize,
        fate: Fate,
        /// MTU the connection reported just before poll_transmit
        mtu_before: u16,
        /// Probe snapshot taken just before the poll_transmit call (when `probe_pre` is on)
        pre: Option<Box<Pre>>,
    },
    Deliver {
        t: Duration,
        node: usize,
        idx: u64,
        src: SocketAddr,
        len: usize,
        routed: Routed,
        injected: bool,
        /// serial (unique per node) of the connection the datagram was handed to, if any
        to_serial: Option<u64>,
    },
    LinkDrop { t: Duration, idx: u64, len: usize },
    Timer { t: Duration, node: usize, ch: ConnectionHandle },
    Event { t: Duration, node: usize, ch: ConnectionHandle, ev: String },
    Drained { t: Duration, node: usize, ch: ConnectionHandle },
    /// Value of poll_timeout() after a settle, recorded when it changed
    NextTimeout { t: Duration, node: usize, ch: ConnectionHandle, at: Option<Duration> },
}

pub struct World<A: App> {
    pub base: Instant,
    pub t: Duration,
    pub nodes: Vec<Node<A>>,
    pub net: Vec<Flight>,
    pub latency: Duration,
    pub link_mtu: usize,
    /// per node (server, client): the connection uses one of quinn's own congestion controllers
    pub builtin_ctl: [bool; 2],
    pub max_datagrams: usize,
    pub emitted: u64,
    pub seq: u64,
    pub batches: u64,
    pub fates: BTreeMap<u64, Fate>,
    /// Drop mask over emission indices `mask_base..mask_base+64`
    pub drop_mask: u64,
    pub mask_base: u64,
    /// Extra one-way delay for every datagram from or to an address (a slower path)
    pub addr_latency: Vec<(SocketAddr, Duration)>,
    /// Drop mask over the emissions of ONE node: (node, first per-node emission index, mask)
    pub node_mask: Option<(usize, u64, u64)>,
    /// Datagrams emitted so far, per node
    pub emitted_by: Vec<u64>,
    /// Source address rewrite for emitted datagrams: (node, from emission idx) -> new source
    pub src_rewrite: Vec<(usize, u64, SocketAddr)>,
    pub recs: Vec<Rec>,
    pub keep_data: bool,
    pub steps: u64,
    pub sim_time: Arc<SimTime>,
    /// Mark delivered datagrams with ECN CE for these emission indices
    pub ce_marks: std::collections::BTreeSet<u64>,
    /// Factory for applications of server-side connections
    pub make_app: Box<dyn FnMut(usize, ConnectionHandle) -> A + Send>,
    /// Blackhole: drop everything sent by these nodes
    pub blackhole: Vec<bool>,
    pub blackhole_default: bool,
    /// Additional addresses that reach a node (a migrated client is reachable at its new address)
    pub aliases: Vec<(SocketAddr, usize)>,
    /// aliases stop working at this virtual time (an old NAT mapping that lingers for a while)
    pub alias_expiry: Option<Duration>,
    /// Nodes that no longer receive anything (frozen; the puppet speaks in their place)
    pub deaf: Vec<bool>,
    /// Take a probe snapshot before every poll_transmit (C12/C13)
    pub probe_pre: bool,
    /// Do not forward Drained to the endpoint and keep drained connections live (C20 part 5)
    pub hold_drained: bool,
    /// Keep servicing the timers of connections that have drained and were forgotten by their
    /// endpoint, as a driver that does not drop them at once would; anything they still emit is
    /// recorded in `post_drain_output` (and a further Drained in `drained_events` / `Rec::Drained`)
    pub linger_dead: bool,
    /// How many times the timeout handler is called per timer firing before transmits are polled
    /// (0/1: once)
    pub timeout_calls: u32,
    /// `Pair::new_pre` leaves the client connection unpolled after `connect` (the caller acts first)
    pub connect_unsettled: bool,
    /// Consecutive timer firings at one instant for one connection: (t, node, ch, count)
    pub timer_streak: (Duration, usize, usize, u32),
    pub max_timer_streak: u32,
    /// Output produced by connections after they reported drained
    pub post_drain_output: Vec<String>,
}

pub fn addr(n: usize) -> SocketAddr {
    format!("[2001:db8::{:x}]:{}", n + 1, 4000 + n).parse().unwrap()
}

pub fn addr4(n: usize) -> SocketAddr {
    format!("192.0.2.{}:{}", n + 1, 4000 + n).parse().unwrap()
}

impl<A: App> World<A> {
    pub fn new(base: Instant, make_app: Box<dyn FnMut(usize, ConnectionHandle) -> A + Send>) -> Self {
        Self {
            base,
            t: Duration::ZERO,
            nodes: Vec::new(),
            net: Vec::new(),
            latency: Duration::from_millis(10),
            link_mtu: usize::MAX,
            max_datagrams: 10,
            emitted: 0,
            seq: 0,
            batches: 0,
            fates: BTreeMap::new(),
            builtin_ctl: [true, true],
            drop_mask: 0,
            mask_base: 0,
            addr_latency: vec![],
            node_mask: None,
            emitted_by: vec![],
            src_rewrite: Vec::new(),
            recs: Vec::new(),
            keep_data: true,
            steps: 0,
            sim_time: SimTime::new(),
            ce_marks: Default::default(),
            make_app,
            blackhole: Vec::new(),
            blackhole_default: false,
            aliases: Vec::new(),
            alias_expiry: None,
            deaf: Vec::new(),
            probe_pre: false,
            hold_drained: false,
            linger_dead: false,
            timeout_calls: 1,
            connect_unsettled: false,
            timer_streak: (Duration::ZERO, 0, 0, 0),
            max_timer_streak: 0,
            post_drain_output: Vec::new(),
        }
    }

    pub fn now(&self) -> Instant {
        self.base + self.t
    }

    /// Drop everything any present or future node emits (used when only direct endpoint calls
    /// and injected datagrams matter)
    pub fn blackhole_all_from_start(&mut self) {
        self.blackhole_default = true;
        for b in self.blackhole.iter_mut() {
            *b = true;
        }
    }

    pub fn add_node(
        &mut self,
        seed: u8,
        cid_len: usize,
        cid_lifetime: Option<Duration>,
        server: Option<Arc<ServerConfig>>,
        tweak: impl FnOnce(&mut EndpointConfig),
    ) -> usize {
        let mut cfg = endpoint_config(seed, cid_len, cid_lifetime);
        tweak(&mut cfg);
        let ep = Endpoint::new(Arc::new(cfg), server, true);
        let n = self.nodes.len();
        self.nodes.push(Node {
            ep,
            addr: addr(n),
            cid_len,
            seed,
            conns: BTreeMap::new(),
            dead: Vec::new(),
            policy: AcceptPolicy::Accept,
            held: Vec::new(),
            server_cfg_for_accept: None,
            next_serial: 0,
            accept_errors: Vec::new(),
            incomings: Vec::new(),
        });
        self.blackhole.push(self.blackhole_default);
        self.deaf.push(false);
        n
    }

    pub fn connect(&mut self, node: usize, to: usize, cfg: ClientConfig, app: A) -> ConnectionHandle {
        let now = self.now();
        let dst = self.nodes[to].addr;
        let n = &mut self.nodes[node];
        let (ch, conn) = n.ep.connect(now, cfg, dst, "localhost").expect("connect");
        let serial = n.next_serial;
        n.next_serial += 1;
        n.conns.insert(
            ch,
            Slot { conn, app, events: vec![], drained_events: 0, lost: vec![], all_events: vec![], serial, last_timeout: None },
        );
        ch
    }

    fn node_of(&self, a: SocketAddr) -> Option<usize> {
        self.nodes.iter().position(|n| n.addr == a).or_else(|| {
            if self.alias_expiry.map_or(false, |e| self.t > e) {
                return None;
            }
            self.aliases.iter().find(|(x, _)| *x == a).map(|(_, n)| *n)
        })
    }

    fn fate_of(&self, idx: u64) -> Fate {
        if let Some(f) = self.fates.get(&idx) {
            return *f;
        }
        if idx >= self.mask_base && idx < self.mask_base + 64 && (self.drop_mask >> (idx - self.mask_base)) & 1 == 1 {
            return Fate::Drop;
        }
        Fate::Deliver
    }

    /// Put one emitted datagram on the wire, applying its fate
    fn emit(
        &mut self,
        node: usize,
        ch: Option<ConnectionHandle>,
        serial: Option<u64>,
        dst: SocketAddr,
        data: &[u8],
        ecn: Option<EcnCodepoint>,
        batch: u64,
        seg: usize,
        nseg: usize,
        mtu_before: u16,
        pre: Option<Box<Pre>>,
    ) {
        let idx = self.emitted;
        self.emitted += 1;
        let mut fate = self.fate_of(idx);
        if self.emitted_by.len() <= node {
            self.emitted_by.resize(node + 1, 0);
        }
        let k = self.emitted_by[node];
        self.emitted_by[node] += 1;
        if let Some((n, base, m)) = self.node_mask {
            if n == node && k >= base && k < base + 64 && (m >> (k - base)) & 1 == 1 && !self.fates.contains_key(&idx) {
                fate = Fate::Drop;
            }
        }
        let mut src = self.nodes[node].addr;
        for &(n, from, a) in &self.src_rewrite {
            if n == node && idx >= from {
                src = a;
            }
        }
        if self.blackhole[node] {
            fate = Fate::Drop;
        }
        self.recs.push(Rec::Emit {
            t: self.t,
            node,
            ch,
            serial,
            idx,
            src,
            dst,
            data: if self.keep_data { data.to_vec() } else { Vec::new() },
            ecn: ecn.is_some(),
            batch,
            seg,
            nseg,
            fate,
            mtu_before,
            pre,
        });
        let ecn = if self.ce_marks.contains(&idx) && ecn.is_some() { Some(EcnCodepoint::Ce) } else { ecn };
        let mut push = |w: &mut Self, extra: Duration| {
            if data.len() > w.link_mtu {
                w.recs.push(Rec::LinkDrop { t: w.t, idx, len: data.len() });
                return;
            }
            let seq = w.seq;
            w.seq += 1;
            let slow: Duration = w.addr_latency.iter().filter(|(a, _)| *a == src || *a == dst).map(|(_, d)| *d).sum();
            w.net.push(Flight {
                at: w.t + w.latency + extra + slow,
                seq,
                idx,
                src,
                dst,
                ecn,
                data: data.to_vec(),
                injected: false,
            });
        };
        match fate {
            Fate::Drop => {}
            Fate::Deliver => push(self, Duration::ZERO),
            Fate::Delay(d) => push(self, d),
            Fate::Dup(d) => {
                push(self, Duration::ZERO);
                push(self, d);
            }
        }
    }

    /// Inject an arbitrary datagram (from the harness, e.g. attacker or puppet)
    pub fn inject(&mut self, src: SocketAddr, dst: SocketAddr, data: Vec<u8>, after: Duration) {
        let seq = self.seq;
        self.seq += 1;
        self.net.push(Flight {
            at: self.t + after,
            seq,
            idx: u64::MAX,
            src,
            dst,
            ecn: None,
            data,
            injected: true,
        });
    }

    fn emit_transmit(
        &mut self,
        node: usize,
        ch: Option<ConnectionHandle>,
        serial: Option<u64>,
        t: &Transmit,
        buf: &[u8],
        mtu_before: u16,
        pre: Option<Box<Pre>>,
    ) {
        let seg = t.segment_size.unwrap_or(t.size).max(1);
        let batch = self.batches;
        self.batches += 1;
        let chunks: Vec<&[u8]> = buf[..t.size].chunks(seg).collect();
        let n = chunks.len();
        for (i, c) in chunks.into_iter().enumerate() {
            self.emit(node, ch, serial, t.destination, c, t.ecn, batch, i, n, mtu_before, pre.clone());
        }
    }

    /// Settle one connection: drain endpoint events, transmits, application events; drive app.
    pub fn settle_conn(&mut self, node: usize, ch: ConnectionHandle) {
        let now = self.now();
        let tt = self.t;
        let mut rounds = 0;
        loop {
            rounds += 1;
            assert!(rounds < 100_000, "settle loop does not terminate (machinery)");
            let mut progressed = false;
            let Some(mut slot) = self.nodes[node].conns.remove(&ch) else { return };
            let mut drained = false;
            let was_drained = slot.drained_events > 0;
            while let Some(ev) = slot.conn.poll_endpoint_events() {
                progressed = true;
                if was_drained {
                    self.post_drain_output.push("endpoint event after drained".into());
                }
                if ev.is_drained() {
                    slot.drained_events += 1;
                    drained = true;
                    self.recs.push(Rec::Drained { t: tt, node, ch });
                }
                // a second Drained for an already-removed connection must not reach the endpoint
                if ev.is_drained() && (slot.drained_events > 1 || self.hold_drained) {
                    continue;
                }
                if let Some(ce) = self.nodes[node].ep.handle_event(ch, ev) {
                    slot.conn.handle_event(ce);
                }
            }
            let mut buf = Vec::new();
            loop {
                let mtu_before = slot.conn.current_mtu();
                let pre = self.probe_pre.then(|| {
                    let pr = slot.conn.verif_probe();
                    Box::new(Pre {
                        in_flight: pr.in_flight_bytes,
                        cwnd: pr.cwnd,
                        loss_probes: [pr.spaces[0].loss_probes, pr.spaces[1].loss_probes, pr.spaces[2].loss_probes],
                        state: pr.state,
                        path_validated: pr.path_validated,
                        path_challenge: pr.path_challenge,
                        path_total_sent: pr.path_total_sent,
                        path_total_recvd: pr.path_total_recvd,
                    })
                });
                buf.clear();
                let Some(t) = slot.conn.poll_transmit(now, self.max_datagrams, &mut buf) else { break };
                progressed = true;
                if was_drained {
                    self.post_drain_output.push(format!("transmit of {} bytes after drained", t.size));
                }
                let serial = slot.serial;
                self.emit_transmit(node, Some(ch), Some(serial), &t, &buf, mtu_before, pre);
            }
            while let Some(ev) = slot.conn.poll() {
                progressed = true;
                let s = format!("{:?}", ev);
                self.recs.push(Rec::Event { t: tt, node, ch, ev: s.clone() });
                slot.all_events.push(s);
                if let Event::ConnectionLost { reason } = &ev {
                    slot.lost.push(reason.clone());
                } else if was_drained && slot.lost.len() + 0 > 0 {
                    self.post_drain_output.push(format!("event {ev:?} after drained"));
                }
                slot.events.push(ev);
            }
            {
                let mut cx = AppCx { conn: &mut slot.conn, events: &mut slot.events, now, t: tt, node, ch };
                progressed |= slot.app.drive(&mut cx);
            }
            if (drained || slot.drained_events > 0) && !self.hold_drained {
                // keep polling a drained connection once more for late output, then retire it
                if !progressed {
                    self.nodes[node].dead.push((ch, slot));
                    return;
                }
            }
            if !progressed {
                let to = slot.conn.poll_timeout().map(|x| x.saturating_duration_since(self.base));
                if slot.last_timeout != Some(to) {
                    slot.last_timeout = Some(to);
                    self.recs.push(Rec::NextTimeout { t: tt, node, ch, at: to });
                }
            }
            self.nodes[node].conns.insert(ch, slot);
            if !progressed {
                break;
            }
        }
    }

    pub fn settle_all(&mut self) {
        for node in 0..self.nodes.len() {
            let chs: Vec<_> = self.nodes[node].conns.keys().copied().collect();
            for ch in chs {
                self.settle_conn(node, ch);
            }
        }
    }

    fn handle_incoming(&mut self, node: usize, inc: Incoming) -> Option<ConnectionHandle> {
        let mut buf = Vec::new();
        let policy = self.nodes[node].policy;
        let t = self.t;
        self.nodes[node].incomings.push((t, inc.remote_address(), inc.remote_address_validated(), inc.may_retry()));
        match policy {
            AcceptPolicy::Hold => {
                self.nodes[node].held.push(inc);
                None
            }
            AcceptPolicy::RetryHold if inc.remote_address_validated() || !inc.may_retry() => {
                self.nodes[node].held.push(inc);
                None
            }
            AcceptPolicy::RetryHold => {
                let t = self.nodes[node].ep.retry(inc, &mut buf).expect("may_retry checked");
                self.emit_transmit(node, None, None, &t, &buf, 0, None);
                None
            }
            AcceptPolicy::Refuse => {
                let t = self.nodes[node].ep.refuse(inc, &mut buf);
                self.emit_transmit(node, None, None, &t, &buf, 0, None);
                None
            }
            AcceptPolicy::Ignore => {
                self.nodes[node].ep.ignore(inc);
                None
            }
            AcceptPolicy::Retry if !inc.remote_address_validated() && inc.may_retry() => {
                let t = self.nodes[node].ep.retry(inc, &mut buf).expect("may_retry checked");
                self.emit_transmit(node, None, None, &t, &buf, 0, None);
                None
            }
            _ => self.accept(node, inc),
        }
    }

    pub fn accept(&mut self, node: usize, inc: Incoming) -> Option<ConnectionHandle> {
        let now = self.now();
        let mut buf = Vec::new();
        let cfg = self.nodes[node].server_cfg_for_accept.clone();
        match self.nodes[node].ep.accept(inc, now, &mut buf, cfg) {
            Ok((ch, conn)) => {
                let app = (self.make_app)(node, ch);
                let n = &mut self.nodes[node];
                let serial = n.next_serial;
                n.next_serial += 1;
                n.conns.insert(
                    ch,
                    Slot { conn, app, events: vec![], drained_events: 0, lost: vec![], all_events: vec![], serial, last_timeout: None },
                );
                Some(ch)
            }
            Err(e) => {
                self.nodes[node].accept_errors.push(format!("{:?}", e.cause));
                if let Some(t) = e.response {
                    self.emit_transmit(node, None, None, &t, &buf, 0, None);
                }
                None
            }
        }
    }

    pub fn accept_held(&mut self, node: usize) -> Option<ConnectionHandle> {
        if self.nodes[node].held.is_empty() {
            return None;
        }
        let inc = self.nodes[node].held.remove(0);
        let ch = self.accept(node, inc);
        if let Some(ch) = ch {
            self.settle_conn(node, ch);
        }
        ch
    }

    /// Deliver one datagram to a node right now
    pub fn deliver(&mut self, f: Flight) -> Routed {
        let Some(node) = self.node_of(f.dst) else {
            self.recs.push(Rec::Deliver {
                t: self.t, node: usize::MAX, idx: f.idx, src: f.src, len: f.data.len(),
                routed: Routed::NoSuchNode, injected: f.injected, to_serial: None,
            });
            return Routed::NoSuchNode;
        };
        if self.deaf[node] {
            self.recs.push(Rec::Deliver {
                t: self.t, node, idx: f.idx, src: f.src, len: f.data.len(), routed: Routed::Nothing, injected: f.injected, to_serial: None,
            });
            return Routed::Nothing;
        }
        let now = self.now();
        let mut buf = Vec::new();
        let len = f.data.len();
        // the delivery is logged before it is processed so that ledgers see bytes received
        // before any response they provoke; the routing outcome is filled in afterwards
        let pos = self.recs.len();
        self.recs.push(Rec::Deliver {
            t: self.t, node, idx: f.idx, src: f.src, len, routed: Routed::Nothing, injected: f.injected, to_serial: None,
        });
        let ev = self.nodes[node].ep.handle(now, f.src, None, f.ecn, BytesMut::from(&f.data[..]), &mut buf);
        let routed = match ev {
            Some(DatagramEvent::ConnectionEvent(ch, ev)) => {
                if let Some(slot) = self.nodes[node].conns.get_mut(&ch) {
                    slot.conn.handle_event(ev);
                }
                Routed::Conn(ch)
            }
            Some(DatagramEvent::NewConnection(inc)) => {
                if let Rec::Deliver { routed, .. } = &mut self.recs[pos] {
                    *routed = Routed::New(None);
                }
                Routed::New(self.handle_incoming(node, inc))
            }
            Some(DatagramEvent::Response(t)) => {
                self.emit_transmit(node, None, None, &t, &buf, 0, None);
                Routed::Response(t.size)
            }
            None => Routed::Nothing,
        };
        let ser = match &routed {
            Routed::Conn(ch) | Routed::New(Some(ch)) => self.nodes[node].conns.get(ch).map(|s| s.serial),
            _ => None,
        };
        if let Rec::Deliver { routed: r, to_serial, .. } = &mut self.recs[pos] {
            *r = routed.clone();
            *to_serial = ser;
        }
        match &routed {
            Routed::Conn(ch) | Routed::New(Some(ch)) => self.settle_conn(node, *ch),
            _ => {}
        }
        routed
    }

    /// Earliest pending thing: (time, is_delivery, index into net or (node, ch))
    pub fn next_event(&self) -> Option<(Duration, NextEv)> {
        let mut best: Option<(Duration, NextEv)> = None;
        // deliveries first at equal time: ordered by (at, seq)
        let mut bi: Option<usize> = None;
        for (i, f) in self.net.iter().enumerate() {
            if bi.map_or(true, |b| (f.at, f.seq) < (self.net[b].at, self.net[b].seq)) {
                bi = Some(i);
            }
        }
        if let Some(i) = bi {
            best = Some((self.net[i].at, NextEv::Net(i)));
        }
        for (ni, n) in self.nodes.iter().enumerate() {
            if self.deaf[ni] {
                continue;
            }
            for (ch, s) in &n.conns {
                if let Some(to) = s.conn.poll_timeout() {
                    let d = to.saturating_duration_since(self.base);
                    if best.as_ref().map_or(true, |(bt, _)| d < *bt) {
                        best = Some((d, NextEv::Timer(ni, *ch)));
                    }
                }
            }
            if self.linger_dead {
                for (i, (_, s)) in n.dead.iter().enumerate() {
                    if let Some(to) = s.conn.poll_timeout() {
                        let d = to.saturating_duration_since(self.base);
                        if best.as_ref().map_or(true, |(bt, _)| d < *bt) {
                            best = Some((d, NextEv::DeadTimer(ni, i)));
                        }
                    }
                }
            }
        }
        best
    }

    /// Process exactly one event. Returns false when nothing is pending.
    pub fn step(&mut self) -> bool {
        let Some((at, ev)) = self.next_event() else { return false };
        self.steps += 1;
        if at > self.t {
            self.t = at;
        }
        self.sim_time.set(self.t);
        match ev {
            NextEv::Net(i) => {
                let f = self.net.remove(i);
                self.deliver(f);
            }
            NextEv::Timer(node, ch) => {
                let now = self.now();
                if self.timer_streak.0 == self.t && self.timer_streak.1 == node && self.timer_streak.2 == ch.0 {
                    self.timer_streak.3 += 1;
                } else {
                    self.timer_streak = (self.t, node, ch.0, 1);
                }
                self.max_timer_streak = self.max_timer_streak.max(self.timer_streak.3);
                self.recs.push(Rec::Timer { t: self.t, node, ch });
                if let Some(s) = self.nodes[node].conns.get_mut(&ch) {
                    // a driver may call the timeout handler more than once before it polls for
                    // transmits (documented as harmless)
                    for _ in 0..self.timeout_calls.max(1) {
                        s.conn.handle_timeout(now);
                    }
                }
                self.settle_conn(node, ch);
            }
            NextEv::DeadTimer(node, i) => {
                let now = self.now();
                let tt = self.t;
                let (ch, slot) = &mut self.nodes[node].dead[i];
                let ch = *ch;
                slot.conn.handle_timeout(now);
                let mut out = vec![];
                let mut drained_again = 0;
                while let Some(ev) = slot.conn.poll_endpoint_events() {
                    if ev.is_drained() {
                        slot.drained_events += 1;
                        drained_again += 1;
                    }
                    out.push("endpoint event after drained".to_string());
                }
                let mut buf = Vec::new();
                let mut guard = 0;
                while let Some(t) = slot.conn.poll_transmit(now, 10, &mut buf) {
                    out.push(format!("transmit of {} bytes after drained", t.size));
                    buf.clear();
                    guard += 1;
                    if guard > 50 {
                        break;
                    }
                }
                while let Some(ev) = slot.conn.poll() {
                    out.push(format!("event {ev:?} after drained"));
                }
                for _ in 0..drained_again {
                    self.recs.push(Rec::Drained { t: tt, node, ch });
                }
                self.post_drain_output.extend(out);
            }
        }
        true
    }

    /// Run until `stop` says so, nothing is pending, or a bound is hit. Returns the reason.
    pub fn run(&mut self, max_steps: u64, horizon: Duration, mut stop: impl FnMut(&Self) -> bool) -> Stop {
        loop {
            if stop(self) {
                return Stop::Cond;
            }
            if self.steps >= max_steps {
                return Stop::Steps;
            }
            match self.next_event() {
                None => return Stop::Quiescent,
                Some((at, _)) if at > horizon => return Stop::Horizon,
                _ => {}
            }
            self.step();
        }
    }

    pub fn slot(&self, node: usize, ch: ConnectionHandle) -> Option<&Slot<A>> {
        self.nodes[node]
            .conns
            .get(&ch)
            .or_else(|| self.nodes[node].dead.iter().find(|(c, _)| *c == ch).map(|(_, s)| s))
    }
    pub fn slot_mut(&mut self, node: usize, ch: ConnectionHandle) -> Option<&mut Slot<A>> {
        let n = &mut self.nodes[node];
        if n.conns.contains_key(&ch) {
            return n.conns.get_mut(&ch);
        }
        n.dead.iter_mut().find(|(c, _)| *c == ch).map(|(_, s)| s)
    }
    /// First live connection on a node (common single-connection case)
    pub fn first_ch(&self, node: usize) -> Option<ConnectionHandle> {
        self.nodes[node].conns.keys().next().copied()
    }

    /// Hash of the observable trace (for determinism checks and distinct-outcome counts)
    pub fn trace_hash(&self) -> u64 {
        let mut h = std::collections::hash_map::DefaultHasher::new();
        for r in &self.recs {
            match r {
                Rec::Emit { t, node, idx, dst, data, fate, .. } => {
                    (0u8, t, node, idx, dst, data, fate).hash(&mut h)
                }
                Rec::Deliver { t, node, idx, len, .. } => (1u8, t, node, idx, len).hash(&mut h),
                Rec::LinkDrop { t, idx, len } => (2u8, t, idx, len).hash(&mut h),
                Rec::Timer { t, node, ch } => (3u8, t, node, ch.0).hash(&mut h),
                Rec::Event { t, node, ch, ev } => (4u8, t, node, ch.0, ev).hash(&mut h),
                Rec::Drained { t, node, ch } => (5u8, t, node, ch.0).hash(&mut h),
                Rec::NextTimeout { t, node, ch, at } => (6u8, t, node, ch.0, at).hash(&mut h),
            }
        }
        h.finish()
    }

    /// Hash of application-visible outcome only (events per connection, in order, no times)
    pub fn outcome_hash(&self) -> u64 {
        let mut h = std::collections::hash_map::DefaultHasher::new();
        for r in &self.recs {
            if let Rec::Event { node, ch, ev, .. } = r {
                (node, ch.0, ev).hash(&mut h)
            }
        }
        h.finish()
    }
}

#[derive(Debug, Clone, Copy, PartialEq, Eq)]
pub enum NextEv {
    Net(usize),
    Timer(usize, ConnectionHandle),
    /// Timer of a connection that already drained and was retired (only with `linger_dead`)
    DeadTimer(usize, usize),
}

#[derive(Debug, Clone, Copy, PartialEq, Eq)]
pub enum Stop {
    Cond,
    Steps,
    Quiescent,
    Horizon,
}

/// Transport configuration knobs used across checks (a plain value so configurations can be
/// listed in evidence files)
#[derive(Debug, Clone)]
pub struct TCfg {
    pub name: String,
    pub idle_ms: Option<u32>,
    pub keep_alive_ms: Option<u64>,
    pub recv_window: Option<u64>,
    pub stream_recv_window: Option<u64>,
    pub send_window: Option<u64>,
    pub max_bidi: Option<u64>,
    pub max_uni: Option<u64>,
    pub controller: Ctl,
    pub pacing_cap: Option<u64>,
    pub pad_to_mtu: bool,
    pub ack_freq: bool,
    pub mtud: Mtud,
    pub initial_mtu: u16,
    pub min_mtu: u16,
    pub gso: bool,
    pub dgram_recv: Option<Option<usize>>,
    pub dgram_send: Option<usize>,
    pub initial_rtt_ms: Option<u64>,
    /// TransportConfig::send_fairness (round-robin between streams of equal priority)
    pub send_fairness: bool,
}

#[derive(Debug, Clone, Copy, PartialEq, Eq)]
pub enum Ctl {
    Cubic,
    NewReno,
    Bbr,
    /// Fixed window in bytes, harness controller
    Fixed(u64),
    /// Cubic with this initial window (bytes)
    CubicIw(u64),
}

#[derive(Debug, Clone, Copy, PartialEq, Eq)]
pub enum Mtud {
    Default,
    Off,
    Upper(u16),
}

impl Default for TCfg {
    fn default() -> Self {
        Self {
            name: "default".into(),
            idle_ms: None,
            keep_alive_ms: None,
            recv_window: None,
            stream_recv_window: None,
            send_window: None,
            max_bidi: None,
            max_uni: None,
            controller: Ctl::Cubic,
            pacing_cap: None,
            pad_to_mtu: false,
            ack_freq: false,
            mtud: Mtud::Default,
            initial_mtu: 1200,
            min_mtu: 1200,
            gso: true,
            dgram_recv: None,
            dgram_send: None,
            initial_rtt_ms: None,
            send_fairness: true,
        }
    }
}

impl TCfg {
    pub fn named(name: &str) -> Self {
        Self { name: name.into(), ..Default::default() }
    }
    pub fn build(&self) -> TransportConfig {
        use proto::{congestion, VarInt};
        let mut t = TransportConfig::default();
        t.max_idle_timeout(self.idle_ms.map(|m| VarInt::from_u32(m).into()));
        t.keep_alive_interval(self.keep_alive_ms.map(Duration::from_millis));
        if let Some(w) = self.recv_window {
            t.receive_window(VarInt::from_u64(w).unwrap());
        }
        if let Some(w) = self.stream_recv_window {
            t.stream_receive_window(VarInt::from_u64(w).unwrap());
        }
        if let Some(w) = self.send_window {
            t.send_window(w);
        }
        if let Some(n) = self.max_bidi {
            t.max_concurrent_bidi_streams(VarInt::from_u64(n).unwrap());
        }
        if let Some(n) = self.max_uni {
            t.max_concurrent_uni_streams(VarInt::from_u64(n).unwrap());
        }
        match self.controller {
            Ctl::Cubic => {}
            Ctl::NewReno => {
                t.congestion_controller_factory(Arc::new(congestion::NewRenoConfig::default()));
            }
            Ctl::Bbr => {
                t.congestion_controller_factory(Arc::new(congestion::BbrConfig::default()));
            }
            Ctl::Fixed(w) => {
                t.congestion_controller_factory(Arc::new(crate::ctl::FixedFactory { window: w }));
            }
            Ctl::CubicIw(w) => {
                let mut c = congestion::CubicConfig::default();
                c.initial_window(w);
                t.congestion_controller_factory(Arc::new(c));
            }
        }
        t.max_outgoing_bytes_per_second(self.pacing_cap);
        t.pad_to_mtu(self.pad_to_mtu);
        if self.ack_freq {
            t.ack_frequency_config(Some(proto::AckFrequencyConfig::default()));
        }
        match self.mtud {
            Mtud::Default => {}
            Mtud::Off => {
                t.mtu_discovery_config(None);
            }
            Mtud::Upper(u) => {
                let mut m = proto::MtuDiscoveryConfig::default();
                m.upper_bound(u);
                t.mtu_discovery_config(Some(m));
            }
        }
        t.initial_mtu(self.initial_mtu);
        t.min_mtu(self.min_mtu);
        t.enable_segmentation_offload(self.gso);
        t.send_fairness(self.send_fairness);
        if let Some(d) = self.dgram_recv {
            t.datagram_receive_buffer_size(d);
        }
        if let Some(d) = self.dgram_send {
            t.datagram_send_buffer_size(d);
        }
        if let Some(r) = self.initial_rtt_ms {
            t.initial_rtt(Duration::from_millis(r));
        }
        t
    }
}

#[derive(Clone)]
pub struct PairCfg {
    pub client: TCfg,
    pub server: TCfg,
    pub cid_len: usize,
    /// CID length of the server endpoint, when different from the client's (`cid_len`)
    pub server_cid_len: Option<usize>,
    /// the server advertises a preferred address (which costs it one more connection ID per connection)
    pub preferred_address: bool,
    pub cid_lifetime: Option<Duration>,
    pub cert_len: usize,
    pub retry: bool,
    pub migration: bool,
    pub latency: Duration,
    pub max_datagrams: usize,
    pub accept_early: bool,
    pub ticket: Option<mtls::Ticket>,
    pub client_params_override: Option<mtls::ParamsOverride>,
    pub server_params_override: Option<mtls::ParamsOverride>,
    pub seed: u8,
    pub tokens_sent: u32,
    /// Retry token lifetime (quinn's default is 15 s; progress checks use a long one so that
    /// long enumerated loss runs do not legitimately expire the token)
    pub retry_token_lifetime: Duration,
    /// EndpointConfig::max_udp_payload_size of the server / client endpoint (advertised limit)
    pub server_max_udp: Option<u16>,
    pub client_max_udp: Option<u16>,
    /// Lifetime of NEW_TOKEN validation tokens (None = quinn's default of two weeks)
    pub token_lifetime: Option<Duration>,
    /// Use IPv4 addresses for the two nodes
    pub ipv4: bool,
}

impl Default for PairCfg {
    fn default() -> Self {
        Self {
            client: TCfg::default(),
            server: TCfg::default(),
            cid_len: 8,
            server_cid_len: None,
            preferred_address: false,
            cid_lifetime: None,
            cert_len: 1500,
            retry: false,
            migration: true,
            latency: Duration::from_millis(10),
            max_datagrams: 10,
            accept_early: true,
            ticket: None,
            client_params_override: None,
            server_params_override: None,
            seed: 0,
            tokens_sent: 0,
            retry_token_lifetime: Duration::from_secs(1_000_000),
            server_max_udp: None,
            client_max_udp: None,
            token_lifetime: None,
            ipv4: false,
        }
    }
}

pub const SERVER: usize = 0;
pub const CLIENT: usize = 1;

pub struct Pair<A: App> {
    pub w: World<A>,
    pub keylog: Arc<mtls::KeyLog>,
    pub cch: ConnectionHandle,
    pub client_cfg: ClientConfig,
    /// `cfg.client.name` of the configuration this pair was built from
    pub cfg_name: String,
}

pub fn server_config(cfg: &PairCfg, keylog: Arc<mtls::KeyLog>, time: Arc<SimTime>) -> ServerConfig {
    let crypto = mtls::MockServer {
        keylog,
        cert_len: cfg.cert_len,
        accept_early: cfg.accept_early,
        params_override: cfg.server_params_override.clone(),
    };
    let mut sc = ServerConfig::new(Arc::new(crypto), token_key(7 + cfg.seed));
    sc.transport_config(Arc::new(cfg.server.build()));
    sc.migration(cfg.migration);
    sc.retry_token_lifetime(cfg.retry_token_lifetime);
    if cfg.preferred_address {
        sc.preferred_address_v6(Some(std::net::SocketAddrV6::new("2001:db8::77".parse().unwrap(), 4477, 0, 0)));
    }
    sc.time_source(time);
    let mut vt = proto::ValidationTokenConfig::default();
    vt.sent(cfg.tokens_sent);
    if let Some(l) = cfg.token_lifetime {
        vt.lifetime(l);
    }
    sc.validation_token_config(vt);
    sc
}

pub fn client_config(cfg: &PairCfg, keylog: Arc<mtls::KeyLog>, dcid_seed: u8) -> ClientConfig {
    let crypto = mtls::MockClient {
        keylog,
        ticket: cfg.ticket.clone(),
        params_override: cfg.client_params_override.clone(),
    };
    let mut cc = ClientConfig::new(Arc::new(crypto));
    cc.transport_config(Arc::new(cfg.client.build()));
    let ctr = Arc::new(AtomicU64::new(0));
    cc.initial_dst_cid_provider(Arc::new(move || {
        let n = ctr.fetch_add(1, Ordering::SeqCst);
        let mut b = [0xd0u8; 8];
        b[0] = dcid_seed;
        b[1] = n as u8;
        // (more than 256 connections from one configuration: the counter carries on in the next byte,
        // which stays 0xd0 for the first 256 so that earlier traces are unchanged)
        b[2] = 0xd0u8.wrapping_add((n >> 8) as u8);
        ConnectionId::new(&b)
    }));
    cc
}

impl<A: App> Pair<A> {
    /// One server endpoint (node 0) and one client endpoint (node 1) with one connection started.
    pub fn new(
        base: Instant,
        cfg: &PairCfg,
        client_app: A,
        make_server_app: Box<dyn FnMut(usize, ConnectionHandle) -> A + Send>,
    ) -> Self {
        Self::new_pre(base, cfg, client_app, make_server_app, |_| {})
    }

    /// Like `new`, but `pre` configures the world (fates, masks, link) before the client's
    /// first flight is emitted, so that emission #0 is subject to it as well.
    pub fn new_pre(
        base: Instant,
        cfg: &PairCfg,
        client_app: A,
        make_server_app: Box<dyn FnMut(usize, ConnectionHandle) -> A + Send>,
        pre: impl FnOnce(&mut World<A>),
    ) -> Self {
        let mut w = World::new(base, make_server_app);
        w.latency = cfg.latency;
        w.builtin_ctl = [!matches!(cfg.server.controller, Ctl::Fixed(_)), !matches!(cfg.client.controller, Ctl::Fixed(_))];
        w.max_datagrams = cfg.max_datagrams;
        let keylog = Arc::new(mtls::KeyLog::default());
        let sc = server_config(cfg, keylog.clone(), w.sim_time.clone());
        let (smu, cmu) = (cfg.server_max_udp, cfg.client_max_udp);
        let s = w.add_node(1 + cfg.seed, cfg.server_cid_len.unwrap_or(cfg.cid_len), cfg.cid_lifetime, Some(Arc::new(sc)), |e| {
            if let Some(m) = smu {
                e.max_udp_payload_size(m).unwrap();
            }
        });
        let c = w.add_node(2 + cfg.seed, cfg.cid_len, cfg.cid_lifetime, None, |e| {
            if let Some(m) = cmu {
                e.max_udp_payload_size(m).unwrap();
            }
        });
        assert_eq!((s, c), (SERVER, CLIENT));
        if cfg.ipv4 {
            w.nodes[SERVER].addr = addr4(SERVER);
            w.nodes[CLIENT].addr = addr4(CLIENT);
        }
        if cfg.retry {
            w.nodes[SERVER].policy = AcceptPolicy::Retry;
        }
        let cc = client_config(cfg, keylog.clone(), 0xc1);
        pre(&mut w);
        let cch = w.connect(CLIENT, SERVER, cc.clone(), client_app);
        if !w.connect_unsettled {
            w.settle_conn(CLIENT, cch);
        }
        Self { w, keylog, cch, client_cfg: cc, cfg_name: cfg.client.name.clone() }
    }

    pub fn sch(&self) -> Option<ConnectionHandle> {
        self.w.nodes[SERVER]
            .conns
            .keys()
            .next()
            .copied()
            .or_else(|| self.w.nodes[SERVER].dead.first().map(|(c, _)| *c))
    }
    pub fn client(&self) -> &Slot<A> {
        self.w.slot(CLIENT, self.cch).unwrap()
    }
    pub fn client_mut(&mut self) -> &mut Slot<A> {
        self.w.slot_mut(CLIENT, self.cch).unwrap()
    }
    pub fn server(&self) -> Option<&Slot<A>> {
        let ch = self.sch()?;
        self.w.slot(SERVER, ch)
    }
    pub fn server_mut(&mut self) -> Option<&mut Slot<A>> {
        let ch = self.sch()?;
        self.w.slot_mut(SERVER, ch)
    }
}
