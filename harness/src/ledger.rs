//! Ledgers built only from the harness's own view of the wire (independent decoder).

use std::collections::BTreeMap;

use proto::FrameStats;

use crate::sim::Rec as _RecAlias;

use crate::{
    sim::{App, Rec, World},
    wire::{self, PType, WFrame, WPacket},
};

/// Decode one emitted datagram into packets and frames. `peer_cid_len` = CID length of the
/// receiver (needed for short headers).
pub fn decode(data: &[u8], peer_cid_len: usize) -> Vec<(WPacket, Vec<WFrame>)> {
    let (pkts, _) = wire::parse_datagram(data, peer_cid_len);
    pkts.into_iter()
        .map(|p| {
            let fr = match p.ty {
                PType::Retry | PType::VersionNeg => vec![],
                _ => wire::parse_frames(&p.payload).unwrap_or_default(),
            };
            (p, fr)
        })
        .collect()
}

pub fn cid_len_of<A: App>(w: &World<A>, addr: std::net::SocketAddr) -> usize {
    w.nodes.iter().find(|n| n.addr == addr).map_or(8, |n| n.cid_len)
}

/// Frame counts by FrameStats field name
pub fn count_key(f: &WFrame) -> Option<&'static str> {
    Some(match f {
        WFrame::Padding(_) => return None,
        WFrame::Ping => "ping",
        WFrame::Ack(_) => "acks",
        WFrame::ResetStream { .. } => "reset_stream",
        WFrame::StopSending { .. } => "stop_sending",
        WFrame::Crypto { .. } => "crypto",
        WFrame::NewToken(_) => "new_token",
        WFrame::Stream { .. } => "stream",
        WFrame::MaxData(_) => "max_data",
        WFrame::MaxStreamData { .. } => "max_stream_data",
        WFrame::MaxStreams { bidi: true, .. } => "max_streams_bidi",
        WFrame::MaxStreams { bidi: false, .. } => "max_streams_uni",
        WFrame::DataBlocked(_) => "data_blocked",
        WFrame::StreamDataBlocked { .. } => "stream_data_blocked",
        WFrame::StreamsBlocked { bidi: true, .. } => "streams_blocked_bidi",
        WFrame::StreamsBlocked { bidi: false, .. } => "streams_blocked_uni",
        WFrame::NewConnectionId { .. } => "new_connection_id",
        WFrame::RetireConnectionId(_) => "retire_connection_id",
        WFrame::PathChallenge(_) => "path_challenge",
        WFrame::PathResponse(_) => "path_response",
        WFrame::Close { .. } => "connection_close",
        WFrame::HandshakeDone => "handshake_done",
        WFrame::ImmediateAck => "immediate_ack",
        WFrame::AckFrequency { .. } => "ack_frequency",
        WFrame::Datagram { .. } => "datagram",
    })
}

pub fn stats_map(s: &FrameStats) -> BTreeMap<&'static str, u64> {
    let mut m = BTreeMap::new();
    m.insert("acks", s.acks);
    m.insert("ack_frequency", s.ack_frequency);
    m.insert("crypto", s.crypto);
    m.insert("connection_close", s.connection_close);
    m.insert("data_blocked", s.data_blocked);
    m.insert("datagram", s.datagram);
    m.insert("handshake_done", s.handshake_done as u64);
    m.insert("immediate_ack", s.immediate_ack);
    m.insert("max_data", s.max_data);
    m.insert("max_stream_data", s.max_stream_data);
    m.insert("max_streams_bidi", s.max_streams_bidi);
    m.insert("max_streams_uni", s.max_streams_uni);
    m.insert("new_connection_id", s.new_connection_id);
    m.insert("new_token", s.new_token);
    m.insert("path_challenge", s.path_challenge);
    m.insert("path_response", s.path_response);
    m.insert("ping", s.ping);
    m.insert("reset_stream", s.reset_stream);
    m.insert("retire_connection_id", s.retire_connection_id);
    m.insert("stream_data_blocked", s.stream_data_blocked);
    m.insert("streams_blocked_bidi", s.streams_blocked_bidi);
    m.insert("streams_blocked_uni", s.streams_blocked_uni);
    m.insert("stop_sending", s.stop_sending);
    m.insert("stream", s.stream);
    m
}

/// Frames put on the wire by `node` (all its connections), counted by FrameStats field name
pub fn emitted_frame_counts<A: App>(w: &World<A>, node: usize) -> BTreeMap<&'static str, u64> {
    let mut m: BTreeMap<&'static str, u64> = BTreeMap::new();
    for r in &w.recs {
        if let Rec::Emit { node: n, dst, data, .. } = r {
            if *n != node {
                continue;
            }
            let cl = cid_len_of(w, *dst);
            for (_, frames) in decode(data, cl) {
                for f in &frames {
                    if let Some(k) = count_key(f) {
                        *m.entry(k).or_default() += 1;
                    }
                }
            }
        }
    }
    m
}

/// At-most-once oracle: for every frame type, frames processed by the receiver <= frames the
/// sender actually put on the wire. Returns (type, rx, tx) for each excess.
pub fn excess_rx(
    rx: &FrameStats,
    tx_wire: &BTreeMap<&'static str, u64>,
) -> Vec<(&'static str, u64, u64)> {
    let mut out = vec![];
    for (k, v) in stats_map(rx) {
        let t = tx_wire.get(k).copied().unwrap_or(0);
        if v > t {
            out.push((k, v, t));
        }
    }
    out
}

/// Flow-control ledger (C05): per sender, use (from its emitted datagrams) never exceeds
/// credit (from the peer's transport parameters and MAX_* frames in datagrams delivered to it).
pub fn flow_violations(
    p: &crate::scen::StdPair,
    client_params: &[u8],
    server_params: &[u8],
) -> (Vec<(String, String)>, u64) {
    use crate::sim::{CLIENT, SERVER};
    use crate::wire::*;
    let mut out = vec![];
    let mut near = 0u64; // how often use came within one byte/stream of credit (vacuity guard)
    let tp = [
        parse_transport_params(server_params).unwrap_or_default(), // credit for CLIENT comes from server params
        parse_transport_params(client_params).unwrap_or_default(),
    ];
    // index by sender node: SERVER=0 gets client's params, CLIENT=1 gets server's
    let params_for = |sender: usize| if sender == CLIENT { &tp[0] } else { &tp[1] };
    #[derive(Default)]
    struct S {
        max_data: u64,
        msd: BTreeMap<u64, u64>,
        max_streams: [u64; 2], // [bidi, uni]
        used: BTreeMap<u64, u64>,
        seen_streams: [u64; 2],
    }
    let mut st: [S; 2] = [S::default(), S::default()];
    for sender in [SERVER, CLIENT] {
        let t = params_for(sender);
        st[sender].max_data = tp_int(t, TP_MAX_DATA).unwrap_or(0);
        st[sender].max_streams = [tp_int(t, TP_MAX_STREAMS_BIDI).unwrap_or(0), tp_int(t, TP_MAX_STREAMS_UNI).unwrap_or(0)];
    }
    let initial_msd = |sender: usize, id: u64| -> u64 {
        let t = params_for(sender);
        let sender_is_client = sender == CLIENT;
        let initiated_by_sender = sid_client_initiated(id) == sender_is_client;
        if !sid_is_bidi(id) {
            tp_int(t, TP_MSD_UNI).unwrap_or(0)
        } else if initiated_by_sender {
            tp_int(t, TP_MSD_BIDI_REMOTE).unwrap_or(0)
        } else {
            tp_int(t, TP_MSD_BIDI_LOCAL).unwrap_or(0)
        }
    };
    let mut emitted: BTreeMap<u64, (usize, Vec<u8>, std::net::SocketAddr)> = BTreeMap::new();
    for r in &p.w.recs {
        match r {
            Rec::Emit { node, idx, data, dst, ch: Some(_), t, .. } if *node < 2 => {
                emitted.insert(*idx, (*node, data.clone(), *dst));
                let cl = cid_len_of(&p.w, *dst);
                let s = &mut st[*node];
                for (pk, frames) in decode(data, cl) {
                    if pk.ty == PType::ZeroRtt {
                        continue; // 0-RTT is judged against remembered parameters in C17
                    }
                    for f in frames {
                        let (id, end) = match f {
                            WFrame::Stream { id, off, data, .. } => (id, off + data.len() as u64),
                            WFrame::ResetStream { id, final_size, .. } => (id, final_size),
                            _ => continue,
                        };
                        let sender_is_client = *node == CLIENT;
                        if sid_client_initiated(id) == sender_is_client {
                            let d = if sid_is_bidi(id) { 0 } else { 1 };
                            let n = sid_index(id) + 1;
                            s.seen_streams[d] = s.seen_streams[d].max(n);
                            if n == s.max_streams[d] {
                                near += 1;
                            }
                            if n > s.max_streams[d] {
                                out.push((
                                    "stream-count-exceeded".into(),
                                    format!("node{node} at {t:?} used stream {id} (index {}), peer allows {} {} streams", n - 1, s.max_streams[d], if d == 0 { "bidi" } else { "uni" }),
                                ));
                            }
                        }
                        let lim = *s.msd.entry(id).or_insert_with(|| initial_msd(*node, id));
                        let u = s.used.entry(id).or_insert(0);
                        *u = (*u).max(end);
                        if end == lim {
                            near += 1;
                        }
                        if end > lim {
                            out.push(("stream-limit-exceeded".into(), format!("node{node} at {t:?} sent stream {id} up to offset {end}, peer's limit {lim}")));
                        }
                        let total: u64 = s.used.values().sum();
                        if total == s.max_data {
                            near += 1;
                        }
                        if total > s.max_data {
                            out.push(("connection-limit-exceeded".into(), format!("node{node} at {t:?} sent {total} bytes over all streams, peer's connection limit {}", s.max_data)));
                        }
                    }
                }
            }
            Rec::Deliver { node, idx, routed: crate::sim::Routed::Conn(_), .. } if *node < 2 => {
                let Some((from, data, dst)) = emitted.get(idx) else { continue };
                if *from == *node {
                    continue;
                }
                let cl = cid_len_of(&p.w, *dst);
                let s = &mut st[*node];
                for (_, frames) in decode(data, cl) {
                    for f in frames {
                        match f {
                            WFrame::MaxData(v) => s.max_data = s.max_data.max(v),
                            WFrame::MaxStreamData { id, max } => {
                                let init = initial_msd(*node, id);
                                let e = s.msd.entry(id).or_insert(init);
                                *e = (*e).max(max);
                            }
                            WFrame::MaxStreams { bidi, max } => {
                                let d = if bidi { 0 } else { 1 };
                                s.max_streams[d] = s.max_streams[d].max(max);
                            }
                            _ => {}
                        }
                    }
                }
            }
            _ => {}
        }
    }
    out.truncate(6);
    (out, near)
}

/// Disjoint-range set over u64 (half-open), for the send-window ledger
#[derive(Default, Clone)]
struct Ranges(BTreeMap<u64, u64>);
impl Ranges {
    fn insert(&mut self, mut a: u64, mut b: u64) {
        if a >= b {
            return;
        }
        let keys: Vec<u64> = self.0.range(..=b).filter(|(s, e)| **e >= a && **s <= b).map(|(s, _)| *s).collect();
        for k in keys {
            let e = self.0.remove(&k).unwrap();
            a = a.min(k);
            b = b.max(e);
        }
        self.0.insert(a, b);
    }
    fn len(&self) -> u64 {
        self.0.iter().map(|(s, e)| e - s).sum()
    }
    /// |self \ other|
    fn minus_len(&self, other: &Ranges) -> u64 {
        let mut n = 0;
        for (&s, &e) in &self.0 {
            let mut cur = s;
            for (&os, &oe) in other.0.range(..e) {
                if oe <= cur {
                    continue;
                }
                if os > cur {
                    n += os.min(e) - cur;
                }
                cur = cur.max(oe);
                if cur >= e {
                    break;
                }
            }
            if cur < e {
                n += e - cur;
            }
        }
        n
    }
}

/// Send-window ledger (C05): the stream bytes `sender` has put on the wire and that no ACK frame
/// delivered to it has acknowledged yet (streams it reset excluded from the RESET_STREAM on) never
/// exceed `max_window`, the largest send window in effect during the run. Everything is taken
/// from the harness's own decoding of emitted and delivered datagrams. Returns violations and the
/// peak observed.
pub fn send_window_violations(p: &crate::scen::StdPair, sender: usize, max_window: u64) -> (Vec<(String, String)>, u64) {
    use crate::wire::*;
    let mut out = vec![];
    let mut sent: BTreeMap<u64, Ranges> = BTreeMap::new();
    let mut acked: BTreeMap<u64, Ranges> = BTreeMap::new();
    let mut reset: std::collections::BTreeSet<u64> = Default::default();
    let mut by_pn: BTreeMap<u64, Vec<(u64, u64, u64)>> = BTreeMap::new();
    let mut last_pn: Option<u64> = None;
    let mut emitted: BTreeMap<u64, (usize, std::net::SocketAddr)> = BTreeMap::new();
    let mut data_of: BTreeMap<u64, &Vec<u8>> = BTreeMap::new();
    let mut peak = 0u64;
    for r in &p.w.recs {
        match r {
            Rec::Emit { node, idx, data, dst, ch: Some(_), t, .. } => {
                emitted.insert(*idx, (*node, *dst));
                data_of.insert(*idx, data);
                if *node != sender {
                    continue;
                }
                for (pk, frames) in decode(data, cid_len_of(&p.w, *dst)) {
                    if !matches!(pk.ty, PType::Short | PType::ZeroRtt) {
                        continue;
                    }
                    let pn = expand_pn(last_pn, pk.pn_trunc, pk.pn_len);
                    last_pn = Some(last_pn.map_or(pn, |l| l.max(pn)));
                    for f in frames {
                        match f {
                            WFrame::Stream { id, off, data, .. } => {
                                let e = off + data.len() as u64;
                                sent.entry(id).or_default().insert(off, e);
                                by_pn.entry(pn).or_default().push((id, off, e));
                            }
                            WFrame::ResetStream { id, .. } => {
                                reset.insert(id);
                            }
                            _ => {}
                        }
                    }
                }
                let empty = Ranges::default();
                let u: u64 = sent.iter().filter(|(id, _)| !reset.contains(id)).map(|(id, s)| s.minus_len(acked.get(id).unwrap_or(&empty))).sum();
                peak = peak.max(u);
                if u > max_window && out.is_empty() {
                    out.push((
                        "send-window-exceeded".into(),
                        format!("at {t:?} node{sender} has {u} stream bytes on the wire that no delivered ACK covers (streams it reset excluded), its send window never was above {max_window}"),
                    ));
                }
            }
            Rec::Deliver { node, idx, .. } if *node == sender => {
                let Some((from, _)) = emitted.get(idx) else { continue };
                if *from == sender {
                    continue;
                }
                let Some(data) = data_of.get(idx) else { continue };
                let my_cid_len = p.w.nodes[sender].cid_len;
                for (pk, frames) in decode(data, my_cid_len) {
                    if pk.ty != PType::Short {
                        continue;
                    }
                    for f in frames {
                        if let WFrame::Ack(a) = f {
                            for (lo, hi) in a.ranges {
                                for (_, v) in by_pn.range(lo..=hi) {
                                    for (id, s, e) in v {
                                        acked.entry(*id).or_default().insert(*s, *e);
                                    }
                                }
                            }
                        }
                    }
                }
            }
            _ => {}
        }
    }
    let _ = Ranges::len;
    (out, peak)
}
