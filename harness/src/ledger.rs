//! Ledgers built only from the harness's own view of the wire (independent decoder).

use std::collections::BTreeMap;

use proto::FrameStats;

use crate::{
    sim::{App, Rec, World},
    wire::{self, PType, WFrame, WPacket},
};

/// Decode one emitted datagram into packets and frames. `peer_cid_len` = CID length of the
/// receiver (needed for short headers).
pub fn decode(data: &[u8], peer_cid_len: usize) -> Vec<(WPacket, Vec<WFrame>)> {
    let (pkts, _) = wire::parse_datagram(data, peer_cid_len);
    pkts.into_iter()
        .map(|p| {
            let fr = match p.ty {
                PType::Retry | PType::VersionNeg => vec![],
                _ => wire::parse_frames(&p.payload).unwrap_or_default(),
            };
            (p, fr)
        })
        .collect()
}

pub fn cid_len_of<A: App>(w: &World<A>, addr: std::net::SocketAddr) -> usize {
    w.nodes.iter().find(|n| n.addr == addr).map_or(8, |n| n.cid_len)
}

/// Frame counts by FrameStats field name
pub fn count_key(f: &WFrame) -> Option<&'static str> {
    Some(match f {
        WFrame::Padding(_) => return None,
        WFrame::Ping => "ping",
        WFrame::Ack(_) => "acks",
        WFrame::ResetStream { .. } => "reset_stream",
        WFrame::StopSending { .. } => "stop_sending",
        WFrame::Crypto { .. } => "crypto",
        WFrame::NewToken(_) => "new_token",
        WFrame::Stream { .. } => "stream",
        WFrame::MaxData(_) => "max_data",
        WFrame::MaxStreamData { .. } => "max_stream_data",
        WFrame::MaxStreams { bidi: true, .. } => "max_streams_bidi",
        WFrame::MaxStreams { bidi: false, .. } => "max_streams_uni",
        WFrame::DataBlocked(_) => "data_blocked",
        WFrame::StreamDataBlocked { .. } => "stream_data_blocked",
        WFrame::StreamsBlocked { bidi: true, .. } => "streams_blocked_bidi",
        WFrame::StreamsBlocked { bidi: false, .. } => "streams_blocked_uni",
        WFrame::NewConnectionId { .. } => "new_connection_id",
        WFrame::RetireConnectionId(_) => "retire_connection_id",
        WFrame::PathChallenge(_) => "path_challenge",
        WFrame::PathResponse(_) => "path_response",
        WFrame::Close { .. } => "connection_close",
        WFrame::HandshakeDone => "handshake_done",
        WFrame::ImmediateAck => "immediate_ack",
        WFrame::AckFrequency { .. } => "ack_frequency",
        WFrame::Datagram { .. } => "datagram",
    })
}

pub fn stats_map(s: &FrameStats) -> BTreeMap<&'static str, u64> {
    let mut m = BTreeMap::new();
    m.insert("acks", s.acks);
    m.insert("ack_frequency", s.ack_frequency);
    m.insert("crypto", s.crypto);
    m.insert("connection_close", s.connection_close);
    m.insert("data_blocked", s.data_blocked);
    m.insert("datagram", s.datagram);
    m.insert("handshake_done", s.handshake_done as u64);
    m.insert("immediate_ack", s.immediate_ack);
    m.insert("max_data", s.max_data);
    m.insert("max_stream_data", s.max_stream_data);
    m.insert("max_streams_bidi", s.max_streams_bidi);
    m.insert("max_streams_uni", s.max_streams_uni);
    m.insert("new_connection_id", s.new_connection_id);
    m.insert("new_token", s.new_token);
    m.insert("path_challenge", s.path_challenge);
    m.insert("path_response", s.path_response);
    m.insert("ping", s.ping);
    m.insert("reset_stream", s.reset_stream);
    m.insert("retire_connection_id", s.retire_connection_id);
    m.insert("stream_data_blocked", s.stream_data_blocked);
    m.insert("streams_blocked_bidi", s.streams_blocked_bidi);
    m.insert("streams_blocked_uni", s.streams_blocked_uni);
    m.insert("stop_sending", s.stop_sending);
    m.insert("stream", s.stream);
    m
}

/// Frames put on the wire by `node` (all its connections), counted by FrameStats field name
pub fn emitted_frame_counts<A: App>(w: &World<A>, node: usize) -> BTreeMap<&'static str, u64> {
    let mut m: BTreeMap<&'static str, u64> = BTreeMap::new();
    for r in &w.recs {
        if let Rec::Emit { node: n, dst, data, .. } = r {
            if *n != node {
                continue;
            }
            let cl = cid_len_of(w, *dst);
            for (_, frames) in decode(data, cl) {
                for f in &frames {
                    if let Some(k) = count_key(f) {
                        *m.entry(k).or_default() += 1;
                    }
                }
            }
        }
    }
    m
}

/// At-most-once oracle: for every frame type, frames processed by the receiver <= frames the
/// sender actually put on the wire. Returns (type, rx, tx) for each excess.
pub fn excess_rx(
    rx: &FrameStats,
    tx_wire: &BTreeMap<&'static str, u64>,
) -> Vec<(&'static str, u64, u64)> {
    let mut out = vec![];
    for (k, v) in stats_map(rx) {
        let t = tx_wire.get(k).copied().unwrap_or(0);
        if v > t {
            out.push((k, v, t));
        }
    }
    out
}
