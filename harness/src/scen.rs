//! Shared scenario vocabulary: workloads, configuration lists, completion and integrity oracles.

use std::time::{Duration, Instant};

use proto::{Dir, Side};

use crate::{
    app::{End, Plan, ReadMode, StdApp, StreamPlan},
    sim::{Ctl, Mtud, Pair, PairCfg, CLIENT, SERVER},
};

#[derive(Debug, Clone, Copy, PartialEq, Eq, Hash, PartialOrd, Ord)]
pub enum Wl {
    /// one uni stream, 5000 bytes in three writes, finish
    W1,
    /// two uni + one bidi interleaved, bidi echoes
    W2,
    /// request/response x3 on fresh bidi streams (use with stream limit 1)
    W3,
    /// write then reset; peer stops another stream mid-transfer
    W4,
    /// datagrams of assorted sizes mixed with W1
    W5,
    /// bulk 60 kB (use with a tiny window)
    W6,
    /// handshake only
    W0,
    /// server-to-client uni stream 5000 bytes plus client-to-server 3000
    W8,
    /// empty and one-byte streams (FIN-only frames), both directions
    W9,
    /// long transfer (40 kB) that the receiver stops early
    W10,
    /// two short streams whose FIN is sent later than the data, in a frame of its own
    W11,
    /// the receiver stops the first stream early; the sender abandons it and goes on with three
    /// more streams (with a small stream limit they reuse what the stopped stream released)
    W12,
    /// a burst of datagrams near the largest size a 1452-byte path takes, then small ones
    W13,
    W14,
    /// download: the server sends 60 kB, the client only acknowledges
    W15,
    /// pairs of application datagrams (500 bytes, then every size 560..=720) queued at once: the second
    /// of a pair fits behind the first, fits only without its length field, or does not fit
    W16,
}

pub fn plans(w: Wl, read: ReadMode) -> (Plan, Plan) {
    let uni = |len, chunk| StreamPlan { dir: Dir::Uni, len, chunk, end: End::Finish };
    let bi = |len, chunk| StreamPlan { dir: Dir::Bi, len, chunk, end: End::Finish };
    let mut c = Plan { read, ..Default::default() };
    let mut s = Plan { read, ..Default::default() };
    match w {
        Wl::W0 => {}
        Wl::W1 => c.streams = vec![uni(5000, 1700)],
        Wl::W2 => {
            c.streams = vec![uni(3000, 900), bi(2500, 1200), uni(1800, 1800)];
            s.echo_len = Some(2200);
        }
        Wl::W3 => {
            c.streams = vec![bi(700, 700), bi(900, 400), bi(300, 300)];
            c.await_response = true;
            s.echo_len = Some(1100);
        }
        Wl::W4 => {
            c.streams = vec![
                StreamPlan { dir: Dir::Uni, len: 4000, chunk: 1000, end: End::Reset { after: 2000, code: 77 } },
                uni(6000, 1500),
            ];
            s.stop = Some((1, 1500, 99));
        }
        Wl::W5 => {
            c.streams = vec![uni(5000, 1700)];
            c.datagrams = vec![10, 300, 1100, 1, 700, 50];
            s.datagrams = vec![20, 900];
        }
        Wl::W6 => c.streams = vec![uni(60_000, 8000)],
        Wl::W11 => {
            c.streams = vec![
                StreamPlan { dir: Dir::Uni, len: 2600, chunk: 1300, end: End::FinishLater(2) },
                StreamPlan { dir: Dir::Bi, len: 1500, chunk: 1500, end: End::FinishLater(1) },
            ];
            s.echo_len = Some(900);
        }
        Wl::W12 => {
            c.streams = vec![uni(3000, 600), uni(2000, 2000), bi(1500, 700), uni(1000, 1000)];
            c.reset_on_stopped = true;
            s.stop = Some((0, 500, 55));
            s.echo_len = Some(700);
        }
        Wl::W13 => {
            c.streams = vec![uni(3000, 1000)];
            c.datagrams = vec![1400; 44];
            c.datagrams.extend([100, 60, 1100]);
        }
        Wl::W14 => {
            // datagrams of which two never share a packet: a small frame in front of one leaves a
            // packet well below 1200 bytes with more datagrams waiting
            c.streams = vec![uni(3000, 1000)];
            c.datagrams = vec![720; 30];
        }
        Wl::W15 => s.streams = vec![uni(60_000, 8000)],
        Wl::W16 => {
            c.streams = vec![uni(1000, 1000)];
            c.datagrams = (560..=720).flat_map(|d| [500usize, d]).collect();
        }
        Wl::W10 => {
            c.streams = vec![uni(40_000, 4000)];
            s.stop = Some((0, 2500, 55));
        }
        Wl::W9 => {
            c.streams = vec![uni(0, 1), uni(1, 1), bi(0, 1), uni(1300, 1300)];
            s.echo_len = Some(0);
            s.streams = vec![uni(0, 1)];
        }
        Wl::W8 => {
            c.streams = vec![uni(3000, 1000)];
            s.streams = vec![uni(5000, 1300)];
        }
    }
    (c, s)
}

pub type StdPair = Pair<StdApp>;

pub fn std_pair(base: Instant, cfg: &PairCfg, w: Wl, read: ReadMode) -> StdPair {
    std_pair_pre(base, cfg, w, read, |_| {})
}

pub fn std_pair_pre(
    base: Instant,
    cfg: &PairCfg,
    w: Wl,
    read: ReadMode,
    pre: impl FnOnce(&mut crate::sim::World<StdApp>),
) -> StdPair {
    let (cp, sp) = plans(w, read);
    Pair::new_pre(
        base,
        cfg,
        StdApp::new(Side::Client, cp),
        Box::new(move |_, _| StdApp::new(Side::Server, sp.clone())),
        pre,
    )
}

pub fn std_pair_plans(base: Instant, cfg: &PairCfg, cp: Plan, sp: Plan) -> StdPair {
    Pair::new(
        base,
        cfg,
        StdApp::new(Side::Client, cp),
        Box::new(move |_, _| StdApp::new(Side::Server, sp.clone())),
    )
}

/// True once every planned exchange has finished from both applications' point of view
pub fn workload_done(p: &StdPair) -> bool {
    let c = &p.client().app;
    let Some(ss) = p.server() else { return false };
    let s = &ss.app;
    if !c.obs.connected || !s.obs.connected {
        return false;
    }
    if !c.tx_complete() || !s.tx_complete() {
        return false;
    }
    fn rx_ok(txs: &StdApp, rxs: &StdApp) -> bool {
        for (sid, t) in &txs.obs.tx {
            let Some(r) = rxs.obs.rx.get(sid) else {
                if t.target == 0 && !t.finish_called {
                    continue;
                }
                return false;
            };
            let term = r.fin || r.reset.is_some() || r.stopped_by_us || r.closed_err;
            if !term {
                return false;
            }
        }
        true
    }
    rx_ok(c, s) && rx_ok(s, c)
}

/// Integrity oracle (C01) over what both applications observed. Returns violations.
pub fn integrity(p: &StdPair) -> Vec<(String, String)> {
    let mut out = vec![];
    let c = &p.client().app;
    for v in &c.obs.violations {
        out.push(("app-oracle".to_string(), format!("client: {v}")));
    }
    let Some(ss) = p.server() else { return out };
    let s = &ss.app;
    for v in &s.obs.violations {
        out.push(("app-oracle".to_string(), format!("server: {v}")));
    }
    for (txs, rxs, who) in [(c, s, "c->s"), (s, c, "s->c")] {
        for (sid, r) in &rxs.obs.rx {
            let Some(t) = txs.obs.tx.get(sid) else {
                if r.bytes > 0 || r.fin {
                    out.push(("rx-without-tx".into(), format!("{who} stream {sid}: received {} bytes never written", r.bytes)));
                }
                continue;
            };
            if r.bytes > t.written {
                out.push(("rx-more-than-written".into(), format!("{who} stream {sid}: obtained {} bytes, written {}", r.bytes, t.written)));
            }
            if r.fin {
                if !t.finish_called {
                    out.push(("fin-without-finish".into(), format!("{who} stream {sid}: end of stream reported but finish() never called")));
                }
                if r.bytes != t.written {
                    out.push(("fin-before-all-data".into(), format!("{who} stream {sid}: end of stream after {} bytes, {} written", r.bytes, t.written)));
                }
            }
            if let Some(code) = r.reset {
                if t.reset_called.map(|c| c as u64) != Some(code) {
                    out.push(("reset-code".into(), format!("{who} stream {sid}: reset code {code} reported, sender reset {:?}", t.reset_called)));
                }
            }
            // chunks must be disjoint (covers ordered too)
            let mut ch = r.chunks.clone();
            ch.sort();
            for w in ch.windows(2) {
                if w[0].0 + w[0].1 > w[1].0 {
                    out.push(("dup-bytes".into(), format!("{who} stream {sid}: chunks {:?} and {:?} overlap", w[0], w[1])));
                    break;
                }
            }
        }
        // datagrams: each received datagram equals one sent, tags at most once
        let mut seen = std::collections::BTreeSet::new();
        for d in &rxs.obs.dgrams_rx {
            if d.len() < 2 {
                // sizes 1: tag byte only
                let ok = txs.obs.dgrams_tx.iter().any(|(tag, len, st)| st == "ok" && *len == d.len() && crate::app::dgram_payload(*tag, *len) == *d);
                if !ok {
                    out.push(("dgram-corrupt".into(), format!("{who}: received datagram {:?} that was never sent", d)));
                }
                continue;
            }
            let tag = ((d[0] as u16) << 8) | d[1] as u16;
            let sent = txs.obs.dgrams_tx.iter().find(|(t, _, st)| *t == tag && st == "ok");
            match sent {
                Some((_, len, _)) if crate::app::dgram_payload(tag, *len) == *d => {}
                _ => out.push(("dgram-corrupt".into(), format!("{who}: received datagram tag {tag} len {} not identical to one sent", d.len()))),
            }
            if !seen.insert(tag) {
                out.push(("dgram-dup".into(), format!("{who}: datagram tag {tag} delivered twice")));
            }
        }
    }
    // datagram send-queue accounting: an empty queue accounts for zero bytes, and the reported free
    // space is the configured bound minus what is accounted
    for (node, who) in [(CLIENT, "client"), (SERVER, "server")] {
        for sl in p.w.nodes[node].conns.values() {
            let pr = sl.conn.verif_probe();
            if pr.datagram_outgoing == 0 && pr.datagram_outgoing_total != 0 {
                out.push(("dgram-accounting".into(), format!("{who}: the datagram send queue is empty but accounts for {} bytes", pr.datagram_outgoing_total)));
            }
        }
    }
    out
}

/// Completion oracle: everything planned was fully delivered and acknowledged. Returns violations.
pub fn completion(p: &StdPair) -> Vec<(String, String)> {
    let mut out = vec![];
    let c = &p.client().app;
    let Some(ss) = p.server() else {
        return vec![("no-server-conn".into(), "server never created a connection".into())];
    };
    let s = &ss.app;
    if !c.obs.connected {
        out.push(("not-connected".into(), "client never saw Connected".into()));
    }
    if !s.obs.connected {
        out.push(("not-connected".into(), "server never saw Connected".into()));
    }
    for (a, who) in [(c, "client"), (s, "server")] {
        if !a.obs.lost.is_empty() {
            out.push(("lost".into(), format!("{who} lost the connection: {:?}", a.obs.lost)));
        }
    }
    for (txs, rxs, who) in [(c, s, "c->s"), (s, c, "s->c")] {
        for (sid, t) in &txs.obs.tx {
            if t.finish_called && t.stopped_events.is_empty() {
                if t.finished_events != 1 {
                    out.push(("finished-event".into(), format!("{who} stream {sid}: finish() called, Finished events = {}", t.finished_events)));
                }
                match rxs.obs.rx.get(sid) {
                    Some(r) if r.stopped_by_us || r.closed_err => {}
                    Some(r) if r.fin && r.bytes == t.written => {}
                    Some(r) => out.push(("undelivered".into(), format!("{who} stream {sid}: written {} finished, receiver obtained {} fin={}", t.written, r.bytes, r.fin))),
                    None => out.push(("undelivered".into(), format!("{who} stream {sid}: written {} finished, receiver never saw the stream", t.written))),
                }
            } else if !t.done_writing && t.stopped_events.is_empty() && !t.closed_err {
                out.push(("write-stalled".into(), format!("{who} stream {sid}: wrote {} of {} (blocked={})", t.written, t.target, t.blocked)));
            }
        }
        if txs.plan.streams.len() != txs.obs.tx.values().filter(|t| t.plan_idx.is_some()).count() {
            out.push(("open-stalled".into(), format!("{who}: opened {} of {} planned streams", txs.obs.tx.values().filter(|t| t.plan_idx.is_some()).count(), txs.plan.streams.len())));
        }
    }
    out
}

/// Human-readable diagnosis of what is blocked (for stall reports)
pub fn diagnose(p: &StdPair) -> String {
    let mut s = String::new();
    for (node, name) in [(CLIENT, "client"), (SERVER, "server")] {
        for (ch, slot) in &p.w.nodes[node].conns {
            let pr = slot.conn.verif_probe();
            s += &format!(
                "{name}#{}: state={} in_flight={}B/{} cwnd={} pto_count={} timers={:?} validated={} sent={} recvd={} max_data={} data_sent={} unacked={} next={:?} max={:?}; ",
                ch.0, pr.state, pr.in_flight_bytes, pr.in_flight_ack_eliciting, pr.cwnd, pr.pto_count,
                pr.timers.iter().map(|(n, t)| (*n, t.saturating_duration_since(p.w.base))).collect::<Vec<_>>(),
                pr.path_validated, pr.path_total_sent, pr.path_total_recvd,
                pr.streams.max_data, pr.streams.data_sent, pr.streams.unacked_data, pr.streams.next, pr.streams.max
            );
        }
    }
    s
}

/// Configuration list used by progress-type checks. Every entry names what it stresses.
pub fn cfg_list(full: bool) -> Vec<PairCfg> {
    let mut v: Vec<PairCfg> = vec![];
    let mk = |name: &str, f: &dyn Fn(&mut PairCfg)| {
        let mut c = PairCfg::default();
        c.client.name = name.to_string();
        f(&mut c);
        c
    };
    v.push(mk("default", &|_| {}));
    v.push(mk("lat0", &|c| c.latency = Duration::ZERO));
    v.push(mk("lat1", &|c| c.latency = Duration::from_millis(1)));
    v.push(mk("lat200", &|c| c.latency = Duration::from_millis(200)));
    v.push(mk("tinywin", &|c| {
        c.server.recv_window = Some(1200);
        c.server.stream_recv_window = Some(600);
    }));
    // only the connection-level window binds: every further byte depends on a MAX_DATA frame
    v.push(mk("connwin1500", &|c| c.server.recv_window = Some(1500)));
    v.push(mk("win63", &|c| {
        c.server.stream_recv_window = Some(63);
        c.server.recv_window = Some(16383);
    }));
    v.push(mk("sendwin2000", &|c| c.client.send_window = Some(2000)));
    v.push(mk("streams1", &|c| {
        c.server.max_bidi = Some(1);
        c.server.max_uni = Some(1);
    }));
    v.push(mk("newreno", &|c| {
        c.client.controller = Ctl::NewReno;
        c.server.controller = Ctl::NewReno;
    }));
    v.push(mk("bbr", &|c| {
        c.client.controller = Ctl::Bbr;
        c.server.controller = Ctl::Bbr;
    }));
    v.push(mk("fixed3mtu", &|c| c.client.controller = Ctl::Fixed(3 * 1200)));
    v.push(mk("pacing50k", &|c| c.client.pacing_cap = Some(50_000)));
    v.push(mk("padmtu", &|c| {
        c.client.pad_to_mtu = true;
        c.server.pad_to_mtu = true;
    }));
    v.push(mk("ackfreq", &|c| {
        c.client.ack_freq = true;
        c.server.ack_freq = true;
    }));
    v.push(mk("mtudoff", &|c| {
        c.client.mtud = Mtud::Off;
        c.server.mtud = Mtud::Off;
    }));
    v.push(mk("mtu1452", &|c| {
        c.client.initial_mtu = 1452;
        c.server.initial_mtu = 1452;
    }));
    v.push(mk("gso1", &|c| c.max_datagrams = 1));
    v.push(mk("cid0", &|c| c.cid_len = 0));
    v.push(mk("cid20", &|c| c.cid_len = 20));
    v.push(mk("cidlife", &|c| c.cid_lifetime = Some(Duration::from_millis(200))));
    v.push(mk("retry", &|c| c.retry = true));
    v.push(mk("cert500", &|c| c.cert_len = 500));
    v.push(mk("cert10k", &|c| c.cert_len = 10_000));
    v.push(mk("nopace", &|c| {
        // a huge fixed window: the pacer always has tokens, so send instants do not depend on
        // when poll_transmit happens to be called
        c.client.controller = Ctl::Fixed(1_000_000_000);
        c.server.controller = Ctl::Fixed(1_000_000_000);
    }));
    v.push(mk("idle30s", &|c| {
        c.client.idle_ms = Some(30_000);
        c.server.idle_ms = Some(20_000);
    }));
    v.push(mk("keepalive", &|c| {
        c.client.keep_alive_ms = Some(1000);
        c.server.keep_alive_ms = Some(1000);
    }));
    // a rate-capped BBR sender on a path whose bandwidth-delay product is below one datagram
    v.push(mk("bbr+pacing60k", &|c| {
        c.client.controller = Ctl::Bbr;
        c.client.pacing_cap = Some(60_000);
    }));
    // streams served one after the other instead of round-robin
    v.push(mk("unfair", &|c| {
        c.client.send_fairness = false;
        c.server.send_fairness = false;
    }));
    if full {
        v.push(mk("tinywin+lat200", &|c| {
            c.latency = Duration::from_millis(200);
            c.server.recv_window = Some(1200);
            c.server.stream_recv_window = Some(600);
        }));
        v.push(mk("cert10k+retry", &|c| {
            c.cert_len = 10_000;
            c.retry = true;
        }));
        v.push(mk("ackfreq+bbr", &|c| {
            c.client.ack_freq = true;
            c.server.ack_freq = true;
            c.client.controller = Ctl::Bbr;
            c.server.controller = Ctl::Bbr;
        }));
        v.push(mk("cid4+gso1", &|c| {
            c.cid_len = 4;
            c.max_datagrams = 1;
        }));
        v.push(mk("pacing50k+padmtu", &|c| {
            c.client.pacing_cap = Some(50_000);
            c.client.pad_to_mtu = true;
        }));
        v.push(mk("mtu9000", &|c| {
            c.client.mtud = Mtud::Upper(9000);
            c.server.mtud = Mtud::Upper(9000);
        }));
        v.push(mk("sendwin2000+tinywin", &|c| {
            c.client.send_window = Some(2000);
            c.server.recv_window = Some(1200);
            c.server.stream_recv_window = Some(600);
        }));
        v.push(mk("lat25+newreno+ackfreq", &|c| {
            c.latency = Duration::from_millis(25);
            c.client.controller = Ctl::NewReno;
            c.client.ack_freq = true;
            c.server.ack_freq = true;
        }));
    }
    v
}

/// Operations a check can interleave with the run at a given step index
#[derive(Debug, Clone, PartialEq)]
pub enum Op {
    KeyUpdate(usize),
    Ping(usize),
    SetRecvWindow(usize, u64),
    SetSendWindow(usize, u64),
    SetMaxStreams(usize, Dir, u64),
    PathChanged(usize),
    LocalAddrChanged(usize),
    Close(usize, u32),
    /// close with a reason phrase of this many bytes (longer than any packet: it must be truncated)
    CloseLong(usize, u32, usize),
    LinkMtu(usize),
    Blackhole(usize),
    /// Rewrite the source address of everything the node emits from now on
    Rebind(usize, std::net::SocketAddr),
    /// Spurious driver calls
    SpuriousTimeout(usize),
    SpuriousPollTransmit(usize),
    MaxDatagrams(usize),
    /// Extra settle round: poll_transmit, poll_timeout, poll_endpoint_events, poll
    SpuriousSettle(usize),
    /// Mark every datagram emitted from now on (that carries ECT) as CE
    CeFrom(u64),
    /// Accept every held Incoming of the server and stop holding
    AcceptHeld,
    /// An attacker's copy of the next datagram the client emits reaches the server from the given
    /// (never answering) address just ahead of the original: the server starts validating that path
    SpoofedCopy(std::net::SocketAddr),
    /// The same with a large datagram: the client application sends a 1000-byte application datagram
    /// and the datagram carrying it is copied
    SpoofedCopyBig(std::net::SocketAddr),
    /// A short-header datagram of the given length for a connection ID nobody has, from a foreign
    /// address, reaches the node's endpoint (it answers with a stateless reset if long enough)
    Unroutable(usize, usize),
}

pub fn apply_op(p: &mut StdPair, op: &Op) {
    use proto::VarInt;
    let now = p.w.now();
    let chs = [p.sch(), Some(p.cch)];
    let node_conn = |p: &mut StdPair, node: usize| -> Option<proto::ConnectionHandle> {
        let ch = chs[node]?;
        p.w.nodes[node].conns.contains_key(&ch).then_some(ch)
    };
    match op {
        Op::LinkMtu(m) => {
            p.w.link_mtu = *m;
            return;
        }
        Op::Blackhole(n) => {
            p.w.blackhole[*n] = true;
            return;
        }
        Op::Rebind(n, a) => {
            let from = p.w.emitted;
            p.w.src_rewrite.push((*n, from, *a));
            p.w.aliases.push((*a, *n));
            return;
        }
        Op::MaxDatagrams(n) => {
            p.w.max_datagrams = *n;
            return;
        }
        Op::SpoofedCopy(fake) | Op::SpoofedCopyBig(fake) => {
            use crate::sim::Rec;
            let before = p.w.recs.len();
            let big = matches!(op, Op::SpoofedCopyBig(_));
            if big {
                if let Some(ch) = node_conn(p, CLIENT) {
                    let _ = p.w.nodes[CLIENT].conns.get_mut(&ch).unwrap().conn.datagrams().send(bytes::Bytes::from(vec![0x5a; 1000]), true);
                    p.w.settle_conn(CLIENT, ch);
                }
            } else {
                apply_op(p, &Op::Ping(CLIENT));
            }
            let copy = p.w.recs[before..].iter().find_map(|r| match r {
                Rec::Emit { node, data, idx, .. } if *node == CLIENT && (!big || data.len() >= 900) => Some((data.clone(), *idx)),
                _ => None,
            });
            if let Some((data, idx)) = copy {
                let at_orig = p.w.net.iter().find(|f| f.idx == idx).map(|f| f.at);
                let lat = p.w.latency;
                let saddr = p.w.nodes[SERVER].addr;
                let after = lat.saturating_sub(Duration::from_micros(500)).max(Duration::from_micros(1)).min(at_orig.map_or(lat, |x| x.saturating_sub(p.w.t)));
                p.w.inject(*fake, saddr, data, after);
            }
            return;
        }
        Op::Unroutable(n, len) => {
            let mut d: Vec<u8> = (0..*len).map(|i| (i as u8).wrapping_mul(37).wrapping_add(11)).collect();
            if let Some(b) = d.first_mut() {
                *b = 0x40 | (*b & 0x3f);
            }
            let dst = p.w.nodes[*n].addr;
            p.w.inject(crate::sim::addr(13), dst, d, Duration::from_micros(1));
            return;
        }
        Op::AcceptHeld => {
            use crate::sim::AcceptPolicy;
            let pol = p.w.nodes[SERVER].policy;
            p.w.nodes[SERVER].policy = if pol == AcceptPolicy::RetryHold { AcceptPolicy::Retry } else { AcceptPolicy::Accept };
            while p.w.accept_held(SERVER).is_some() {}
            return;
        }
        Op::CeFrom(count) => {
            let from = p.w.emitted;
            for i in from..from + *count {
                p.w.ce_marks.insert(i);
            }
            return;
        }
        _ => {}
    }
    let node = match op {
        Op::KeyUpdate(n) | Op::Ping(n) | Op::SetRecvWindow(n, _) | Op::SetSendWindow(n, _)
        | Op::SetMaxStreams(n, _, _) | Op::PathChanged(n) | Op::LocalAddrChanged(n)
        | Op::Close(n, _) | Op::CloseLong(n, _, _) | Op::SpuriousTimeout(n) | Op::SpuriousPollTransmit(n) | Op::SpuriousSettle(n) => *n,
        _ => unreachable!(),
    };
    let Some(ch) = node_conn(p, node) else { return };
    {
        let conn = &mut p.w.nodes[node].conns.get_mut(&ch).unwrap().conn;
        match op {
            Op::KeyUpdate(_) => conn.force_key_update(),
            Op::Ping(_) => conn.ping(),
            Op::SetRecvWindow(_, w) => conn.set_receive_window(VarInt::from_u64(*w).unwrap()),
            Op::SetSendWindow(_, w) => conn.set_send_window(*w),
            Op::SetMaxStreams(_, d, c) => conn.set_max_concurrent_streams(*d, VarInt::from_u64(*c).unwrap()),
            Op::PathChanged(_) => conn.path_changed(now),
            Op::LocalAddrChanged(_) => conn.local_address_changed(),
            Op::Close(_, code) => conn.close(now, VarInt::from_u32(*code), bytes::Bytes::from_static(b"bye")),
            Op::CloseLong(_, code, len) => conn.close(now, VarInt::from_u32(*code), bytes::Bytes::from(vec![b'r'; *len])),
            Op::SpuriousTimeout(_) => conn.handle_timeout(now),
            Op::SpuriousPollTransmit(_) | Op::SpuriousSettle(_) => {
                let _ = conn.poll_timeout();
            }
            _ => {}
        }
    }
    p.w.settle_conn(node, ch);
}

/// Run the pair until the workload is done (or a bound), applying scripted operations when
/// the step counter reaches their index. Returns true if the workload completed.
pub fn drive(p: &mut StdPair, script: &[(u64, Op)], max_steps: u64, horizon: Duration) -> bool {
    let mut next = 0;
    let mut script: Vec<(u64, Op)> = script.to_vec();
    script.sort_by_key(|x| x.0);
    loop {
        while next < script.len() && script[next].0 <= p.w.steps {
            let op = script[next].1.clone();
            apply_op(p, &op);
            next += 1;
        }
        if next >= script.len() && workload_done(p) {
            return true;
        }
        if p.w.steps >= max_steps {
            return workload_done(p);
        }
        match p.w.next_event() {
            None => return workload_done(p),
            Some((at, _)) if at > horizon => return workload_done(p),
            _ => {}
        }
        p.w.step();
    }
}

pub fn wl_from_str(s: &str) -> Wl {
    match s {
        "W0" => Wl::W0,
        "W1" => Wl::W1,
        "W2" => Wl::W2,
        "W3" => Wl::W3,
        "W4" => Wl::W4,
        "W5" => Wl::W5,
        "W6" => Wl::W6,
        "W8" => Wl::W8,
        "W9" => Wl::W9,
        "W10" => Wl::W10,
        "W15" => Wl::W15,
        "W16" => Wl::W16,
        "W11" => Wl::W11,
        "W12" => Wl::W12,
        "W13" => Wl::W13,
        "W14" => Wl::W14,
        _ => crate::report::machinery(&format!("unknown workload {s}")),
    }
}

pub fn cfg_by_name(name: &str) -> PairCfg {
    cfg_list(true)
        .into_iter()
        .find(|c| c.client.name == name)
        .unwrap_or_else(|| crate::report::machinery(&format!("unknown cfg {name}")))
}

/// A scenario for deviation-bounded exploration
#[derive(Clone)]
pub struct ECase {
    pub name: String,
    pub cfg: PairCfg,
    pub cp: Plan,
    pub sp: Plan,
    pub script: Vec<(u64, Op)>,
    pub window: (u64, u64),
    pub max_steps: u64,
    pub horizon: Duration,
}

pub fn ecase_pair(base: Instant, c: &ECase, devs: &crate::explore::Devs, alts: &[crate::sim::Fate], keep_data: bool) -> (StdPair, bool) {
    let (cp, sp) = (c.cp.clone(), c.sp.clone());
    let mut p = Pair::new_pre(
        base,
        &c.cfg,
        StdApp::new(Side::Client, cp),
        Box::new(move |_, _| StdApp::new(Side::Server, sp.clone())),
        |w| {
            w.fates = crate::explore::fates_of(devs, alts);
            w.keep_data = keep_data;
            w.probe_pre = keep_data;
        },
    );
    let done = drive(&mut p, &c.script, c.max_steps, c.horizon);
    // deliver whatever is still in flight (late duplicates, delayed originals) so that
    // exactly-once oracles see it
    let limit = p.w.t + Duration::from_secs(5);
    let mut n = 0;
    while done && !p.w.net.is_empty() && n < 3000 {
        match p.w.next_event() {
            Some((at, _)) if at <= limit => {
                p.w.step();
                n += 1;
            }
            _ => break,
        }
    }
    (p, done)
}

/// Run E2 over a list of cases with a per-execution oracle; fills the report.
pub fn e2_cases(
    rep: &mut crate::report::Report,
    check: &str,
    cases: &[ECase],
    k: usize,
    alts: &[crate::sim::Fate],
    dl: Instant,
    keep_data: bool,
    oracle: &(dyn Fn(&StdPair, bool) -> (Vec<(String, String)>, u64) + Sync),
) -> (u64, u64) {
    use crate::explore::{e2, guarded, Devs, RunOut};
    let base = Instant::now();
    let mut total = 0u64;
    let mut notes = 0u64;
    let mut per_case = vec![];
    let mut capped_any = false;
    for c in cases {
        let r = e2(
            |d: &Devs| match guarded(|| {
                let (p, done) = ecase_pair(base, c, d, alts, keep_data);
                let (v, note) = oracle(&p, done);
                RunOut { points: p.w.emitted, trace: p.w.trace_hash(), violation: v.into_iter().next(), note }
            }) {
                Ok(o) => o,
                Err(e) => RunOut { points: 0, trace: 0, violation: Some(("panic".into(), format!("panic: {e}"))), note: 0 },
            },
            c.window,
            alts.len() as u16,
            k,
            dl,
        );
        total += r.executions;
        capped_any |= r.capped;
        let b = r.outs[0].1.trace;
        for (d, o) in &r.outs {
            rep.evaluations += 1;
            notes += o.note;
            if o.trace != b {
                rep.distinct.insert(o.trace);
            }
            if let Some((sig, what)) = &o.violation {
                rep.violation(crate::report::Violation {
                    signature: sig.clone(),
                    what: format!("case={} deviations={d:?}: {what}", c.name),
                    replay: serde_json::json!({"check": check, "case": c.name, "devs": d, "alts_len": alts.len()}),
                });
            }
        }
        per_case.push(serde_json::json!({"case": c.name, "executions": r.executions, "per_k": r.per_k, "k_completed": r.k_completed}));
        if r.capped {
            break;
        }
    }
    if capped_any {
        rep.exhaustive = false;
    }
    rep.part("e2", serde_json::json!({"k": k, "cases": cases.len(), "executions": total, "capped": capped_any, "alts": format!("{alts:?}"), "per_case": per_case}));
    (total, notes)
}

pub fn replay_ecase(cases: &[ECase], args: &crate::report::Args, _alts: &[crate::sim::Fate], oracle: &dyn Fn(&StdPair, bool) -> (Vec<(String, String)>, u64)) -> ! {
    let path = args.replay.as_ref().unwrap();
    let v: serde_json::Value = serde_json::from_str(&std::fs::read_to_string(path).unwrap_or_else(|e| crate::report::machinery(&format!("{e}")))).unwrap_or_else(|e| crate::report::machinery(&format!("{e}")));
    let r = &v["replay"];
    let name = r["case"].as_str().unwrap_or("");
    let c = cases.iter().find(|c| c.name == name).unwrap_or_else(|| crate::report::machinery("unknown case"));
    let devs: crate::explore::Devs = r["devs"].as_array().map(|d| d.iter().map(|x| (x[0].as_u64().unwrap(), x[1].as_u64().unwrap() as u16)).collect()).unwrap_or_default();
    let alts: &[crate::sim::Fate] = if r["alts_len"].as_u64() == Some(3) { &crate::explore::FATE_ALTS3 } else { &crate::explore::FATE_ALTS };
    let (p, done) = ecase_pair(Instant::now(), c, &devs, alts, true);
    print!("{}", crate::trace::dump(&p.w));
    println!("done={done} oracle={:?}", oracle(&p, done));
    println!("client obs: {:?}", p.client().app.obs);
    if let Some(s) = p.server() {
        println!("server obs: {:?}", s.app.obs);
    }
    println!("{}", diagnose(&p));
    std::process::exit(0)
}

/// Event-discipline oracle over a whole run (C11): Finished at most once per stream and only
/// after every byte written before finish() has been delivered to the peer endpoint; Stopped at
/// most once per stream. Needs `keep_data`.
pub fn event_discipline(p: &StdPair) -> Vec<(String, String)> {
    use crate::sim::Rec;
    use crate::wire::WFrame;
    use std::collections::BTreeMap;
    let mut out = vec![];
    // delivered stream ranges per (sender node, stream id)
    let mut delivered: BTreeMap<(usize, u64), Vec<(u64, u64)>> = BTreeMap::new();
    let mut fin_delivered: BTreeMap<(usize, u64), bool> = BTreeMap::new();
    let mut emitted: BTreeMap<u64, (usize, Vec<u8>, std::net::SocketAddr)> = BTreeMap::new();
    let mut finished: BTreeMap<(usize, u64), u32> = BTreeMap::new();
    let mut stopped: BTreeMap<(usize, u64), u32> = BTreeMap::new();
    let written = |node: usize, sid: u64| -> Option<u64> {
        let slot = if node == CLIENT { Some(p.client()) } else { p.server() };
        slot.and_then(|s| s.app.obs.tx.get(&sid).map(|t| t.written))
    };
    for r in &p.w.recs {
        match r {
            Rec::Emit { node, idx, data, dst, ch: Some(_), .. } => {
                emitted.insert(*idx, (*node, data.clone(), *dst));
            }
            Rec::Deliver { idx, node, routed: crate::sim::Routed::Conn(_), .. } if *node < 2 => {
                if let Some((from, data, dst)) = emitted.get(idx) {
                    if *from == *node {
                        continue;
                    }
                    for (_, frames) in crate::ledger::decode(data, crate::ledger::cid_len_of(&p.w, *dst)) {
                        for f in frames {
                            if let WFrame::Stream { id, off, fin, data, .. } = f {
                                delivered.entry((*from, id)).or_default().push((off, off + data.len() as u64));
                                if fin {
                                    fin_delivered.insert((*from, id), true);
                                }
                            }
                        }
                    }
                }
            }
            Rec::Event { node, ev, t, .. } if *node < 2 => {
                let num = |s: &str| -> Option<u64> {
                    let i = s.find("StreamId(")? + 9;
                    s[i..].split(')').next()?.parse().ok()
                };
                if ev.starts_with("Stream(Finished") {
                    if let Some(sid) = num(ev) {
                        let c = finished.entry((*node, sid)).or_insert(0);
                        *c += 1;
                        if *c > 1 {
                            out.push(("finished-twice".into(), format!("node{node} got Finished for stream {sid} {} times", *c)));
                        }
                        // coverage of 0..written at this moment
                        if let Some(w) = written(*node, sid) {
                            let mut rs = delivered.get(&(*node, sid)).cloned().unwrap_or_default();
                            rs.sort();
                            let mut covered = 0u64;
                            for (a, b) in rs {
                                if a <= covered {
                                    covered = covered.max(b);
                                }
                            }
                            if covered < w || !fin_delivered.get(&(*node, sid)).copied().unwrap_or(false) {
                                out.push(("finished-before-delivery".into(), format!("node{node} got Finished for stream {sid} at {t:?} when only bytes 0..{covered} of {w} (fin delivered: {}) had reached the peer", fin_delivered.get(&(*node, sid)).copied().unwrap_or(false))));
                            }
                        }
                    }
                } else if ev.starts_with("Stream(Stopped") {
                    if let Some(sid) = num(ev) {
                        let c = stopped.entry((*node, sid)).or_insert(0);
                        *c += 1;
                        if *c > 1 {
                            out.push(("stopped-twice".into(), format!("node{node} got Stopped for stream {sid} {} times", *c)));
                        }
                    }
                }
            }
            _ => {}
        }
    }
    out
}

/// An exact stateless reset addressed to `target`: a short-header-looking datagram ending in the
/// reset token that `target`'s peer endpoint associates with the connection ID `target` currently
/// uses towards it. `None` if no short-header packet was sent yet, the CID is empty, or the token
/// has not been conveyed to `target` (NEW_CONNECTION_ID seen on the wire, or server transport
/// parameters after the handshake). Needs `keep_data`.
pub fn exact_stateless_reset(p: &StdPair, target: usize) -> Option<Vec<u8>> {
    use crate::sim::Rec;
    let peer = 1 - target;
    let cl = p.w.nodes[peer].cid_len;
    let mut cid: Option<Vec<u8>> = None;
    for r in p.w.recs.iter().rev() {
        if let Rec::Emit { node, data, ch: Some(_), .. } = r {
            if *node == target {
                let (pk, _) = crate::wire::parse_datagram(data, cl);
                if let Some(s) = pk.iter().find(|x| x.ty == crate::wire::PType::Short) {
                    cid = Some(s.dcid.clone());
                    break;
                }
            }
        }
    }
    let cid = cid.filter(|c| !c.is_empty())?;
    let tcl = p.w.nodes[target].cid_len;
    let via_frame = p.w.recs.iter().any(|r| match r {
        Rec::Emit { node, data, fate, .. } if *node == peer && *fate != crate::sim::Fate::Drop => crate::ledger::decode(data, tcl)
            .iter()
            .any(|(_, fr)| fr.iter().any(|f| matches!(f, crate::wire::WFrame::NewConnectionId { cid: c2, .. } if *c2 == cid))),
        _ => false,
    });
    let via_params = target == CLIENT && !p.client().conn.is_handshaking();
    if !(via_frame || via_params) {
        return None;
    }
    let tok = crate::sim::reset_token_for(p.w.nodes[peer].seed, &cid);
    let mut d: Vec<u8> = (0..30).map(|i| 0x40 | ((i * 7) as u8 & 0x3f)).collect();
    d.extend_from_slice(&tok);
    Some(d)
}
