//! Harness congestion controller: window dictated by the check, callbacks recorded.

use std::{
    any::Any,
    sync::{Arc, Mutex},
    time::Instant,
};

use proto::{
    congestion::{Controller, ControllerFactory},
    RttEstimator,
};

#[derive(Debug, Clone, Default)]
pub struct CtlLog {
    pub sent: Vec<(u64, u64)>,
    pub acked_bytes: u64,
    pub congestion_events: u64,
    pub callbacks: u64,
}

pub struct FixedFactory {
    pub window: u64,
}

impl ControllerFactory for FixedFactory {
    fn build(self: Arc<Self>, _now: Instant, _mtu: u16) -> Box<dyn Controller> {
        Box::new(Scripted { window: self.window, shrink_at: None, shrink_to: 0, log: Arc::default() })
    }
}

/// Window `window` until the `shrink_at`-th callback, then `shrink_to`
pub struct ScriptedFactory {
    pub window: u64,
    pub shrink_at: Option<u64>,
    pub shrink_to: u64,
    pub log: Arc<Mutex<CtlLog>>,
}

impl ControllerFactory for ScriptedFactory {
    fn build(self: Arc<Self>, _now: Instant, _mtu: u16) -> Box<dyn Controller> {
        Box::new(Scripted {
            window: self.window,
            shrink_at: self.shrink_at,
            shrink_to: self.shrink_to,
            log: self.log.clone(),
        })
    }
}

#[derive(Clone)]
pub struct Scripted {
    window: u64,
    shrink_at: Option<u64>,
    shrink_to: u64,
    log: Arc<Mutex<CtlLog>>,
}

impl Scripted {
    fn tick(&self) {
        self.log.lock().unwrap().callbacks += 1;
    }
}

impl Controller for Scripted {
    fn on_sent(&mut self, _now: Instant, bytes: u64, pn: u64) {
        self.tick();
        self.log.lock().unwrap().sent.push((pn, bytes));
    }
    fn on_ack(&mut self, _now: Instant, _sent: Instant, bytes: u64, _app: bool, _rtt: &RttEstimator) {
        self.tick();
        self.log.lock().unwrap().acked_bytes += bytes;
    }
    fn on_congestion_event(&mut self, _now: Instant, _sent: Instant, _p: bool, _e: bool, _l: u64) {
        self.tick();
        self.log.lock().unwrap().congestion_events += 1;
    }
    fn on_mtu_update(&mut self, _new_mtu: u16) {
        self.tick();
    }
    fn window(&self) -> u64 {
        match self.shrink_at {
            Some(n) if self.log.lock().unwrap().callbacks >= n => self.shrink_to,
            _ => self.window,
        }
    }
    fn clone_box(&self) -> Box<dyn Controller> {
        Box::new(self.clone())
    }
    fn initial_window(&self) -> u64 {
        self.window
    }
    fn into_any(self: Box<Self>) -> Box<dyn Any> {
        self
    }
}
