//! Independent QUIC wire decoder/encoder (RFC 9000, RFC 9221, ack-frequency draft), written
//! from the specifications and *not* sharing code with quinn. Works on mtls-protected packets
//! (clear payload, identity header protection, 16-byte trailing tag).

use crate::mtls::{MKey, TAG_LEN};

#[derive(Debug, Clone, Copy, PartialEq, Eq)]
pub struct WErr(pub &'static str);
pub type WResult<T> = Result<T, WErr>;

pub struct Rd<'a> {
    pub b: &'a [u8],
    pub p: usize,
}

impl<'a> Rd<'a> {
    pub fn new(b: &'a [u8]) -> Self {
        Self { b, p: 0 }
    }
    pub fn left(&self) -> usize {
        self.b.len() - self.p
    }
    pub fn u8(&mut self) -> WResult<u8> {
        if self.left() < 1 {
            return Err(WErr("eof"));
        }
        self.p += 1;
        Ok(self.b[self.p - 1])
    }
    pub fn bytes(&mut self, n: usize) -> WResult<&'a [u8]> {
        if self.left() < n {
            return Err(WErr("eof"));
        }
        self.p += n;
        Ok(&self.b[self.p - n..self.p])
    }
    pub fn be(&mut self, n: usize) -> WResult<u64> {
        let b = self.bytes(n)?;
        Ok(b.iter().fold(0u64, |a, &x| (a << 8) | x as u64))
    }
    pub fn var(&mut self) -> WResult<u64> {
        let f = self.u8()?;
        let n = 1usize << (f >> 6);
        let mut v = (f & 0x3f) as u64;
        for _ in 1..n {
            v = (v << 8) | self.u8()? as u64;
        }
        Ok(v)
    }
}

pub fn put_var(out: &mut Vec<u8>, v: u64) {
    if v < 1 << 6 {
        out.push(v as u8);
    } else if v < 1 << 14 {
        out.extend_from_slice(&((v as u16) | 0x4000).to_be_bytes());
    } else if v < 1 << 30 {
        out.extend_from_slice(&((v as u32) | 0x8000_0000).to_be_bytes());
    } else {
        assert!(v < 1 << 62);
        out.extend_from_slice(&(v | 0xc000_0000_0000_0000).to_be_bytes());
    }
}

/// Encode with a forced length (1,2,4,8) — for non-minimal encodings
pub fn put_var_len(out: &mut Vec<u8>, v: u64, len: usize) {
    match len {
        1 => out.push(v as u8 & 0x3f),
        2 => out.extend_from_slice(&(((v as u16) & 0x3fff) | 0x4000).to_be_bytes()),
        4 => out.extend_from_slice(&(((v as u32) & 0x3fff_ffff) | 0x8000_0000).to_be_bytes()),
        _ => out.extend_from_slice(&((v & 0x3fff_ffff_ffff_ffff) | 0xc000_0000_0000_0000).to_be_bytes()),
    }
}

pub fn var_len(v: u64) -> usize {
    if v < 1 << 6 {
        1
    } else if v < 1 << 14 {
        2
    } else if v < 1 << 30 {
        4
    } else {
        8
    }
}

#[derive(Debug, Clone, Copy, PartialEq, Eq, Hash, PartialOrd, Ord)]
pub enum PType {
    Initial,
    ZeroRtt,
    Handshake,
    Retry,
    VersionNeg,
    Short,
}

impl PType {
    /// Packet number space index: 0 initial, 1 handshake, 2 data
    pub fn space(self) -> Option<usize> {
        match self {
            PType::Initial => Some(0),
            PType::Handshake => Some(1),
            PType::ZeroRtt | PType::Short => Some(2),
            _ => None,
        }
    }
}

#[derive(Debug, Clone, PartialEq, Eq)]
pub struct WPacket {
    pub ty: PType,
    pub first: u8,
    pub version: u32,
    pub dcid: Vec<u8>,
    pub scid: Vec<u8>,
    pub token: Vec<u8>,
    pub pn_len: usize,
    pub pn_trunc: u64,
    pub key_phase: bool,
    /// Offset of the packet inside the datagram
    pub start: usize,
    /// Total packet length inside the datagram
    pub len: usize,
    /// Header length (through the packet number)
    pub header_len: usize,
    /// Payload (frames) without the tag. For Retry: token; for VN: version list.
    pub payload: Vec<u8>,
    pub tag: Vec<u8>,
}

/// Split a datagram into packets. `short_dcid_len` is the CID length the *receiver* of this
/// datagram uses (needed to parse short headers). Parsing stops at the first malformed packet;
/// the packets parsed so far are returned together with the error.
pub fn parse_datagram(d: &[u8], short_dcid_len: usize) -> (Vec<WPacket>, Option<WErr>) {
    let mut out = Vec::new();
    let mut off = 0;
    while off < d.len() {
        match parse_packet(&d[off..], short_dcid_len) {
            Ok(mut p) => {
                p.start = off;
                off += p.len;
                let short = p.ty == PType::Short;
                let term = matches!(p.ty, PType::Retry | PType::VersionNeg);
                out.push(p);
                if short || term {
                    break;
                }
            }
            Err(e) => return (out, Some(e)),
        }
    }
    (out, None)
}

fn parse_packet(d: &[u8], short_dcid_len: usize) -> WResult<WPacket> {
    let mut r = Rd::new(d);
    let first = r.u8()?;
    if first & 0x80 == 0 {
        // short header
        let dcid = r.bytes(short_dcid_len)?.to_vec();
        let pn_len = (first & 3) as usize + 1;
        let pn_trunc = r.be(pn_len)?;
        let header_len = r.p;
        if r.left() < TAG_LEN {
            return Err(WErr("short: no room for tag"));
        }
        let body = r.bytes(r.left())?;
        let (payload, tag) = body.split_at(body.len() - TAG_LEN);
        return Ok(WPacket {
            ty: PType::Short,
            first,
            version: 0,
            dcid,
            scid: vec![],
            token: vec![],
            pn_len,
            pn_trunc,
            key_phase: first & 0x04 != 0,
            start: 0,
            len: d.len(),
            header_len,
            payload: payload.to_vec(),
            tag: tag.to_vec(),
        });
    }
    let version = r.be(4)? as u32;
    let dl = r.u8()? as usize;
    let dcid = r.bytes(dl)?.to_vec();
    let sl = r.u8()? as usize;
    let scid = r.bytes(sl)?.to_vec();
    if version == 0 {
        let payload = r.bytes(r.left())?.to_vec();
        return Ok(WPacket {
            ty: PType::VersionNeg,
            first,
            version,
            dcid,
            scid,
            token: vec![],
            pn_len: 0,
            pn_trunc: 0,
            key_phase: false,
            start: 0,
            len: d.len(),
            header_len: r.p,
            payload,
            tag: vec![],
        });
    }
    let ty = match (first >> 4) & 3 {
        0 => PType::Initial,
        1 => PType::ZeroRtt,
        2 => PType::Handshake,
        _ => PType::Retry,
    };
    if ty == PType::Retry {
        let header_len = r.p;
        let rest = r.bytes(r.left())?;
        if rest.len() < 16 {
            return Err(WErr("retry too short"));
        }
        let (tok, tag) = rest.split_at(rest.len() - 16);
        return Ok(WPacket {
            ty,
            first,
            version,
            dcid,
            scid,
            token: tok.to_vec(),
            pn_len: 0,
            pn_trunc: 0,
            key_phase: false,
            start: 0,
            len: d.len(),
            header_len,
            payload: tok.to_vec(),
            tag: tag.to_vec(),
        });
    }
    let mut token = vec![];
    if ty == PType::Initial {
        let tl = r.var()? as usize;
        token = r.bytes(tl)?.to_vec();
    }
    let length = r.var()? as usize;
    let pn_len = (first & 3) as usize + 1;
    if length < pn_len + TAG_LEN || r.left() < length {
        return Err(WErr("long: bad length"));
    }
    let pn_trunc = r.be(pn_len)?;
    let header_len = r.p;
    let body = r.bytes(length - pn_len)?;
    let (payload, tag) = body.split_at(body.len() - TAG_LEN);
    Ok(WPacket {
        ty,
        first,
        version,
        dcid,
        scid,
        token,
        pn_len,
        pn_trunc,
        key_phase: false,
        start: 0,
        len: r.p,
        header_len,
        payload: payload.to_vec(),
        tag: tag.to_vec(),
    })
}

/// RFC 9000 A.3 packet number expansion
pub fn expand_pn(largest: Option<u64>, trunc: u64, pn_len: usize) -> u64 {
    let expected = largest.map_or(0, |l| l + 1);
    let win = 1u64 << (pn_len * 8);
    let hwin = win / 2;
    let mask = win - 1;
    let candidate = (expected & !mask) | trunc;
    if candidate + hwin <= expected && candidate < (1 << 62) - win {
        candidate + win
    } else if candidate > expected + hwin && candidate >= win {
        candidate - win
    } else {
        candidate
    }
}

#[derive(Debug, Clone, PartialEq, Eq)]
pub struct AckF {
    pub largest: u64,
    pub delay: u64,
    /// Inclusive ranges, descending as on the wire
    pub ranges: Vec<(u64, u64)>,
    pub ecn: Option<(u64, u64, u64)>,
}

#[derive(Debug, Clone, PartialEq, Eq)]
pub enum WFrame {
    Padding(usize),
    Ping,
    Ack(AckF),
    ResetStream { id: u64, code: u64, final_size: u64 },
    StopSending { id: u64, code: u64 },
    Crypto { off: u64, data: Vec<u8> },
    NewToken(Vec<u8>),
    Stream { id: u64, off: u64, fin: bool, data: Vec<u8>, has_len: bool },
    MaxData(u64),
    MaxStreamData { id: u64, max: u64 },
    MaxStreams { bidi: bool, max: u64 },
    DataBlocked(u64),
    StreamDataBlocked { id: u64, limit: u64 },
    StreamsBlocked { bidi: bool, limit: u64 },
    NewConnectionId { seq: u64, retire_prior_to: u64, cid: Vec<u8>, token: [u8; 16] },
    RetireConnectionId(u64),
    PathChallenge(u64),
    PathResponse(u64),
    Close { app: bool, code: u64, frame_type: Option<u64>, reason: Vec<u8> },
    HandshakeDone,
    ImmediateAck,
    AckFrequency { seq: u64, threshold: u64, max_delay: u64, reorder: u64 },
    Datagram { data: Vec<u8>, has_len: bool },
}

impl WFrame {
    pub fn name(&self) -> &'static str {
        use WFrame::*;
        match self {
            Padding(_) => "PADDING",
            Ping => "PING",
            Ack(_) => "ACK",
            ResetStream { .. } => "RESET_STREAM",
            StopSending { .. } => "STOP_SENDING",
            Crypto { .. } => "CRYPTO",
            NewToken(_) => "NEW_TOKEN",
            Stream { .. } => "STREAM",
            MaxData(_) => "MAX_DATA",
            MaxStreamData { .. } => "MAX_STREAM_DATA",
            MaxStreams { .. } => "MAX_STREAMS",
            DataBlocked(_) => "DATA_BLOCKED",
            StreamDataBlocked { .. } => "STREAM_DATA_BLOCKED",
            StreamsBlocked { .. } => "STREAMS_BLOCKED",
            NewConnectionId { .. } => "NEW_CONNECTION_ID",
            RetireConnectionId(_) => "RETIRE_CONNECTION_ID",
            PathChallenge(_) => "PATH_CHALLENGE",
            PathResponse(_) => "PATH_RESPONSE",
            Close { .. } => "CONNECTION_CLOSE",
            HandshakeDone => "HANDSHAKE_DONE",
            ImmediateAck => "IMMEDIATE_ACK",
            AckFrequency { .. } => "ACK_FREQUENCY",
            Datagram { .. } => "DATAGRAM",
        }
    }
    pub fn ack_eliciting(&self) -> bool {
        !matches!(self, WFrame::Padding(_) | WFrame::Ack(_) | WFrame::Close { .. })
    }
}

pub fn parse_frames(payload: &[u8]) -> WResult<Vec<WFrame>> {
    let mut r = Rd::new(payload);
    let mut out = Vec::new();
    while r.left() > 0 {
        let ty = r.var()?;
        let f = match ty {
            0x00 => {
                let mut n = 1;
                while r.left() > 0 && r.b[r.p] == 0 {
                    r.p += 1;
                    n += 1;
                }
                WFrame::Padding(n)
            }
            0x01 => WFrame::Ping,
            0x02 | 0x03 => {
                let largest = r.var()?;
                let delay = r.var()?;
                let count = r.var()?;
                let first = r.var()?;
                if first > largest {
                    return Err(WErr("ack: first range underflow"));
                }
                let mut ranges = vec![(largest - first, largest)];
                let mut smallest = largest - first;
                for _ in 0..count {
                    let gap = r.var()?;
                    let len = r.var()?;
                    let hi = smallest
                        .checked_sub(gap + 2)
                        .ok_or(WErr("ack: gap underflow"))?;
                    let lo = hi.checked_sub(len).ok_or(WErr("ack: range underflow"))?;
                    ranges.push((lo, hi));
                    smallest = lo;
                }
                let ecn = if ty == 0x03 {
                    Some((r.var()?, r.var()?, r.var()?))
                } else {
                    None
                };
                WFrame::Ack(AckF { largest, delay, ranges, ecn })
            }
            0x04 => WFrame::ResetStream { id: r.var()?, code: r.var()?, final_size: r.var()? },
            0x05 => WFrame::StopSending { id: r.var()?, code: r.var()? },
            0x06 => {
                let off = r.var()?;
                let len = r.var()? as usize;
                WFrame::Crypto { off, data: r.bytes(len)?.to_vec() }
            }
            0x07 => {
                let len = r.var()? as usize;
                WFrame::NewToken(r.bytes(len)?.to_vec())
            }
            0x08..=0x0f => {
                let id = r.var()?;
                let off = if ty & 4 != 0 { r.var()? } else { 0 };
                let has_len = ty & 2 != 0;
                let data = if has_len {
                    let len = r.var()? as usize;
                    r.bytes(len)?.to_vec()
                } else {
                    r.bytes(r.left())?.to_vec()
                };
                WFrame::Stream { id, off, fin: ty & 1 != 0, data, has_len }
            }
            0x10 => WFrame::MaxData(r.var()?),
            0x11 => WFrame::MaxStreamData { id: r.var()?, max: r.var()? },
            0x12 | 0x13 => WFrame::MaxStreams { bidi: ty == 0x12, max: r.var()? },
            0x14 => WFrame::DataBlocked(r.var()?),
            0x15 => WFrame::StreamDataBlocked { id: r.var()?, limit: r.var()? },
            0x16 | 0x17 => WFrame::StreamsBlocked { bidi: ty == 0x16, limit: r.var()? },
            0x18 => {
                let seq = r.var()?;
                let retire_prior_to = r.var()?;
                let l = r.u8()? as usize;
                let cid = r.bytes(l)?.to_vec();
                let mut token = [0u8; 16];
                token.copy_from_slice(r.bytes(16)?);
                WFrame::NewConnectionId { seq, retire_prior_to, cid, token }
            }
            0x19 => WFrame::RetireConnectionId(r.var()?),
            0x1a => WFrame::PathChallenge(r.be(8)?),
            0x1b => WFrame::PathResponse(r.be(8)?),
            0x1c | 0x1d => {
                let code = r.var()?;
                let frame_type = if ty == 0x1c { Some(r.var()?) } else { None };
                let len = r.var()? as usize;
                WFrame::Close { app: ty == 0x1d, code, frame_type, reason: r.bytes(len)?.to_vec() }
            }
            0x1e => WFrame::HandshakeDone,
            0x1f => WFrame::ImmediateAck,
            0xaf => WFrame::AckFrequency {
                seq: r.var()?,
                threshold: r.var()?,
                max_delay: r.var()?,
                reorder: r.var()?,
            },
            0x30 | 0x31 => {
                let has_len = ty == 0x31;
                let data = if has_len {
                    let len = r.var()? as usize;
                    r.bytes(len)?.to_vec()
                } else {
                    r.bytes(r.left())?.to_vec()
                };
                WFrame::Datagram { data, has_len }
            }
            _ => return Err(WErr("unknown frame type")),
        };
        out.push(f);
    }
    Ok(out)
}

pub fn encode_frame(f: &WFrame, out: &mut Vec<u8>) {
    use WFrame::*;
    match f {
        Padding(n) => out.extend(std::iter::repeat(0u8).take(*n)),
        Ping => out.push(1),
        Ack(a) => {
            out.push(if a.ecn.is_some() { 3 } else { 2 });
            put_var(out, a.largest);
            put_var(out, a.delay);
            put_var(out, a.ranges.len() as u64 - 1);
            let (lo0, hi0) = a.ranges[0];
            put_var(out, hi0 - lo0);
            let mut smallest = lo0;
            for &(lo, hi) in &a.ranges[1..] {
                put_var(out, smallest - hi - 2);
                put_var(out, hi - lo);
                smallest = lo;
            }
            if let Some((a0, a1, a2)) = a.ecn {
                put_var(out, a0);
                put_var(out, a1);
                put_var(out, a2);
            }
        }
        ResetStream { id, code, final_size } => {
            out.push(4);
            put_var(out, *id);
            put_var(out, *code);
            put_var(out, *final_size);
        }
        StopSending { id, code } => {
            out.push(5);
            put_var(out, *id);
            put_var(out, *code);
        }
        Crypto { off, data } => {
            out.push(6);
            put_var(out, *off);
            put_var(out, data.len() as u64);
            out.extend_from_slice(data);
        }
        NewToken(t) => {
            out.push(7);
            put_var(out, t.len() as u64);
            out.extend_from_slice(t);
        }
        Stream { id, off, fin, data, has_len } => {
            let mut ty = 0x08u8;
            if *fin {
                ty |= 1;
            }
            if *has_len {
                ty |= 2;
            }
            if *off != 0 {
                ty |= 4;
            }
            out.push(ty);
            put_var(out, *id);
            if *off != 0 {
                put_var(out, *off);
            }
            if *has_len {
                put_var(out, data.len() as u64);
            }
            out.extend_from_slice(data);
        }
        MaxData(v) => {
            out.push(0x10);
            put_var(out, *v);
        }
        MaxStreamData { id, max } => {
            out.push(0x11);
            put_var(out, *id);
            put_var(out, *max);
        }
        MaxStreams { bidi, max } => {
            out.push(if *bidi { 0x12 } else { 0x13 });
            put_var(out, *max);
        }
        DataBlocked(v) => {
            out.push(0x14);
            put_var(out, *v);
        }
        StreamDataBlocked { id, limit } => {
            out.push(0x15);
            put_var(out, *id);
            put_var(out, *limit);
        }
        StreamsBlocked { bidi, limit } => {
            out.push(if *bidi { 0x16 } else { 0x17 });
            put_var(out, *limit);
        }
        NewConnectionId { seq, retire_prior_to, cid, token } => {
            out.push(0x18);
            put_var(out, *seq);
            put_var(out, *retire_prior_to);
            out.push(cid.len() as u8);
            out.extend_from_slice(cid);
            out.extend_from_slice(token);
        }
        RetireConnectionId(s) => {
            out.push(0x19);
            put_var(out, *s);
        }
        PathChallenge(v) => {
            out.push(0x1a);
            out.extend_from_slice(&v.to_be_bytes());
        }
        PathResponse(v) => {
            out.push(0x1b);
            out.extend_from_slice(&v.to_be_bytes());
        }
        Close { app, code, frame_type, reason } => {
            out.push(if *app { 0x1d } else { 0x1c });
            put_var(out, *code);
            if !*app {
                put_var(out, frame_type.unwrap_or(0));
            }
            put_var(out, reason.len() as u64);
            out.extend_from_slice(reason);
        }
        HandshakeDone => out.push(0x1e),
        ImmediateAck => out.push(0x1f),
        AckFrequency { seq, threshold, max_delay, reorder } => {
            put_var(out, 0xaf);
            put_var(out, *seq);
            put_var(out, *threshold);
            put_var(out, *max_delay);
            put_var(out, *reorder);
        }
        Datagram { data, has_len } => {
            out.push(if *has_len { 0x31 } else { 0x30 });
            if *has_len {
                put_var(out, data.len() as u64);
            }
            out.extend_from_slice(data);
        }
    }
}

/// Build a protected packet. `payload` is raw frame bytes (caller may put anything in it).
/// `pn` is sent in 4 bytes. For long headers `ty` selects the type; `token` only for Initial.
pub struct Forge<'a> {
    pub ty: PType,
    pub version: u32,
    pub dcid: &'a [u8],
    pub scid: &'a [u8],
    pub token: &'a [u8],
    pub pn: u64,
    pub key_phase: bool,
    pub spin: bool,
    pub key: MKey,
}

impl Forge<'_> {
    pub fn build(&self, payload: &[u8], min_len: usize) -> Vec<u8> {
        let mut out = Vec::new();
        let mut payload = payload.to_vec();
        // keep at least 4 bytes of payload so the sample size requirement holds
        while payload.len() < 4 {
            payload.push(0);
        }
        let build_header = |plen: usize| -> Vec<u8> {
            let mut h = Vec::new();
            match self.ty {
                PType::Short => {
                    let mut first = 0x40u8 | 3;
                    if self.key_phase {
                        first |= 0x04;
                    }
                    if self.spin {
                        first |= 0x20;
                    }
                    h.push(first);
                    h.extend_from_slice(self.dcid);
                }
                _ => {
                    let t = match self.ty {
                        PType::Initial => 0u8,
                        PType::ZeroRtt => 1,
                        PType::Handshake => 2,
                        _ => 3,
                    };
                    h.push(0xc0 | (t << 4) | 3);
                    h.extend_from_slice(&self.version.to_be_bytes());
                    h.push(self.dcid.len() as u8);
                    h.extend_from_slice(self.dcid);
                    h.push(self.scid.len() as u8);
                    h.extend_from_slice(self.scid);
                    if self.ty == PType::Initial {
                        put_var(&mut h, self.token.len() as u64);
                        h.extend_from_slice(self.token);
                    }
                    // length: pn(4) + payload + tag, always encoded in 2 bytes
                    put_var_len(&mut h, (4 + plen + TAG_LEN) as u64, 2);
                }
            }
            h.extend_from_slice(&(self.pn as u32).to_be_bytes());
            h
        };
        let mut header = build_header(payload.len());
        let total = header.len() + payload.len() + TAG_LEN;
        if total < min_len {
            payload.extend(std::iter::repeat(0u8).take(min_len - total));
            header = build_header(payload.len());
        }
        let tag = self.key.tag(self.pn, &header, &payload);
        out.extend_from_slice(&header);
        out.extend_from_slice(&payload);
        out.extend_from_slice(&tag);
        out
    }
}

pub fn frames_bytes(frames: &[WFrame]) -> Vec<u8> {
    let mut v = Vec::new();
    for f in frames {
        encode_frame(f, &mut v);
    }
    v
}

/// Stream id helpers (RFC 9000 §2.1)
pub fn stream_id(client_initiated: bool, bidi: bool, index: u64) -> u64 {
    (index << 2) | ((!bidi as u64) << 1) | (!client_initiated as u64)
}
pub fn sid_index(id: u64) -> u64 {
    id >> 2
}
pub fn sid_is_bidi(id: u64) -> bool {
    id & 2 == 0
}
pub fn sid_client_initiated(id: u64) -> bool {
    id & 1 == 0
}

/// Independent transport-parameter decoder (RFC 9000 §18): returns (id, value bytes) pairs
pub fn parse_transport_params(b: &[u8]) -> WResult<Vec<(u64, Vec<u8>)>> {
    let mut r = Rd::new(b);
    let mut out = vec![];
    while r.left() > 0 {
        let id = r.var()?;
        let len = r.var()? as usize;
        out.push((id, r.bytes(len)?.to_vec()));
    }
    Ok(out)
}

/// Integer-valued transport parameter (absent => None)
pub fn tp_int(tps: &[(u64, Vec<u8>)], id: u64) -> Option<u64> {
    let v = &tps.iter().find(|(i, _)| *i == id)?.1;
    Rd::new(v).var().ok()
}

pub const TP_MAX_IDLE: u64 = 0x01;
pub const TP_MAX_UDP_PAYLOAD: u64 = 0x03;
pub const TP_MAX_DATA: u64 = 0x04;
pub const TP_MSD_BIDI_LOCAL: u64 = 0x05;
pub const TP_MSD_BIDI_REMOTE: u64 = 0x06;
pub const TP_MSD_UNI: u64 = 0x07;
pub const TP_MAX_STREAMS_BIDI: u64 = 0x08;
pub const TP_MAX_STREAMS_UNI: u64 = 0x09;
pub const TP_ACTIVE_CID_LIMIT: u64 = 0x0e;
pub const TP_MAX_DATAGRAM: u64 = 0x20;
pub const TP_MIN_ACK_DELAY: u64 = 0xff04de1b;
