//! C14 — validation tokens and Retry cannot be forged, moved or replayed.
//! Acceptance matrix on the real server endpoint; client-side CID-echo checks; the two token
//! stores are explored in /verif/comp (merged here).

use std::{
    net::SocketAddr,
    sync::{Arc, Mutex},
    time::{Duration, Instant},
};

use bytes::Bytes;
use proto::{ConnectionError, Side, TokenStore};
use serde_json::{json, Value};

use crate::{
    app::{ReadMode, StdApp},
    explore::{self, deadline, e3, guarded},
    ledger::{cid_len_of, decode},
    mtls,
    report::{machinery, Args, Report, Tier, Violation},
    scen::{cfg_by_name, plans, std_pair_pre, StdPair, Wl},
    sim::{client_config, Rec, CLIENT, SERVER},
    wire::{self, put_var, PType, WFrame},
};

/// Token store that records what the server sent and hands out one chosen token
#[derive(Default)]
pub struct Store {
    pub got: Mutex<Vec<Vec<u8>>>,
    pub give: Mutex<Option<Vec<u8>>>,
    pub taken: Mutex<u32>,
}

impl TokenStore for Store {
    fn insert(&self, _server_name: &str, token: Bytes) {
        self.got.lock().unwrap().push(token.to_vec());
    }
    fn take(&self, _server_name: &str) -> Option<Bytes> {
        *self.taken.lock().unwrap() += 1;
        self.give.lock().unwrap().take().map(Bytes::from)
    }
}

#[derive(Clone, Debug, PartialEq)]
pub enum Kind {
    Retry,
    NewToken,
}

#[derive(Clone, Debug, PartialEq)]
pub enum Alter {
    None,
    Flip(usize),
    Truncate(usize),
    Extend,
    /// head of this token, tail of the other genuine token of the same kind
    Splice(usize),
    Empty,
}

#[derive(Clone, Debug, PartialEq)]
pub enum From {
    Same,
    SameIpOtherPort,
    OtherIp,
}

#[derive(Clone, Debug)]
pub struct Case {
    pub kind: Kind,
    pub alter: Alter,
    pub from: From,
    /// seconds after issue at which the token is presented
    pub after_s: u64,
    /// present it a second time right afterwards
    pub twice: bool,
    /// the second presentation happens this many seconds after issue (None: right after the first)
    pub second_after_s: Option<u64>,
    /// NEW_TOKEN only: another genuine token is used at issue time (the reuse log's bookkeeping
    /// starts with it), and the token under test comes from a second genuine connection made this
    /// many seconds later; `after_s` / `second_after_s` still count from the first issue time
    pub prime_gap_s: Option<u64>,
}

const RETRY_LIFETIME: u64 = 15;
const TOKEN_LIFETIME: u64 = 100;

pub struct Out {
    /// for each presentation: Some((validated, may_retry)) if an Incoming was produced,
    /// None if the server answered statelessly; plus the close code of a stateless answer
    pub verdicts: Vec<(Option<(bool, bool)>, Option<u64>)>,
    pub token_len: usize,
    pub trace: u64,
}

fn alter(tok: &[u8], other: &[u8], a: &Alter) -> Option<Vec<u8>> {
    let mut t = tok.to_vec();
    match a {
        Alter::None => {}
        Alter::Flip(bit) => {
            if bit / 8 >= t.len() {
                return None;
            }
            t[bit / 8] ^= 1 << (bit % 8);
        }
        Alter::Truncate(n) => {
            if *n >= t.len() {
                return None;
            }
            t.truncate(*n);
        }
        Alter::Extend => t.push(0x5a),
        Alter::Splice(n) => {
            if *n == 0 || *n >= t.len() || other.len() != t.len() {
                return None;
            }
            t = [&tok[..*n], &other[*n..]].concat();
            if t == tok {
                return None;
            }
        }
        Alter::Empty => t.clear(),
    }
    Some(t)
}

pub fn run_case(base: Instant, c: &Case) -> Result<Option<Out>, String> {
    guarded(|| {
        let mut cfg = cfg_by_name("default");
        cfg.retry = c.kind == Kind::Retry;
        cfg.retry_token_lifetime = Duration::from_secs(RETRY_LIFETIME);
        cfg.tokens_sent = 2;
        cfg.token_lifetime = Some(Duration::from_secs(TOKEN_LIFETIME));
        // first connection obtains genuine tokens
        let store = Arc::new(Store::default());
        let (cp, sp) = plans(Wl::W1, ReadMode::default());
        let mut p: StdPair = {
            let st = store.clone();
            let mut w = crate::sim::World::new(base, Box::new(move |_, _| StdApp::new(Side::Server, sp.clone())));
            w.latency = cfg.latency;
            let keylog = Arc::new(mtls::KeyLog::default());
            let sc = crate::sim::server_config(&cfg, keylog.clone(), w.sim_time.clone());
            let s = w.add_node(1, 8, None, Some(Arc::new(sc)), |_| {});
            let cl = w.add_node(2, 8, None, None, |_| {});
            assert_eq!((s, cl), (SERVER, CLIENT));
            if cfg.retry {
                w.nodes[SERVER].policy = crate::sim::AcceptPolicy::Retry;
            }
            let mut cc = client_config(&cfg, keylog.clone(), 0xc1);
            cc.token_store(st);
            let cch = w.connect(CLIENT, SERVER, cc.clone(), StdApp::new(Side::Client, cp.clone()));
            w.settle_conn(CLIENT, cch);
            crate::sim::Pair { w, keylog, cch, client_cfg: cc, cfg_name: String::new() }
        };
        let mut n = 0;
        while n < 3000 && !(crate::scen::workload_done(&p) && p.w.net.is_empty()) {
            n += 1;
            if !p.w.step() {
                break;
            }
        }
        // genuine tokens
        let (tok, other, issued_at) = match c.kind {
            Kind::Retry => {
                // the token the client echoed after the Retry, and when the Retry was issued
                let mut found = None;
                for r in &p.w.recs {
                    if let Rec::Emit { node, data, t, .. } = r {
                        if *node == CLIENT {
                            for pk in wire::parse_datagram(data, 8).0 {
                                if pk.ty == PType::Initial && !pk.token.is_empty() && found.is_none() {
                                    found = Some((pk.token.clone(), *t));
                                }
                            }
                        }
                    }
                }
                let Some((t, at)) = found else { return None };
                (t.clone(), t, at)
            }
            Kind::NewToken => {
                let got = store.got.lock().unwrap().clone();
                if got.len() < 2 {
                    return None;
                }
                (got[0].clone(), got[1].clone(), p.w.t)
            }
        };
        let (tok, other) = match (c.prime_gap_s, &c.kind) {
            (Some(g), Kind::NewToken) => {
                p.w.nodes[SERVER].policy = crate::sim::AcceptPolicy::Ignore;
                let _ = present_once(&mut p, &cfg, &From::Same, 7, &other);
                p.w.nodes[SERVER].policy = crate::sim::AcceptPolicy::Accept;
                let target = issued_at + Duration::from_secs(g);
                if target > p.w.t {
                    p.w.t = target;
                    p.w.sim_time.set(p.w.t);
                }
                let st3 = Arc::new(Store::default());
                let mut cc = client_config(&cfg, p.keylog.clone(), 0xe1);
                cc.token_store(st3.clone());
                let (cp3, _) = plans(Wl::W1, ReadMode::default());
                let ch = p.w.connect(CLIENT, SERVER, cc, StdApp::new(Side::Client, cp3));
                p.w.settle_conn(CLIENT, ch);
                let mut n = 0;
                while n < 3000 && st3.got.lock().unwrap().len() < 2 {
                    n += 1;
                    if !p.w.step() {
                        break;
                    }
                }
                // (let that connection's traffic finish: the presentations below step the world a few
                // times only)
                let mut n = 0;
                while n < 3000 && !p.w.net.is_empty() {
                    n += 1;
                    if !p.w.step() {
                        break;
                    }
                }
                let got = st3.got.lock().unwrap().clone();
                if got.len() < 2 {
                    return None;
                }
                (got[0].clone(), got[1].clone())
            }
            _ => (tok, other),
        };
        let Some(present) = alter(&tok, &other, &c.alter) else { return None };
        // second attempt(s)
        let target = issued_at + Duration::from_secs(c.after_s);
        if target > p.w.t {
            p.w.t = target;
            p.w.sim_time.set(p.w.t);
        }
        p.w.nodes[SERVER].policy = crate::sim::AcceptPolicy::Ignore;
        let mut verdicts = vec![];
        let client_addr = p.w.nodes[CLIENT].addr;
        for round in 0..(1 + c.twice as usize) {
            if let (1, Some(s2)) = (round, c.second_after_s) {
                let target = issued_at + Duration::from_secs(s2);
                if target > p.w.t {
                    p.w.t = target;
                    p.w.sim_time.set(p.w.t);
                }
            }
            let (inc, close) = present_once(&mut p, &cfg, &c.from, round, &present);
            verdicts.push((inc, close));
        }
        Some(Out { verdicts, token_len: tok.len(), trace: p.w.trace_hash() })
    })
}

/// One connection attempt presenting `present` as its token: (verdict of the Incoming, close code of a stateless answer)
fn present_once(p: &mut StdPair, cfg: &crate::sim::PairCfg, from: &From, round: usize, present: &[u8]) -> (Option<(bool, bool)>, Option<u64>) {
    let client_addr = p.w.nodes[CLIENT].addr;
            let node = match *from {
                From::Same => CLIENT,
                _ => {
                    let nn = p.w.add_node(30 + round as u8, 8, None, None, |_| {});
                    if *from == From::SameIpOtherPort {
                        let mut a = client_addr;
                        a.set_port(client_addr.port() + 1 + round as u16);
                        p.w.src_rewrite.push((nn, 0, a));
                    }
                    nn
                }
            };
            let st2 = Arc::new(Store::default());
            *st2.give.lock().unwrap() = Some(present.to_vec());
            let mut cc = client_config(&cfg, p.keylog.clone(), 0xd0 + round as u8);
            cc.token_store(st2);
            let inc_before = p.w.nodes[SERVER].incomings.len();
            let rec_before = p.w.recs.len();
            let (cp2, _) = plans(Wl::W0, ReadMode::default());
            let ch = p.w.connect(node, SERVER, cc, StdApp::new(Side::Client, cp2));
            p.w.settle_conn(node, ch);
            // deliver the Initial and let the server answer
            for _ in 0..6 {
                if p.w.net.is_empty() {
                    break;
                }
                p.w.step();
            }
            let inc = p.w.nodes[SERVER].incomings.get(inc_before).map(|x| (x.2, x.3));
            let mut close = None;
            for r in &p.w.recs[rec_before..] {
                if let Rec::Emit { node: n, ch: None, data, dst, .. } = r {
                    if *n == SERVER {
                        for (_, frames) in decode(data, cid_len_of(&p.w, *dst)) {
                            for f in frames {
                                if let WFrame::Close { code, .. } = f {
                                    close = Some(code);
                                }
                            }
                        }
                    }
                }
            }
    (inc, close)
}

/// What the property prescribes for one presentation
fn expected(c: &Case, round: usize) -> (&'static str, Option<bool>) {
    // returns (description, Some(validated) if an Incoming must be produced / None => INVALID_TOKEN)
    let altered = c.alter != Alter::None;
    if altered {
        return ("altered or foreign token is treated as absent", Some(false));
    }
    match c.kind {
        Kind::Retry => {
            let addr_ok = c.from == From::Same;
            let in_life = c.after_s <= RETRY_LIFETIME - 1;
            if addr_ok && in_life {
                ("genuine Retry token from the same address and port within its lifetime validates", Some(true))
            } else {
                ("stale or misplaced Retry token ends the attempt with INVALID_TOKEN", None)
            }
        }
        Kind::NewToken => {
            let addr_ok = c.from != From::OtherIp;
            let in_life = c.after_s <= c.prime_gap_s.unwrap_or(0) + TOKEN_LIFETIME - 1;
            if addr_ok && in_life && round == 0 {
                ("genuine NEW_TOKEN token from the same IP within its lifetime validates once", Some(true))
            } else {
                ("NEW_TOKEN token that is reused, expired or from another IP is treated as absent", Some(false))
            }
        }
    }
}

pub fn main(args: &Args) -> ! {
    if args.replay.is_some() {
        replay(args);
    }
    explore::quiet_panics();
    let base = Instant::now();
    let mut rep = Report::new("C14", args, "model_checking");
    let thorough = args.tier == Tier::Thorough;
    let dl = deadline(if thorough { 1500 } else { 50 });
    rep.rule = "Acceptance matrix (E3) on the real server endpoint: genuine Retry and NEW_TOKEN tokens are obtained from real flows (harness time source), then presented by a fresh client whose token store returns chosen bytes: the token unchanged, EVERY single-bit flip, every truncation, one-byte extension, every head/tail splice with a second genuine token, and empty; from the same address, the same IP with another port, and another IP; at issue time, lifetime-1 s and lifetime+2 s; and a second time, right away and (NEW_TOKEN) for every pair of moments on a grid of tenths of the lifetime, also for tokens issued 0.3 / 0.5 / 0.8 lifetimes after the first token the reuse log saw. The verdict (Incoming::remote_address_validated / may_retry, or a stateless INVALID_TOKEN close) must equal what the property prescribes. Client side: with and without a real Retry the server's CID-echo transport parameters are removed / altered / added and the client must fail with TRANSPORT_PARAMETER_ERROR. The two token stores (BloomTokenLog, TokenMemoryCache) are searched exhaustively over call histories against reference models (merged from /verif/comp). States/transitions count those searches; evaluations add matrix cells.".into();
    crate::checks::merge_comp(&mut rep, "C14", thorough, deadline(if thorough { 600 } else { 45 }));
    let mut cases = vec![];
    for kind in [Kind::Retry, Kind::NewToken] {
        // token length is known only at run time: enumerate generously, non-applicable cells return None
        let mut alters = vec![Alter::None, Alter::Extend, Alter::Empty];
        for b in 0..(120 * 8) {
            if thorough || b % 5 == 0 || b < 24 {
                alters.push(Alter::Flip(b));
            }
        }
        for n in 0..120 {
            alters.push(Alter::Truncate(n));
            if kind == Kind::NewToken && (thorough || n % 3 == 0) {
                alters.push(Alter::Splice(n));
            }
        }
        let life = if kind == Kind::Retry { RETRY_LIFETIME } else { TOKEN_LIFETIME };
        for a in alters {
            for from in [From::Same, From::SameIpOtherPort, From::OtherIp] {
                for after in [0, life - 1, life + 2] {
                    let plain = a == Alter::None;
                    if !plain && (from != From::Same || after != 0) && !thorough {
                        continue;
                    }
                    cases.push(Case { kind: kind.clone(), alter: a.clone(), from: from.clone(), after_s: after, twice: plain, second_after_s: None, prime_gap_s: None });
                }
            }
        }
    }
    // a genuine NEW_TOKEN token used at one moment of its lifetime and presented again at a later one
    // (every pair on a grid of tenths of the lifetime): single use holds across the whole lifetime
    for from in [From::Same, From::SameIpOtherPort] {
        for i in 0..10u64 {
            for j in i..10u64 {
                let (a, b) = (i * TOKEN_LIFETIME / 10, (j * TOKEN_LIFETIME / 10 + 9).min(TOKEN_LIFETIME - 1));
                cases.push(Case { kind: Kind::NewToken, alter: Alter::None, from: from.clone(), after_s: a, twice: true, second_after_s: Some(b), prime_gap_s: None });
            }
        }
    }
    // ... also for a token issued later than the one the log saw first (gap of 0.3 / 0.5 / 0.8 lifetimes)
    for gap in [3u64, 5, 8] {
        let g = gap * TOKEN_LIFETIME / 10;
        for i in gap..(gap + 10) {
            for j in i..(gap + 10) {
                let (a, b) = (i * TOKEN_LIFETIME / 10 + 1, (j * TOKEN_LIFETIME / 10 + 9).min(g + TOKEN_LIFETIME - 1));
                if b < a {
                    continue;
                }
                cases.push(Case { kind: Kind::NewToken, alter: Alter::None, from: From::Same, after_s: a, twice: true, second_after_s: Some(b), prime_gap_s: Some(g) });
            }
        }
    }
    let total = cases.len();
    let (res, capped) = e3(cases, dl, |c| run_case(base, c));
    rep.exhaustive &= !capped;
    let mut validated = 0u64;
    let mut invalid_token = 0u64;
    for (c, r) in &res {
        let rj = json!({"check":"c14","kind":format!("{:?}",c.kind),"alter":format!("{:?}",c.alter),"from":format!("{:?}",c.from),"after_s":c.after_s,"twice":c.twice,"second_after_s":c.second_after_s,"prime_gap_s":c.prime_gap_s});
        match r {
            Err(e) => {
                rep.evaluations += 1;
                rep.violation(Violation { signature: "panic".into(), what: format!("{c:?}: panic: {e}"), replay: rj });
            }
            Ok(None) => {}
            Ok(Some(o)) => {
                rep.evaluations += 1;
                rep.distinct.insert(o.trace);
                for (round, (inc, close)) in o.verdicts.iter().enumerate() {
                    let (why, want) = expected(c, round);
                    match (want, inc, close) {
                        (Some(v), Some((got, _)), _) if v == *got => {
                            if v {
                                validated += 1;
                            }
                        }
                        (None, None, Some(0xb)) => invalid_token += 1,
                        _ => {
                            let sig = match (want, inc) {
                                (Some(false), Some((true, _))) => "token-validated-wrongly",
                                (Some(true), _) => "genuine-token-not-validated",
                                (None, Some(_)) => "bad-retry-token-not-rejected",
                                _ => "unexpected-token-verdict",
                            };
                            rep.violation(Violation {
                                signature: format!("{sig}:{:?}", c.kind),
                                what: format!("{:?} token, alteration {:?}, presented from {:?} {} s after issue (presentation #{}, the second one at {:?} s; token from a connection made {:?} s after the first token the log saw): server verdict incoming={inc:?} close={close:x?}; the property says: {why}", c.kind, c.alter, c.from, c.after_s, round + 1, c.second_after_s, c.prime_gap_s),
                                replay: rj.clone(),
                            });
                        }
                    }
                }
            }
        }
    }
    // the reuse log while it turns from an exact set into a bloom filter: for small logs (conversion
    // on the 4th / 8th / 15th token, one hash function so that fingerprints may collide) and every
    // nonce set of a family (arithmetic progressions and SplitMix64 sequences over a grid of seeds), all tokens are used once, then presented again:
    // none may be accepted a second time (false rejections are allowed, false acceptances are not)
    {
        use proto::TokenLog;
        let t0 = std::time::UNIX_EPOCH + Duration::from_secs(2_000_000);
        let life = Duration::from_secs(100);
        let mut logs = 0u64;
        let mut collisions = 0u64;
        let mut first: Option<String> = None;
        for (max_bytes, n) in [(64usize, 5u128), (112, 9), (224, 16), (224, 28)] {
            for base in 0..(if thorough { 400u128 } else { 120 }) {
                for stride in [1u128, 3, 7, 64, 257, 4099, 65_537, 1 << 32] {
                    logs += 1;
                    let log = proto::BloomTokenLog::new(max_bytes, 1);
                    // (progressions for the small strides; for the others the stride seeds a SplitMix64
                    // sequence: token nonces are uniformly random in reality)
                    let nonces: Vec<u128> = if stride < 64 {
                        (0..n).map(|i| base * 1_000_003 + i * stride + 1).collect()
                    } else {
                        let mut x = (base as u64).wrapping_mul(0x9e37_79b9_7f4a_7c15) ^ (stride as u64);
                        (0..n).map(|_| {
                            x = x.wrapping_add(0x9e37_79b9_7f4a_7c15);
                            let mut z = x;
                            z = (z ^ (z >> 30)).wrapping_mul(0xbf58_476d_1ce4_e5b9);
                            z = (z ^ (z >> 27)).wrapping_mul(0x94d0_49bb_1331_11eb);
                            (z ^ (z >> 31)) as u128
                        }).collect()
                    };
                    for x in &nonces {
                        if log.check_and_insert(*x, t0, life).is_err() {
                            collisions += 1;
                        }
                    }
                    let again: Vec<usize> = nonces.iter().enumerate().filter(|(_, x)| log.check_and_insert(**x, t0, life).is_ok()).map(|(i, _)| i).collect();
                    if !again.is_empty() && first.is_none() {
                        first = Some(format!("BloomTokenLog::new({max_bytes}, 1), {n} tokens (nonce family: base {base}, stride/seed {stride}; first nonces {:?}) used once each: presented again, tokens #{again:?} are accepted a second time", &nonces[..2]));
                    }
                }
            }
        }
        rep.evaluations += logs;
        if let Some(w) = first {
            rep.violation(Violation { signature: "token-accepted-twice:reuse-log-conversion".into(), what: w, replay: json!({"check":"c14","kind":"bloom_conversion"}) });
        }
        rep.part("reuse_log_conversion", json!({"logs": logs, "fresh_tokens_rejected_by_fingerprint_collision": collisions}));
    }
    rep.part("acceptance_matrix", json!({"cells": total, "executed": res.len(), "validated": validated, "invalid_token_closes": invalid_token, "capped": capped}));
    if validated == 0 || invalid_token == 0 {
        machinery("vacuity guard: no token was ever validated / no INVALID_TOKEN ever produced");
    }
    // client side: CID echo parameters with and without Retry
    let mut echo = vec![];
    for retry in [false, true] {
        for (name, id, action) in [
            ("original_dst_cid absent", 0x00u64, 0u8),
            ("original_dst_cid wrong", 0x00, 1),
            ("initial_src_cid absent", 0x0f, 0),
            ("initial_src_cid wrong", 0x0f, 1),
            ("retry_src_cid absent", 0x10, 0),
            ("retry_src_cid wrong/unexpected", 0x10, 1),
            ("unchanged", 0xffff, 2),
        ] {
            echo.push((retry, name, id, action));
        }
    }
    for (retry, name, id, action) in echo {
        let r = guarded(|| {
            let mut cfg = cfg_by_name("default");
            cfg.retry = retry;
            let ov: mtls::ParamsOverride = Arc::new(move |orig: &[u8]| {
                let tps = wire::parse_transport_params(orig).unwrap_or_default();
                let mut o = vec![];
                let mut seen = false;
                for (i, v) in &tps {
                    if *i == id {
                        seen = true;
                        if action == 0 {
                            continue;
                        }
                        if action == 1 {
                            put_var(&mut o, *i);
                            put_var(&mut o, 8);
                            o.extend_from_slice(&[0x99; 8]);
                            continue;
                        }
                    }
                    put_var(&mut o, *i);
                    put_var(&mut o, v.len() as u64);
                    o.extend_from_slice(v);
                }
                if !seen && action == 1 {
                    put_var(&mut o, id);
                    put_var(&mut o, 8);
                    o.extend_from_slice(&[0x99; 8]);
                }
                o
            });
            cfg.server_params_override = Some(ov);
            let mut p = std_pair_pre(base, &cfg, Wl::W1, ReadMode::default(), |_| {});
            let mut n = 0;
            while n < 3000 && p.w.t < Duration::from_secs(5) {
                n += 1;
                if crate::scen::workload_done(&p) || !p.w.step() {
                    break;
                }
            }
            let c = p.client();
            let codes: Vec<u64> = c.lost.iter().filter_map(|e| match e { ConnectionError::TransportError(t) => Some(u64::from(t.code)), _ => None }).collect();
            (c.app.obs.connected, codes, p.w.trace_hash())
        });
        rep.evaluations += 1;
        let rj = json!({"check":"c14","kind":"echo","retry":retry,"edit":name});
        match r {
            Err(e) => rep.violation(Violation { signature: "panic".into(), what: format!("CID echo edit '{name}' retry={retry}: panic {e}"), replay: rj }),
            Ok((connected, codes, tr)) => {
                rep.distinct.insert(tr);
                // which edits make the parameters inconsistent with the CIDs actually used?
                let unchanged = action == 2;
                let noop = id == 0x10 && action == 0 && !retry; // removing an absent parameter
                let must_fail = !unchanged && !noop;
                if must_fail && (connected || !codes.contains(&0x8)) {
                    rep.violation(Violation { signature: "cid-echo-not-enforced".into(), what: format!("server transport parameters with {name} (retry={retry}): client connected={connected}, errors {codes:x?}; the handshake must fail with TRANSPORT_PARAMETER_ERROR"), replay: rj });
                } else if !must_fail && (!connected || !codes.is_empty()) {
                    rep.violation(Violation { signature: "consistent-cid-echo-rejected".into(), what: format!("server transport parameters {name} (retry={retry}) are consistent but the client failed: connected={connected} errors {codes:x?}"), replay: rj });
                }
            }
        }
    }
    // client side: which Retry packets are followed (probe machinery shared with C04)
    crate::checks::c04::retry_probe_part(&mut rep, base, thorough, dl);
    rep.sample(json!({"kind":"NewToken","alter":"None","from":"SameIpOtherPort","after_s":0,"twice":true,"meaning":"the genuine NEW_TOKEN token is presented from the same IP but another port: validated the first time, treated as absent the second time"}));
    rep.sample(json!({"kind":"Retry","alter":"Flip(77)","from":"Same","after_s":0,"meaning":"bit 77 of the genuine Retry token is flipped: it must be treated as absent (unvalidated Incoming that may be retried), not as valid and not as INVALID_TOKEN"}));
    rep.assumptions = vec![
        "token AEAD is the real ring-based one shipped in quinn-proto; the handshake around it uses model TLS".into(),
        "token issue times have one-second resolution, so the exact lifetime boundary is probed at lifetime-1 s and lifetime+2 s".into(),
        "forged Retry packets are built with the public Retry integrity key against the connection ID the client is using at that moment".into(),
    ];
    let _ = SocketAddr::from(([0, 0, 0, 0], 0));
    rep.finish()
}

fn replay(args: &Args) -> ! {
    let path = args.replay.as_ref().unwrap();
    let v: Value = serde_json::from_str(&std::fs::read_to_string(path).unwrap_or_else(|e| machinery(&format!("{e}")))).unwrap_or_else(|e| machinery(&format!("{e}")));
    if let Some(out) = crate::checks::replay_comp(&v) {
        println!("{out}");
        std::process::exit(0)
    }
    let r = &v["replay"];
    if r["kind"].as_str() == Some("probe") {
        crate::checks::c04::replay(args);
    }
    let nums = |s: &str| -> usize { s.chars().filter(|c| c.is_ascii_digit()).collect::<String>().parse().unwrap_or(0) };
    let a = r["alter"].as_str().unwrap_or("None");
    let alter = if a.starts_with("Flip") { Alter::Flip(nums(a)) } else if a.starts_with("Truncate") { Alter::Truncate(nums(a)) } else if a.starts_with("Splice") { Alter::Splice(nums(a)) } else if a == "Extend" { Alter::Extend } else if a == "Empty" { Alter::Empty } else { Alter::None };
    let c = Case {
        kind: if r["kind"].as_str() == Some("Retry") { Kind::Retry } else { Kind::NewToken },
        alter,
        from: match r["from"].as_str().unwrap_or("") { "SameIpOtherPort" => From::SameIpOtherPort, "OtherIp" => From::OtherIp, _ => From::Same },
        after_s: r["after_s"].as_u64().unwrap_or(0),
        twice: r["twice"].as_bool().unwrap_or(false),
        second_after_s: r["second_after_s"].as_u64(),
        prime_gap_s: r["prime_gap_s"].as_u64(),
    };
    match run_case(Instant::now(), &c) {
        Err(e) => println!("PANIC {e}"),
        Ok(None) => println!("not applicable"),
        Ok(Some(o)) => println!("case {c:?}\nverdicts (incoming (validated, may_retry), stateless close code) = {:x?} token_len={}\nexpected first: {:?}", o.verdicts, o.token_len, expected(&c, 0)),
    }
    std::process::exit(0)
}
