//! C07 — unvalidated addresses are never sent more than 3x what they sent; bounded
//! stateless responses.

use std::{
    collections::BTreeMap,
    net::SocketAddr,
    time::{Duration, Instant},
};

use bytes::BytesMut;
use serde_json::{json, Value};

use crate::{
    app::ReadMode,
    explore::{self, deadline, e3, guarded},
    ledger::{cid_len_of, decode},
    puppet,
    report::{machinery, Args, Report, Tier, Violation},
    scen::{cfg_by_name, std_pair_pre, StdPair, Wl},
    sim::{addr, Fate, PairCfg, Rec, Routed, CLIENT, SERVER},
    wire::{self, PType, WFrame},
};

/// Byte ledger of the server endpoint per remote address. Returns (violations, number of
/// emissions that were made with less than one datagram of budget left = boundary reached)
pub fn amp_violations(p: &StdPair) -> (Vec<(String, String)>, u64) {
    let mut out = vec![];
    let mut near = 0u64;
    let mut recv: BTreeMap<SocketAddr, u64> = BTreeMap::new();
    let mut sent: BTreeMap<SocketAddr, u64> = BTreeMap::new();
    let mut validated: BTreeMap<SocketAddr, Duration> = BTreeMap::new();
    let mut emitted: BTreeMap<u64, (usize, Vec<u8>, SocketAddr)> = BTreeMap::new();
    let server_addr = p.w.nodes[SERVER].addr;
    let mut challenges: BTreeMap<SocketAddr, Vec<u64>> = BTreeMap::new();
    let mut token_leak_reported = false;
    // the server's own claim "validated by token" is honoured only where a token can have proved
    // something: a Retry was sent to exactly that address before (Retry tokens bind IP and port), or
    // the server had completed a handshake with that IP before (NEW_TOKEN tokens bind the IP)
    for (t, a, v, _) in &p.w.nodes[SERVER].incomings {
        if !*v {
            continue;
        }
        let justified = p.w.recs.iter().any(|r| match r {
            Rec::Emit { node, data, dst, t: te, .. } if *node == SERVER && *te <= *t => {
                let long = data.first().map_or(false, |b| b & 0x80 != 0);
                if long {
                    *dst == *a && wire::parse_datagram(data, 0).0.first().map_or(false, |pk| pk.ty == PType::Retry)
                } else {
                    dst.ip() == a.ip()
                }
            }
            _ => false,
        });
        if justified {
            validated.entry(*a).or_insert(*t);
        }
    }
    for r in &p.w.recs {
        match r {
            Rec::Emit { node, idx, data, dst, src, t, ch, .. } => {
                emitted.insert(*idx, (*node, data.clone(), *src));
                if *node != SERVER {
                    continue;
                }
                let _ = server_addr;
                // stateless resets are the endpoint's answer to a datagram that no connection received
                // (so it is in nobody's "received" sum); they have their own rule - smaller than the
                // inciting datagram, rate-limited - judged by the stateless-response part
                if ch.is_none() && data.first().map_or(false, |b| b & 0x80 == 0) {
                    continue;
                }
                // remember path challenges sent to this address
                for (_, frames) in decode(data, cid_len_of(&p.w, *dst)) {
                    for f in frames {
                        if let WFrame::PathChallenge(x) = f {
                            // a challenge token is the secret only a host at THAT address can echo:
                            // the same token must never be shown to a second address
                            if let Some((other, _)) = challenges.iter().find(|(a, v)| *a != dst && v.contains(&x)) {
                                if !token_leak_reported {
                                    token_leak_reported = true;
                                    out.push((
                                        "path-challenge-token-shown-to-another-address".into(),
                                        format!("server at {t:?} sends PATH_CHALLENGE({x}) to {dst}, the same token it sent to {other}: whoever receives it there can answer for {dst}"),
                                    ));
                                }
                            }
                            challenges.entry(*dst).or_default().push(x);
                        }
                    }
                }
                let is_valid = validated.get(dst).map_or(false, |tv| *tv <= *t);
                let s = sent.entry(*dst).or_insert(0);
                let rcv = recv.get(dst).copied().unwrap_or(0);
                if !is_valid {
                    if *s >= 3 * rcv {
                        out.push((
                            "amplification-limit-exceeded".into(),
                            format!("server at {t:?} emits a {}-byte datagram to unvalidated {dst} having already sent {} with only {} received (3x = {})", data.len(), *s, rcv, 3 * rcv),
                        ));
                    }
                    if *s + data.len() as u64 >= 3 * rcv {
                        near += 1;
                    }
                }
                *s += data.len() as u64;
            }
            Rec::Deliver { node, idx, src, len, routed, t, injected, .. } if *node == SERVER => {
                // (a datagram answered statelessly - Retry, refusal, INVALID_TOKEN - was received from
                // that address all the same)
                if matches!(routed, Routed::Conn(_) | Routed::New(_) | Routed::Response(_)) {
                    *recv.entry(*src).or_insert(0) += *len as u64;
                }
                if *injected {
                    continue;
                }
                // genuine Handshake packet from this address, or a PATH_RESPONSE echoing a challenge
                if let Some((from, data, _)) = emitted.get(idx) {
                    if *from == SERVER {
                        continue;
                    }
                    for (pk, frames) in decode(data, p.w.nodes[SERVER].cid_len) {
                        if pk.ty == PType::Handshake && matches!(routed, Routed::Conn(_)) {
                            validated.entry(*src).or_insert(*t);
                        }
                        for f in frames {
                            if let WFrame::PathResponse(x) = f {
                                if challenges.get(src).map_or(false, |c| c.contains(&x)) {
                                    validated.entry(*src).or_insert(*t);
                                }
                            }
                        }
                    }
                }
            }
            _ => {}
        }
    }
    out.truncate(4);
    (out, near)
}

#[derive(Clone, Debug)]
struct HsCase {
    cfg: String,
    mask: u64,
    k: u32,
    /// blackhole the client after this step (client vanishes)
    vanish_at: Option<u64>,
    dup_reorder: Option<(u64, u16)>,
}

fn cfgs(thorough: bool) -> Vec<PairCfg> {
    let mut v = vec![];
    for cert in [500usize, 3000, 10_000] {
        for mtu in [1200u16, 1452] {
            for retry in [false, true] {
                for gso in [10usize, 1] {
                    if !thorough && ((gso == 1 && cert != 10_000) || (retry && mtu == 1452 && cert == 500)) {
                        continue;
                    }
                    let mut c = cfg_by_name("default");
                    c.cert_len = cert;
                    c.server.initial_mtu = mtu;
                    c.client.initial_mtu = mtu;
                    c.retry = retry;
                    c.max_datagrams = gso;
                    c.client.name = format!("cert{cert}-mtu{mtu}-retry{}-gso{gso}", retry as u8);
                    v.push(c);
                }
            }
        }
    }
    v
}

fn run_hs(base: Instant, cfgs: &[PairCfg], c: &HsCase, dump: bool) -> (u64, Vec<(String, String)>, u64) {
    let r = guarded(|| {
        let cfg = cfgs.iter().find(|x| x.client.name == c.cfg).unwrap();
        let mut p = std_pair_pre(base, cfg, Wl::W1, ReadMode::default(), |w| {
            w.drop_mask = c.mask;
            if let Some((i, a)) = c.dup_reorder {
                w.fates.insert(i, crate::explore::FATE_ALTS[a as usize]);
            }
        });
        let hz = Duration::from_secs(30);
        loop {
            if let Some(v) = c.vanish_at {
                if p.w.steps == v {
                    p.w.blackhole[CLIENT] = true;
                }
            }
            if p.w.steps > 8000 {
                break;
            }
            match p.w.next_event() {
                None => break,
                Some((at, _)) if at > hz => break,
                _ => {}
            }
            p.w.step();
        }
        p
    });
    match r {
        Err(e) => (0, vec![("panic".into(), format!("panic: {e}"))], 0),
        Ok(p) => {
            if dump {
                print!("{}", crate::trace::dump(&p.w));
            }
            let (v, near) = amp_violations(&p);
            (p.w.trace_hash(), v, near)
        }
    }
}

/// The server is the sender while a copy of a client datagram arrives from an address that never
/// answers: (trace hash, violations, near-limit count, bytes the server sent to that address)
fn run_spoofed_rebinding(base: Instant, ipv4: bool, same_ip: bool, step: u64, silent: bool, dgrams: bool, dump: bool) -> Result<(u64, Vec<(String, String)>, u64, u64), String> {
    guarded(|| {
                let mut cfg = cfg_by_name("default");
                cfg.ipv4 = ipv4;
                if dgrams {
                    // an MTU above 1200: datagrams to the unvalidated address may be larger than the
                    // padded first one
                    cfg.client.initial_mtu = 1400;
                    cfg.server.initial_mtu = 1400;
                }
                // the server is the bulk sender (60 kB towards the client), so it has plenty to send to
                // whatever it believes the client's address to be
                let (mut bulk, _) = crate::scen::plans(Wl::W6, ReadMode::default());
                if dgrams {
                    // ... or application datagrams of alternating sizes (a small one never fills a
                    // packet, a large one does not fit behind it), 240 of them
                    bulk.streams.clear();
                    bulk.datagrams = (0..240).map(|i| if i % 2 == 0 { 500 } else { 1300 }).collect();
                }
                // (with datagrams the copied client datagram is a large one - it carries a 1000-byte
                // application datagram - and buys a budget of a few datagrams)
                let mut p = crate::scen::std_pair_plans(base, &cfg, crate::app::Plan::default(), bulk);
                let genuine = p.w.nodes[CLIENT].addr;
                let fake = if same_ip { std::net::SocketAddr::new(genuine.ip(), genuine.port() + 7) } else if ipv4 { crate::sim::addr4(9) } else { addr(9) };
                let mut script = vec![(step, if dgrams { crate::scen::Op::SpoofedCopyBig(fake) } else { crate::scen::Op::SpoofedCopy(fake) })];
                if silent {
                    script.push((step, crate::scen::Op::Blackhole(CLIENT)));
                }
                let _ = crate::scen::drive(&mut p, &script, 30_000, Duration::from_secs(20));
                // (datagrams are not part of what `drive` waits for: give the exchange two more seconds)
                let until = p.w.t + Duration::from_secs(2);
                let mut g = 0;
                while g < 20_000 {
                    g += 1;
                    match p.w.next_event() {
                        Some((at, _)) if at <= until => {
                            p.w.step();
                        }
                        _ => break,
                    }
                }
                let (v, near) = amp_violations(&p);
                let to_fake: u64 = p.w.recs.iter().map(|r| match r { Rec::Emit { node, dst, data, .. } if *node == SERVER && *dst == fake => data.len() as u64, _ => 0 }).sum();
                if dump {
                    print!("{}", crate::trace::dump(&p.w));
                }
                (p.w.trace_hash(), v, near, to_fake)
    })
}

/// A Retry token is bound to the address it was issued for: the client's token-bearing Initial reaches
/// the server from another address (same IP other port / other IP same port / both different) that
/// never answers. Whatever the server makes of the token, that address gets at most three times what
/// came from it. Returns violations.
fn run_retry_token_from_elsewhere(base: Instant, which: u8, cert: usize) -> Result<(u64, Vec<(String, String)>), String> {
    guarded(|| {
        let mut cfg = cfg_by_name("retry");
        cfg.cert_len = cert;
        let genuine = crate::sim::addr(CLIENT);
        let fake = match which {
            0 => SocketAddr::new(genuine.ip(), genuine.port() + 9),
            1 => SocketAddr::new(addr(9).ip(), genuine.port()),
            _ => addr(9),
        };
        let mut p = std_pair_pre(base, &cfg, Wl::W1, ReadMode::default(), |w| {
            // emission #0 = the client's first Initial, #1 = the server's Retry, from #2 on the client's
            // datagrams carry the token: they arrive from the other address
            w.src_rewrite.push((CLIENT, 2, fake));
        });
        let mut g = 0;
        while g < 4000 && p.w.t < Duration::from_secs(20) {
            g += 1;
            // the host at the other address never answers: after its token-bearing Initial the client
            // is silent
            if p.w.emitted >= 3 {
                p.w.blackhole[CLIENT] = true;
            }
            if !p.w.step() {
                break;
            }
        }
        let (v, _) = amp_violations(&p);
        (p.w.trace_hash(), v)
    })
}

/// Spoofed Initial of a given size from an address that never continues
/// `tail` = bytes of undecodable garbage after the Initial; `pkts` = number of well-formed but
/// undecryptable coalesced Handshake-type packets after it (each 45 bytes)
fn run_spoof(base: Instant, cfg: &PairCfg, size: usize, copies: usize, tail: usize, pkts: usize) -> (u64, Vec<(String, String)>, u64, usize, u64) {
    let r = guarded(|| {
        // obtain a genuine first Initial
        let p0 = std_pair_pre(base, cfg, Wl::W0, ReadMode::default(), |_| {});
        let first = p0.w.recs.iter().find_map(|r| match r {
            Rec::Emit { node, data, .. } if *node == CLIENT => Some(data.clone()),
            _ => None,
        }).unwrap();
        let (pk, _) = wire::parse_datagram(&first, 8);
        let ini = pk.into_iter().find(|x| x.ty == PType::Initial).unwrap();
        let mut p = std_pair_pre(base, cfg, Wl::W0, ReadMode::default(), |w| w.blackhole_all_from_start());
        let fake = addr(11);
        let saddr = p.w.nodes[SERVER].addr;
        for i in 0..copies {
            let mut coalesced = vec![];
            for k in 0..pkts {
                coalesced.push(0xe0 | 0x03);
                coalesced.extend_from_slice(&ini.version.to_be_bytes());
                coalesced.push(ini.dcid.len() as u8);
                coalesced.extend_from_slice(&ini.dcid);
                coalesced.push(ini.scid.len() as u8);
                coalesced.extend_from_slice(&ini.scid);
                wire::put_var(&mut coalesced, 24);
                coalesced.extend((0..24).map(|j| (j * 7 + k) as u8));
            }
            let mut d = puppet::reforge_initial(&ini, size - tail - coalesced.len().min(size - tail - 200), i as u64);
            d.extend_from_slice(&coalesced);
            // trailing bytes after the Initial packet's own length: an undecodable coalesced remainder
            d.extend((0..tail).map(|j| (j * 13 + 5) as u8 & 0x7f));
            p.w.inject(fake, saddr, d, Duration::from_millis(i as u64));
        }
        let hz = Duration::from_secs(30);
        while p.w.steps < 4000 {
            match p.w.next_event() {
                Some((at, _)) if at <= hz => {
                    p.w.step();
                }
                _ => break,
            }
        }
        p
    });
    match r {
        Err(e) => (0, vec![("panic".into(), format!("panic: {e}"))], 0, 0, 0),
        Ok(p) => {
            let (v, near) = amp_violations(&p);
            let oc = p.w.nodes[SERVER].ep.open_connections() + p.w.nodes[SERVER].dead.len();
            let emitted_to_fake: u64 = p.w.recs.iter().map(|r| match r {
                Rec::Emit { node, dst, data, .. } if *node == SERVER && *dst == addr(11) => data.len() as u64,
                _ => 0,
            }).sum();
            (p.w.trace_hash(), v, near, oc, emitted_to_fake)
        }
    }
}

pub fn main(args: &Args) -> ! {
    if args.replay.is_some() {
        replay(args);
    }
    explore::quiet_panics();
    let base = Instant::now();
    let mut rep = Report::new("C07", args, "fault_enumeration");
    let thorough = args.tier == Tier::Thorough;
    let dl = deadline(if thorough { 1200 } else { 45 });
    let k: u32 = if thorough { 13 } else { 10 };
    let cs = cfgs(thorough);
    rep.rule = format!("E3 on the real server endpoint with a byte ledger per remote address built from the harness's delivery and emission log: (a) honest client, every drop mask over the first K={k} datagrams of both directions (so the server also runs on its timers alone), 30 s of virtual time, for certificate size x initial MTU x Retry x GSO configurations; (b) client vanishing after every step; (c) single dup/delay/reorder of each early datagram; (d) spoofed Initials of sizes 1199/1200/1201/1452 (1-3 copies, alone, with 1/300/900 bytes of coalesced garbage, or with 1/2/5/20 well-formed undecryptable coalesced packets) from an address that never answers; (e) stateless reset: inciting datagrams of EVERY size 1..=1300 and pairs 0/19/20/21 ms apart; (f) Initials of every size 1..=1199, with the client's own destination CID and with destination CIDs of 0/1/4/7/9/20 bytes, with and without a token. Invariant for each datagram emitted before the address is validated: bytes sent before it < 3 x bytes received. Non-trivial = execution whose trace differs from the baseline; distinct = distinct trace hashes.");
    let mut tasks = vec![];
    for c in &cs {
        for mask in 0..(1u64 << k) {
            tasks.push(HsCase { cfg: c.client.name.clone(), mask, k, vanish_at: None, dup_reorder: None });
        }
        for s in 0..(if thorough { 40 } else { 24 }) {
            tasks.push(HsCase { cfg: c.client.name.clone(), mask: 0, k, vanish_at: Some(s), dup_reorder: None });
        }
        for i in 0..(if thorough { 14 } else { 8 }) {
            for a in 0..crate::explore::FATE_ALTS.len() as u16 {
                tasks.push(HsCase { cfg: c.client.name.clone(), mask: 0, k, vanish_at: None, dup_reorder: Some((i, a)) });
            }
        }
    }
    let n_hs = tasks.len();
    let (res, capped) = e3(tasks, dl, |c| run_hs(base, &cs, c, false));
    rep.exhaustive &= !capped;
    let mut near_total = 0u64;
    let mut baselines = BTreeMap::new();
    for (c, (tr, _, _)) in &res {
        if c.mask == 0 && c.vanish_at.is_none() && c.dup_reorder.is_none() {
            baselines.insert(c.cfg.clone(), *tr);
        }
    }
    for (c, (tr, v, near)) in &res {
        rep.evaluations += 1;
        near_total += near;
        if baselines.get(&c.cfg) != Some(tr) {
            rep.distinct.insert(*tr);
        }
        for (sig, what) in v {
            rep.violation(Violation {
                signature: sig.clone(),
                what: format!("cfg={} dropmask={:#b} vanish_at={:?} fate={:?}: {what}", c.cfg, c.mask, c.vanish_at, c.dup_reorder),
                replay: json!({"check":"c07","kind":"hs","cfg":c.cfg,"mask":c.mask,"k":c.k,"vanish_at":c.vanish_at,"fate":c.dup_reorder}),
            });
        }
    }
    rep.part("handshake_ledger", json!({"configs": cs.len(), "K": k, "cases": n_hs, "executed": res.len(), "emissions_at_budget_boundary": near_total, "capped": capped}));
    if near_total == 0 {
        machinery("vacuity guard: the server never came within one datagram of its anti-amplification budget");
    }
    // a Retry token presented from another address than the one it was issued for
    {
        let mut n = 0u64;
        for which in [0u8, 1, 2] {
            for cert in [500usize, 6000, 10_000] {
                n += 1;
                rep.evaluations += 1;
                let rj = json!({"check":"c07","kind":"retry-token-from-elsewhere","which":which,"cert":cert});
                match run_retry_token_from_elsewhere(base, which, cert) {
                    Err(e) => rep.violation(Violation { signature: "panic".into(), what: format!("retry token from elsewhere: panic: {e}"), replay: rj }),
                    Ok((tr, v)) => {
                        rep.distinct.insert(tr);
                        for (sig, what) in v {
                            rep.violation(Violation { signature: format!("{sig}:retry-token-from-another-address"), what: format!("the client's Initial with the Retry token reaches the server from {} (certificate {cert} bytes), nobody answers there: {what}", ["the same IP, another port", "another IP, the same port", "another IP and port"][which as usize]), replay: rj.clone() });
                        }
                    }
                }
            }
        }
        rep.part("retry_token_from_another_address", json!({"cases": n}));
    }
    // spoofed initials
    let mut spoof_tasks = vec![];
    for (ci, _) in cs.iter().enumerate() {
        for size in [1199usize, 1200, 1201, 1452] {
            for copies in [1usize, 2, 3] {
                spoof_tasks.push((ci, size, copies, 0usize, 0usize));
            }
            if size >= 1200 {
                for pkts in [1usize, 2, 5, 20] {
                    for copies in [1usize, 2] {
                        spoof_tasks.push((ci, size, copies, 0, pkts));
                    }
                }
            }
            if size >= 1200 {
                for tail in [1usize, 300, 900] {
                    for copies in [1usize, 2, 3] {
                        spoof_tasks.push((ci, size, copies, tail, 0));
                    }
                }
            }
        }
    }
    let (sres, capped) = e3(spoof_tasks, dl, |&(ci, size, copies, tail, pkts)| run_spoof(base, &cs[ci], size, copies, tail, pkts));
    rep.exhaustive &= !capped;
    for ((ci, size, copies, tail, pkts), (tr, v, _near, oc, to_fake)) in &sres {
        rep.evaluations += 1;
        rep.distinct.insert(*tr);
        let mut v = v.clone();
        if *size < 1200 && (*oc != 0 || *to_fake != 0) {
            v.push(("short-initial-acted-on".into(), format!("a {size}-byte Initial created {oc} connections and drew {to_fake} bytes of reply")));
        }
        if *size >= 1200 && !cs[*ci].retry && *oc == 0 {
            v.clear();
            machinery(&format!("spoofed Initial of {size} bytes created no connection: forged packet is not accepted (harness bug)"));
        }
        for (sig, what) in v {
            rep.violation(Violation {
                signature: sig,
                what: format!("cfg={} spoofed Initial size={size} copies={copies} coalesced-garbage-tail={tail} coalesced-undecryptable-packets={pkts}: {what}", cs[*ci].client.name),
                replay: json!({"check":"c07","kind":"spoof","cfg":cs[*ci].client.name,"size":size,"copies":copies,"tail":tail,"pkts":pkts}),
            });
        }
    }
    rep.part("spoofed_initials", json!({"cases": sres.len()}));
    // after the handshake: a copy of a genuine client datagram arrives from another source address
    // (same IP other port - what a NAT rebinding looks like - or another IP) that never answers;
    // until that address is validated it gets no more than three times what came from it
    {
        let mut tasks = vec![];
        for ipv4 in [true, false] {
            for same_ip in [true, false] {
                for step in [24u64, 30, 36, 45, 60, 80] {
                    for silent in [false, true] {
                        for dgrams in [false, true] {
                            tasks.push((ipv4, same_ip, step, silent, dgrams));
                        }
                    }
                }
            }
        }
        let (res, capped) = e3(tasks, dl, |&(ipv4, same_ip, step, silent, dgrams)| run_spoofed_rebinding(base, ipv4, same_ip, step, silent, dgrams, false));
        rep.exhaustive &= !capped;
        let mut reached = 0u64;
        for ((ipv4, same_ip, step, silent, dgrams), r) in &res {
            rep.evaluations += 1;
            let rj = json!({"check":"c07","kind":"spoofed-rebinding","ipv4":ipv4,"same_ip":same_ip,"step":step,"silent":silent,"dgrams":dgrams});
            match r {
                Err(e) => rep.violation(Violation { signature: "panic".into(), what: format!("spoofed rebinding ipv4={ipv4} same_ip={same_ip} step={step}: panic: {e}"), replay: rj }),
                Ok((tr, v, _, to_fake)) => {
                    rep.distinct.insert(*tr);
                    if *to_fake > 0 {
                        reached += 1;
                    }
                    for (sig, what) in v {
                        rep.violation(Violation { signature: format!("{sig}:new-path"), what: format!("spoofed source ({}{}) at step {step}, genuine client {}, server sending {}: {what}", if *ipv4 { "IPv4, " } else { "IPv6, " }, if *same_ip { "same IP other port" } else { "other IP" }, if *silent { "silent afterwards" } else { "carries on" }, if *dgrams { "application datagrams of 500 / 1300 bytes alternately (MTU 1400)" } else { "a bulk stream" }), replay: rj.clone() });
                    }
                }
            }
        }
        rep.part("spoofed_rebinding", json!({"cases": res.len(), "server_sent_to_the_spoofed_address": reached, "capped": capped}));
        if reached == 0 {
            machinery("vacuity guard: the server never sent anything to a spoofed post-handshake address");
        }
    }
    // off-path probing by an authenticated peer: a (genuinely protected) packet carrying N PATH_CHALLENGE
    // frames arrives from an address that is not the connection's path and never answers; whatever the
    // server sends there stays within three times what came from there
    {
        let mut cases = vec![];
        for n in [1usize, 2, 3, 4, 8, 16] {
            for size in [0usize, 1200] {
                for copies in [1usize, 2] {
                    cases.push((n, size, copies));
                }
            }
        }
        let (res, capped) = e3(cases, dl, |&(n, size, copies)| {
            guarded(|| {
                let cfg = cfg_by_name("default");
                let mut p = std_pair_pre(base, &cfg, Wl::W1, ReadMode::default(), |_| {});
                let mut g = 0;
                while g < 3000 && !crate::scen::workload_done(&p) {
                    g += 1;
                    if !p.w.step() {
                        break;
                    }
                }
                let mut pup = puppet::puppet_for(&p, proto::Side::Client).expect("puppet");
                let dst = p.w.nodes[SERVER].addr;
                let off = addr(8);
                for c in 0..copies {
                    let frames: Vec<WFrame> = (0..n).map(|i| WFrame::PathChallenge(0x1000 * (c as u64 + 1) + i as u64)).collect();
                    let d = pup.packet_raw(2, &crate::wire::frames_bytes(&frames), size);
                    p.w.inject(off, dst, d, Duration::from_micros(10 * c as u64));
                }
                let until = p.w.t + Duration::from_secs(5);
                let mut g = 0;
                while g < 3000 && p.w.next_event().map_or(false, |(at, _)| at <= until) {
                    g += 1;
                    p.w.step();
                }
                let (v, _) = amp_violations(&p);
                let sent: Vec<usize> = p.w.recs.iter().filter_map(|r| match r { Rec::Emit { node, dst, data, .. } if *node == SERVER && *dst == off => Some(data.len()), _ => None }).collect();
                (v, sent.iter().sum::<usize>(), sent.len())
            })
        });
        rep.exhaustive &= !capped;
        let mut answered = 0u64;
        for ((n, size, copies), r) in &res {
            rep.evaluations += 1;
            let rj = json!({"check":"c07","kind":"offpath-probe","challenges":n,"size":size,"copies":copies});
            match r {
                Err(e) => rep.violation(Violation { signature: "panic".into(), what: format!("off-path probe with {n} challenges: panic: {e}"), replay: rj }),
                Ok((v, sent, responses)) => {
                    if *sent > 0 {
                        answered += 1;
                    }
                    if let Some((sig, what)) = v.first() {
                        // one padded response per probing datagram is the known behaviour (F38: off-path
                        // responses are charged to no budget); more responses than probes is not
                        let kind = if *responses <= *copies { "one-response-per-probe" } else { "more-responses-than-probes" };
                        rep.violation(Violation { signature: format!("{sig}:off-path-probe:{kind}"), what: format!("{copies} probing packet(s) of {} bytes with {n} PATH_CHALLENGE frames each from an address that is not the path: {what}", if *size == 0 { "minimal".to_string() } else { size.to_string() }), replay: rj });
                    }
                }
            }
        }
        rep.part("off_path_probes", json!({"cases": res.len(), "answered": answered, "capped": capped}));
        if answered == 0 {
            machinery("vacuity guard: no off-path probe was ever answered");
        }
    }
    // stateless resets and short initials: direct endpoint calls
    let cfg = cfg_by_name("default");
    let p0 = std_pair_pre(base, &cfg, Wl::W0, ReadMode::default(), |_| {});
    let first = p0.w.recs.iter().find_map(|r| match r {
        Rec::Emit { node, data, .. } if *node == CLIENT => Some(data.clone()),
        _ => None,
    }).unwrap();
    let ini = wire::parse_datagram(&first, 8).0.into_iter().find(|x| x.ty == PType::Initial).unwrap();
    let mut n_sr = 0u64;
    let mut sr_sent = 0u64;
    for role_server in [true, false] {
        for size in 1..=1300usize {
            let mut p = std_pair_pre(base, &cfg, Wl::W0, ReadMode::default(), |w| w.blackhole_all_from_start());
            let node = if role_server { SERVER } else { CLIENT };
            let now = p.w.now();
            let mut buf = Vec::new();
            let mut d = vec![0x43u8; size];
            for (i, b) in d.iter_mut().enumerate().skip(1) {
                *b = (i * 31 + 7) as u8;
            }
            let before = (p.w.nodes[node].ep.open_connections(), p.w.nodes[node].ep.incoming_buffer_bytes());
            let ev = p.w.nodes[node].ep.handle(now, addr(12), None, None, BytesMut::from(&d[..]), &mut buf);
            n_sr += 1;
            rep.evaluations += 1;
            let after = (p.w.nodes[node].ep.open_connections(), p.w.nodes[node].ep.incoming_buffer_bytes());
            let resp = match ev {
                Some(proto::DatagramEvent::Response(t)) => Some(t.size),
                None => None,
                _ => Some(usize::MAX),
            };
            let mut h = std::collections::hash_map::DefaultHasher::new();
            use std::hash::{Hash, Hasher};
            (role_server, size, resp).hash(&mut h);
            rep.distinct.insert(h.finish());
            if let Some(r) = resp {
                sr_sent += 1;
                if r >= size {
                    rep.violation(Violation { signature: "stateless-reset-not-smaller".into(), what: format!("a {size}-byte datagram for an unknown connection drew a {r}-byte response"), replay: json!({"check":"c07","kind":"reset","size":size,"server":role_server}) });
                }
            }
            if before != after {
                rep.violation(Violation { signature: "stateless-input-created-state".into(), what: format!("a {size}-byte datagram for an unknown connection changed endpoint state {before:?} -> {after:?}"), replay: json!({"check":"c07","kind":"reset","size":size,"server":role_server}) });
            }
            // second inciting datagram dt later
            for dt in [0u64, 19, 20, 21] {
                if size != 100 && size != 1200 {
                    continue;
                }
                let mut buf2 = Vec::new();
                let ev2 = p.w.nodes[node].ep.handle(now + Duration::from_millis(dt), addr(12), None, None, BytesMut::from(&d[..]), &mut buf2);
                rep.evaluations += 1;
                let got = matches!(ev2, Some(proto::DatagramEvent::Response(_)));
                if got && dt < 20 {
                    rep.violation(Violation { signature: "stateless-reset-rate".into(), what: format!("two stateless resets sent {dt} ms apart (min interval 20 ms)"), replay: json!({"check":"c07","kind":"reset-pair","dt":dt}) });
                }
                // restore: fresh endpoint for next dt
                p = std_pair_pre(base, &cfg, Wl::W0, ReadMode::default(), |w| w.blackhole_all_from_start());
                let mut b3 = Vec::new();
                let _ = p.w.nodes[node].ep.handle(now, addr(12), None, None, BytesMut::from(&d[..]), &mut b3);
            }
        }
    }
    // Initials of every size 1..=1199 at a server: no state, no reply
    // ... for the client's own destination CID and for destination CIDs of every other length class
    // (shorter than the 8 bytes a first Initial must carry, the server's own length, the maximum),
    // without and with a token
    let dcids: Vec<Vec<u8>> = vec![ini.dcid.clone(), vec![], vec![0x5c; 1], vec![0x5c; 4], vec![0x5c; 7], vec![0x5c; 9], vec![0x5c; 20]];
    let mut short_initial_cases = 0u64;
    for (di, dcid) in dcids.iter().enumerate() {
      for token in [&b""[..], &b"some-token-bytes"[..]] {
        if di == 0 && !token.is_empty() {
            continue;
        }
    for size in 1..=1199usize {
        if di != 0 && size % 7 != 1 && size > 120 && size < 1190 {
            continue;
        }
        short_initial_cases += 1;
        let mut p = std_pair_pre(base, &cfg, Wl::W0, ReadMode::default(), |w| w.blackhole_all_from_start());
        let d = puppet::reforge_initial_with(&ini, size, 0, dcid, token);
        let d = if d.len() > size { d[..size].to_vec() } else { d };
        let now = p.w.now();
        let mut buf = Vec::new();
        let ev = p.w.nodes[SERVER].ep.handle(now, addr(13), None, None, BytesMut::from(&d[..]), &mut buf);
        rep.evaluations += 1;
        let oc = p.w.nodes[SERVER].ep.open_connections();
        let ib = p.w.nodes[SERVER].ep.incoming_buffer_bytes();
        if ev.is_some() || oc != 0 || ib != 0 {
            let what = match &ev {
                Some(proto::DatagramEvent::Response(t)) => format!("a response of {} bytes", t.size),
                Some(proto::DatagramEvent::NewConnection(_)) => "a new connection".to_string(),
                Some(_) => "a connection event".to_string(),
                None => "state".to_string(),
            };
            if let Some(proto::DatagramEvent::NewConnection(inc)) = ev {
                p.w.nodes[SERVER].ep.ignore(inc);
            }
            rep.violation(Violation { signature: "short-initial-acted-on".into(), what: format!("an Initial (destination CID of {} bytes, token of {} bytes) in a {}-byte datagram produced {what} (open={oc}, buffered={ib})", dcid.len(), token.len(), d.len()), replay: json!({"check":"c07","kind":"short-initial","size":size,"dcid_len":dcid.len(),"token_len":token.len()}) });
        }
    }
      }
    }
    rep.part("stateless", json!({"inciting_sizes": n_sr, "responses": sr_sent, "short_initial_sizes": 1199, "short_initial_cases": short_initial_cases, "destination_cid_lengths": dcids.iter().map(|d| d.len()).collect::<Vec<_>>()}));
    rep.sample(json!({"kind":"hs","cfg":cs[0].client.name,"mask":"0b110","meaning":"datagrams #1 and #2 (the server's first flight) are dropped; the server must retransmit on its timers without ever having sent 3x the bytes it received from the still unvalidated client address"}));
    rep.assumptions = vec![
        "address validated = first genuine Handshake packet delivered from it and routed to the connection, or Incoming::remote_address_validated() at accept (token), or a PATH_RESPONSE echoing a challenge sent there".into(),
        "received bytes = datagrams delivered from the address and routed to a connection or creating one".into(),
    ];
    let _ = Fate::Drop;
    rep.finish()
}

fn replay(args: &Args) -> ! {
    let path = args.replay.as_ref().unwrap();
    let v: Value = serde_json::from_str(&std::fs::read_to_string(path).unwrap_or_else(|e| machinery(&format!("{e}")))).unwrap_or_else(|e| machinery(&format!("{e}")));
    let r = &v["replay"];
    let cs = cfgs(true);
    match r["kind"].as_str().unwrap_or("") {
        "hs" => {
            let c = HsCase {
                cfg: r["cfg"].as_str().unwrap().to_string(),
                mask: r["mask"].as_u64().unwrap_or(0),
                k: r["k"].as_u64().unwrap_or(8) as u32,
                vanish_at: r["vanish_at"].as_u64(),
                dup_reorder: r["fate"].as_array().map(|a| (a[0].as_u64().unwrap(), a[1].as_u64().unwrap() as u16)),
            };
            let (_, v, near) = run_hs(Instant::now(), &cs, &c, true);
            println!("violations={v:?} near={near}");
        }
        "spoof" => {
            let cfg = cs.iter().find(|c| c.client.name == r["cfg"].as_str().unwrap_or("")).unwrap_or_else(|| machinery("unknown cfg"));
            let g = |k: &str| r[k].as_u64().unwrap_or(0) as usize;
            let (_, v, near, oc, to_fake) = run_spoof(Instant::now(), cfg, g("size"), g("copies").max(1), g("tail"), g("pkts"));
            println!("violations={v:?} near={near} connections={oc} bytes_sent_to_spoofed_address={to_fake}");
        }
        "spoofed-rebinding" => {
            let o = run_spoofed_rebinding(Instant::now(), r["ipv4"].as_bool().unwrap_or(false), r["same_ip"].as_bool().unwrap_or(false), r["step"].as_u64().unwrap_or(30), r["silent"].as_bool().unwrap_or(false), r["dgrams"].as_bool().unwrap_or(false), true);
            println!("{:?}", o.map(|(_, v, near, to_fake)| (v, near, to_fake)));
        }
        other => println!("replay kind {other}: parameters {r}"),
    }
    std::process::exit(0)
}
