//! C15 — path migration keeps the connection and cannot be hijacked.

use std::{
    collections::BTreeMap,
    net::SocketAddr,
    time::{Duration, Instant},
};

use serde_json::{json, Value};

use crate::{
    app::ReadMode,
    checks::c07::amp_violations,
    explore::{self, deadline, e3, guarded},
    ledger::{cid_len_of, decode},
    report::{machinery, Args, Report, Tier, Violation},
    scen::{apply_op, cfg_by_name, completion, integrity, std_pair_pre, workload_done, wl_from_str, Op, StdPair, Wl},
    sim::{addr, addr4, Fate, Flight, PairCfg, Rec, Routed, CLIENT, SERVER},
    wire::WFrame,
};

#[derive(Clone, Debug, PartialEq)]
pub enum Kind {
    /// client moves to a new address (port only / full) and keeps sending from it
    Rebind { full_ip: bool },
    /// full address change to a path with this much more one-way delay (handover to a slower link)
    RebindSlow { extra_ms: u64 },
    /// two migrations, second at j + gap
    Double { gap: u64 },
    /// attacker replays a genuine client datagram from a third address ahead of the original
    Attacker { client_silent: bool },
    /// server has migration disabled; client moves
    DisabledRebind,
    /// copies of server datagrams reach the client from a foreign address
    ClientOffPath,
}

#[derive(Clone, Debug)]
pub struct Case {
    pub v4: bool,
    pub wl: Wl,
    pub kind: Kind,
    pub at: u64,
    /// one optional fate deviation (emission index relative to the migration point, alt)
    pub dev: Option<(u64, u16)>,
}

const ALTS: [Fate; 3] = [Fate::Drop, Fate::Dup(Duration::from_millis(15)), Fate::Delay(Duration::from_millis(40))];

fn a(v4: bool, n: usize) -> SocketAddr {
    if v4 { addr4(n) } else { addr(n) }
}

fn port_only(base: SocketAddr, d: u16) -> SocketAddr {
    let mut x = base;
    x.set_port(base.port() + d);
    x
}

pub struct Out {
    pub trace: u64,
    pub viol: Vec<(String, String)>,
    pub migrated: bool,
    pub steps: u64,
}

pub fn run(base: Instant, c: &Case, dump: bool) -> Out {
    let r = guarded(|| {
        let mut cfg: PairCfg = cfg_by_name("cidlife");
        cfg.cid_lifetime = Some(Duration::from_secs(2));
        cfg.ipv4 = c.v4;
        cfg.migration = c.kind != Kind::DisabledRebind;
        if c.wl == Wl::W15 {
            // the downloading client is really receive-only: no MTU probes of its own
            cfg.client.mtud = crate::sim::Mtud::Off;
        }
        let mut p = std_pair_pre(base, &cfg, c.wl, ReadMode::default(), |w| w.probe_pre = true);
        let genuine = p.w.nodes[CLIENT].addr;
        let attacker = a(c.v4, 9);
        let new1 = match &c.kind {
            Kind::Rebind { full_ip: true } | Kind::RebindSlow { .. } => a(c.v4, 7),
            _ => port_only(genuine, 100),
        };
        let new2 = port_only(genuine, 200);
        let mut acted = false;
        let mut held: Option<crate::sim::Flight> = None;
        let mut second = false;
        let mut t_spoof: Option<Duration> = None;
        let mut pto_bound = Duration::ZERO;
        let mut viol: Vec<(String, String)> = vec![];
        let mut validated_new: BTreeMap<SocketAddr, Duration> = BTreeMap::new();
        let mut reverted_at: Option<Duration> = None;
        let mut rx_at_rebind = 0u64;
        let hz = Duration::from_secs(120);
        loop {
            let est = !p.client().conn.is_handshaking() && p.server().map_or(false, |s| !s.conn.is_handshaking());
            if !acted && est && p.w.steps >= c.at {
                acted = true;
                let e0 = p.w.emitted;
                if let Some((rel, alt)) = c.dev {
                    if rel == 2000 {
                        // the newest datagram the client sent from its old address is held back until
                        // right behind the first one from the new address: adjacent packet numbers
                        // arrive swapped
                        let (from, to) = (p.w.nodes[CLIENT].addr, p.w.nodes[SERVER].addr);
                        if let Some(seq) = p.w.net.iter().filter(|f| f.src == from && f.dst == to).map(|f| f.seq).max() {
                            if let Some(pos) = p.w.net.iter().position(|f| f.seq == seq) {
                                held = Some(p.w.net.remove(pos));
                            }
                        }
                    } else if rel >= 1000 {
                        // reordering across the migration: the newest datagrams the client sent from its
                        // old address are still in flight and arrive 40 ms late, after the first ones
                        // from the new address
                        let (from, to) = (p.w.nodes[CLIENT].addr, p.w.nodes[SERVER].addr);
                        let mut seqs: Vec<u64> = p.w.net.iter().filter(|f| f.src == from && f.dst == to).map(|f| f.seq).collect();
                        seqs.sort();
                        let late: Vec<u64> = seqs.into_iter().rev().take((rel - 1000) as usize).collect();
                        for f in p.w.net.iter_mut() {
                            if late.contains(&f.seq) {
                                f.at += Duration::from_millis(40);
                            }
                        }
                    } else {
                        p.w.fates.insert(e0 + rel, ALTS[alt as usize]);
                    }
                }
                let spto = p.server().map(|s| s.conn.verif_probe().spaces[2].pto).unwrap_or_default();
                match &c.kind {
                    Kind::Rebind { .. } | Kind::RebindSlow { .. } | Kind::Double { .. } | Kind::DisabledRebind => {
                        if let Kind::RebindSlow { extra_ms } = &c.kind {
                            p.w.addr_latency.push((new1, Duration::from_millis(*extra_ms)));
                        }
                        rx_at_rebind = p.server().map_or(0, |s| s.app.obs.rx.values().map(|r| r.bytes).sum());
                        if c.wl == Wl::W15 {
                            // download: the old NAT mapping lingers for inbound datagrams, so the client
                            // keeps receiving and everything it sends from the new address is an
                            // acknowledgement (no ping)
                            p.w.aliases.push((genuine, CLIENT));
                            apply_op(&mut p, &Op::Rebind(CLIENT, new1));
                        } else {
                            apply_op(&mut p, &Op::Rebind(CLIENT, new1));
                            // make sure the client has something to say from the new address
                            apply_op(&mut p, &Op::Ping(CLIENT));
                        }
                    }
                    Kind::Attacker { client_silent } => {
                        // take the next datagram the client emits: send a ping to be sure there is one
                        let before = p.w.recs.len();
                        apply_op(&mut p, &Op::Ping(CLIENT));
                        let copy = p.w.recs[before..].iter().find_map(|r| match r {
                            Rec::Emit { node, data, idx, .. } if *node == CLIENT => Some((data.clone(), *idx)),
                            _ => None,
                        });
                        if let Some((data, idx)) = copy {
                            // the copy overtakes the original
                            let at_orig = p.w.net.iter().find(|f| f.idx == idx).map(|f| f.at);
                            let lat = p.w.latency;
                            let saddr = p.w.nodes[SERVER].addr;
                            p.w.inject(attacker, saddr, data, lat.saturating_sub(Duration::from_micros(500)).max(Duration::from_micros(1)).min(at_orig.map_or(lat, |x| x.saturating_sub(p.w.t))));
                            t_spoof = Some(p.w.t + lat);
                            let new_pto = Duration::from_millis(333 * 3 + 25);
                            pto_bound = 3 * spto.max(new_pto) + Duration::from_millis(2);
                        }
                        if *client_silent {
                            p.w.blackhole[CLIENT] = true;
                        }
                    }
                    Kind::ClientOffPath => {
                        // replay the server's last datagrams to the client from a foreign address
                        let olds: Vec<Vec<u8>> = p.w.recs.iter().rev().filter_map(|r| match r {
                            Rec::Emit { node, data, ch: Some(_), .. } if *node == SERVER => Some(data.clone()),
                            _ => None,
                        }).take(3).collect();
                        for (i, d) in olds.into_iter().enumerate() {
                            p.w.inject(attacker, genuine, d, Duration::from_micros(10 + i as u64));
                        }
                    }
                }
            }
            if let Kind::Double { gap } = &c.kind {
                if acted && !second && p.w.steps >= c.at + gap {
                    second = true;
                    apply_op(&mut p, &Op::Rebind(CLIENT, new2));
                    apply_op(&mut p, &Op::Ping(CLIENT));
                }
            }
            // observe the server's idea of the peer address
            if let Some(s) = p.server() {
                let ra = s.conn.remote_address();
                if let Some(ts) = t_spoof {
                    if p.w.t >= ts && ra == genuine && reverted_at.is_none() {
                        reverted_at = Some(p.w.t);
                    }
                }
            }
            let done = workload_done(&p);
            if done && acted && p.w.net.is_empty() {
                break;
            }
            if p.w.steps > 60_000 {
                break;
            }
            if held.is_some() && p.w.recs.iter().rev().take(6).any(|r| matches!(r, Rec::Deliver { node, src, routed: Routed::Conn(_), .. } if *node == SERVER && *src == new1)) {
                let mut f = held.take().unwrap();
                f.at = p.w.t + Duration::from_micros(200);
                f.seq = p.w.seq;
                p.w.seq += 1;
                p.w.net.push(f);
            }
            match p.w.next_event() {
                None => break,
                Some((at, _)) if at > hz => break,
                _ => {}
            }
            p.w.step();
        }
        // a path validation still under way gets the time its retransmissions need (the client is alive
        // and answers whatever reaches it)
        if matches!(c.kind, Kind::Rebind { .. } | Kind::RebindSlow { .. }) && acted {
            let until = p.w.t + Duration::from_secs(8);
            let mut g = 0;
            while g < 3000 {
                g += 1;
                let settled = p.server().map_or(true, |s| {
                    let pr = s.conn.verif_probe();
                    pr.path_validated && !pr.path_challenge && p.w.net.is_empty()
                });
                if settled {
                    break;
                }
                match p.w.next_event() {
                    Some((at, _)) if at <= until => {
                        p.w.step();
                    }
                    _ => break,
                }
            }
        }
        // ---- oracles
        let server_addr = p.w.nodes[SERVER].addr;
        // PATH_RESPONSE deliveries echoing a challenge sent to that address validate it
        let mut sent_to_new = false;
        let mut abandoned_reported = false;
        let mut challenges: BTreeMap<SocketAddr, Vec<u64>> = BTreeMap::new();
        let mut emitted: BTreeMap<u64, (usize, Vec<u8>, SocketAddr)> = BTreeMap::new();
        for r in &p.w.recs {
            match r {
                Rec::Emit { node, idx, data, dst, src, t, .. } => {
                    emitted.insert(*idx, (*node, data.clone(), *src));
                    if *node == SERVER {
                        for (_, frames) in decode(data, cid_len_of(&p.w, *dst)) {
                            for f in &frames {
                                if let WFrame::PathChallenge(x) = f {
                                    challenges.entry(*dst).or_default().push(*x);
                                }
                                if matches!(f, WFrame::PathChallenge(_) | WFrame::PathResponse(_)) && data.len() < 1200 {
                                    // allowed only when anti-amplification limits the new path
                                    viol.push(("path-validation-below-1200".into(), format!("server at {t:?} sent a {}-byte datagram carrying {f:?} to {dst}", data.len())));
                                }
                            }
                        }
                        // a genuine new path that answers every challenge as soon as it can (round trip
                        // far below 3 x the probe timeout of a fresh path) must not be given up: after
                        // its first datagram to the new address the server sends nothing but path
                        // challenges to the old one
                        if matches!(c.kind, Kind::RebindSlow { .. }) {
                            if *dst == new1 {
                                sent_to_new = true;
                            } else if sent_to_new && *dst == genuine {
                                let only_probe = decode(data, cid_len_of(&p.w, *dst)).iter().all(|(_, fr)| fr.iter().all(|f| matches!(f, WFrame::PathChallenge(_) | WFrame::Padding(_))));
                                if !only_probe && !abandoned_reported {
                                    abandoned_reported = true;
                                    viol.push(("genuine-path-abandoned".into(), format!("server at {t:?} went back to the address the client left ({} bytes to {dst}) although the client keeps answering from the new, slower path", data.len())));
                                }
                            }
                        }
                        // (C) never send to a foreign address when migration is not permitted
                        if c.kind == Kind::DisabledRebind && *dst != genuine {
                            viol.push(("sent-to-unpermitted-address".into(), format!("server (migration disabled) sent {} bytes to {dst} at {t:?}", data.len())));
                        }
                    }
                    if *node == CLIENT && c.kind == Kind::ClientOffPath && *dst != server_addr && matches!(r, Rec::Emit { ch: Some(_), .. }) {
                        viol.push(("client-sent-off-path".into(), format!("client sent {} bytes to {dst} at {t:?}", data.len())));
                    }
                }
                Rec::Deliver { node, idx, src, t, routed: Routed::Conn(_), .. } if *node == SERVER => {
                    if let Some((from, data, _)) = emitted.get(idx) {
                        if *from == CLIENT {
                            for (_, frames) in decode(data, p.w.nodes[SERVER].cid_len) {
                                for f in frames {
                                    if let WFrame::PathResponse(x) = f {
                                        if challenges.get(src).map_or(false, |c| c.contains(&x)) {
                                            validated_new.entry(*src).or_insert(*t);
                                        }
                                    }
                                }
                            }
                        }
                    }
                }
                _ => {}
            }
        }
        let final_remote = p.server().map(|s| s.conn.remote_address());
        let mut migrated = false;
        match &c.kind {
            Kind::Rebind { .. } | Kind::RebindSlow { .. } | Kind::Double { .. } => {
                let target = if matches!(c.kind, Kind::Double { .. }) && second { new2 } else { new1 };
                if let Some(tv) = validated_new.get(&target) {
                    migrated = true;
                    // after validation every server transmit goes to the new address
                    for r in &p.w.recs {
                        if let Rec::Emit { node, dst, t, ch: Some(_), .. } = r {
                            if *node == SERVER && *t > *tv + Duration::from_millis(1) && *dst != target {
                                viol.push(("sent-to-old-path-after-validation".into(), format!("new path {target} validated at {tv:?}, but at {t:?} the server still sent to {dst}")));
                                break;
                            }
                        }
                    }
                    if final_remote != Some(target) {
                        viol.push(("did-not-follow-client".into(), format!("new path {target} was validated at {tv:?} but the server's remote_address() is {final_remote:?}")));
                    }
                } else if acted && workload_done(&p) && final_remote != Some(target) && c.dev.map_or(true, |d| d.0 >= 1000)
                    // (the premise "the client keeps sending from there": without the ping of the other
                    // workloads a download that was all but complete may leave the client silent)
                    // (... with something other than probing frames - PATH_CHALLENGE, PATH_RESPONSE,
                    // NEW_CONNECTION_ID, PADDING -, which alone never move a path, RFC 9000 9.1)
                    && p.w.recs.iter().any(|r| match r {
                        Rec::Deliver { node, idx, src, routed: Routed::Conn(_), .. } if *node == SERVER && *src == target => emitted.get(idx).map_or(false, |(_, data, _)| {
                            decode(data, p.w.nodes[SERVER].cid_len).iter().any(|(_, fr)| fr.iter().any(|f| !matches!(f, WFrame::PathChallenge(_) | WFrame::PathResponse(_) | WFrame::NewConnectionId { .. } | WFrame::Padding(_))))
                        }),
                        _ => false,
                    })
                {
                    viol.push(("new-path-never-validated".into(), format!("the client kept sending from {target} but no PATH_RESPONSE echoing a challenge sent there was delivered; server remote {final_remote:?}")));
                } else if acted && matches!(c.kind, Kind::Rebind { .. }) && challenges.get(&target).map_or(false, |v| !v.is_empty()) {
                    // validation started (a challenge went to the new address) and a single datagram was
                    // lost, duplicated or delayed: the challenge is repeated until it is answered, so a
                    // live client must end up validated
                    viol.push(("new-path-validation-lost".into(), format!("the server challenged {target} but never validated it although the client is alive there and only one datagram was disturbed ({:?}); server remote {final_remote:?}", c.dev)));
                }
                if !workload_done(&p) {
                    for (s, w) in completion(&p) {
                        viol.push((format!("migration-broke-transfer:{s}"), w));
                    }
                }
                // amplification limit towards the unvalidated new path
                let (av, _) = amp_violations(&p);
                for (s, w) in av {
                    viol.push((format!("new-path:{s}"), w));
                }
            }
            Kind::Attacker { client_silent } => {
                if let Some(ts) = t_spoof {
                    match reverted_at {
                        Some(tr) => {
                            if tr > ts + pto_bound {
                                viol.push(("spoofed-path-kept-too-long".into(), format!("attacker replay at {ts:?}; the server returned to {genuine} only at {tr:?} (> 3 PTO = {pto_bound:?})")));
                            }
                        }
                        None => {
                            if p.w.t > ts + pto_bound {
                                viol.push(("spoofed-path-kept".into(), format!("attacker replay from {attacker} at {ts:?}; at {:?} the server's remote is still {final_remote:?}", p.w.t)));
                            }
                        }
                    }
                }
                if !*client_silent && !workload_done(&p) {
                    for (s, w) in completion(&p) {
                        viol.push((format!("attack-broke-transfer:{s}"), w));
                    }
                }
                let (av, _) = amp_violations(&p);
                for (s, w) in av {
                    viol.push((format!("spoofed-path:{s}"), w));
                }
            }
            Kind::DisabledRebind => {
                // the server application may only have obtained bytes that arrived in datagrams from
                // the genuine address
                let mut genuine_ranges: BTreeMap<u64, Vec<(u64, u64)>> = BTreeMap::new();
                for r in &p.w.recs {
                    if let Rec::Deliver { node, idx, src, routed: Routed::Conn(_), .. } = r {
                        if *node == SERVER && *src == genuine {
                            if let Some((from, data, _)) = emitted.get(idx) {
                                if *from == CLIENT {
                                    for (_, frames) in decode(data, p.w.nodes[SERVER].cid_len) {
                                        for f in frames {
                                            if let WFrame::Stream { id, off, data, .. } = f {
                                                genuine_ranges.entry(id).or_default().push((off, off + data.len() as u64));
                                            }
                                        }
                                    }
                                }
                            }
                        }
                    }
                }
                if let Some(ss) = p.server() {
                    for (sid, rx) in &ss.app.obs.rx {
                        let mut rs = genuine_ranges.get(sid).cloned().unwrap_or_default();
                        rs.sort();
                        let mut covered = 0u64;
                        for (a0, b0) in rs {
                            if a0 <= covered {
                                covered = covered.max(b0);
                            }
                        }
                        if rx.bytes > covered {
                            viol.push(("data-accepted-from-unpermitted-address".into(), format!("server (migration disabled) obtained {} bytes of stream {sid} although only {covered} arrived from the established address", rx.bytes)));
                        }
                    }
                }
                let _ = rx_at_rebind;
                if final_remote != Some(genuine) {
                    viol.push(("followed-although-disabled".into(), format!("server (migration disabled) now reports remote {final_remote:?}")));
                }
            }
            Kind::ClientOffPath => {
                if !workload_done(&p) {
                    for (s, w) in completion(&p) {
                        viol.push((format!("off-path-broke-transfer:{s}"), w));
                    }
                }
                if p.client().conn.remote_address() != server_addr {
                    viol.push(("client-followed-foreign-address".into(), format!("client now reports remote {}", p.client().conn.remote_address())));
                }
            }
        }
        for (s, w) in integrity(&p) {
            viol.push((format!("integrity:{s}"), w));
        }
        if dump {
            print!("{}", crate::trace::dump(&p.w));
            println!("validated_new={validated_new:?} final_remote={final_remote:?} t_spoof={t_spoof:?} reverted_at={reverted_at:?} bound={pto_bound:?}");
        }
        viol.truncate(5);
        (p.w.trace_hash(), viol, migrated, p.w.steps)
    });
    match r {
        Err(e) => Out { trace: 0, viol: vec![("panic".into(), format!("panic: {e}"))], migrated: false, steps: 0 },
        Ok((trace, viol, migrated, steps)) => Out { trace, viol, migrated, steps },
    }
}

pub fn main(args: &Args) -> ! {
    if args.replay.is_some() {
        replay(args);
    }
    explore::quiet_panics();
    let base = Instant::now();
    let mut rep = Report::new("C15", args, "fault_enumeration");
    let thorough = args.tier == Tier::Thorough;
    let dl = deadline(if thorough { 1500 } else { 50 });
    rep.rule = "E3/E2 on real endpoints with data flowing both ways (W2), in bulk upstream (W6) or downstream (W15: the migrating client only acknowledges) and CID rotation on: at EVERY step index after the handshake the client's source address changes (port only on IPv4, port only on IPv6, full address change, full address change to a path with 60 / 250 ms more one-way delay), a second migration follows after several gaps (also before the first is validated), an attacker delivers a copy of a genuine client datagram from a third address ahead of the original (client continuing / client silent afterwards), the server has migration disabled, or server datagrams reach the client from a foreign address; each combined with every single drop/dup/delay of one of the next 8 datagrams (those carrying PATH_CHALLENGE / PATH_RESPONSE), and with the newest one / two datagrams the client had sent from its old address arriving 40 ms late, behind the first ones from the new address, or held back until right behind the first datagram from the new address (adjacent packet numbers swapped). Oracles: once a PATH_RESPONSE echoing a challenge sent to the new address was delivered the server reports and uses only the new address and the workload completes; before that the 3x byte ledger bounds what goes there and challenge/response datagrams are >= 1200 bytes; a spoofed path is abandoned within 3 PTO, a genuine slower path that keeps answering is not abandoned; with migration not permitted nothing is sent to, and no data accepted from, the other address. Non-trivial = distinct trace hashes of runs in which the address event happened.".into();
    let mut cases = vec![];
    // step counts of the baselines
    let mut steps_of = BTreeMap::new();
    for (wl, v4) in [(Wl::W2, false), (Wl::W6, false), (Wl::W2, true), (Wl::W6, true), (Wl::W15, false), (Wl::W15, true)] {
        let o = run(base, &Case { v4, wl, kind: Kind::ClientOffPath, at: u64::MAX, dev: None }, false);
        steps_of.insert((format!("{wl:?}"), v4), o.steps);
    }
    for (wl, v4) in [(Wl::W6, false), (Wl::W2, false), (Wl::W6, true), (Wl::W2, true)] {
        let n = steps_of[&(format!("{wl:?}"), v4)].min(if thorough { 150 } else { 60 });
        let stride = 1;
        for at in (6..n).step_by(stride) {
            let mut kinds = vec![Kind::Rebind { full_ip: false }, Kind::Rebind { full_ip: true }, Kind::RebindSlow { extra_ms: 60 }, Kind::RebindSlow { extra_ms: 250 }, Kind::Attacker { client_silent: false }, Kind::Attacker { client_silent: true }, Kind::DisabledRebind, Kind::ClientOffPath];
            for gap in [1u64, 3, 8, 20] {
                kinds.push(Kind::Double { gap });
            }
            for k in kinds {

                cases.push(Case { v4, wl, kind: k.clone(), at, dev: None });
                if !v4 && matches!(k, Kind::Rebind { .. }) {
                    for late in [1u64, 2, 1000] {
                        cases.push(Case { v4, wl, kind: k.clone(), at, dev: Some((1000 + late, 0)) });
                    }
                }
                let devs = matches!(k, Kind::Rebind { .. } | Kind::Attacker { .. } | Kind::RebindSlow { extra_ms: 250 });
                if devs && (thorough || (!v4 && at % 3 == 0)) {
                    for rel in 0..8 {
                        for alt in 0..ALTS.len() as u16 {
                            cases.push(Case { v4, wl, kind: k.clone(), at, dev: Some((rel, alt)) });
                        }
                    }
                }
            }
        }
    }
    // a download: the migrating client is receive-only (everything it sends from the new address is
    // an acknowledgement)
    for v4 in [false, true] {
        let n = steps_of[&("W15".to_string(), v4)].min(if thorough { 150 } else { 60 });
        for at in 6..n {
            for k in [Kind::Rebind { full_ip: false }, Kind::Rebind { full_ip: true }, Kind::RebindSlow { extra_ms: 60 }] {
                if v4 && !thorough && !matches!(k, Kind::Rebind { full_ip: false }) {
                    continue;
                }
                cases.push(Case { v4, wl: Wl::W15, kind: k.clone(), at, dev: None });
                if !v4 && matches!(k, Kind::Rebind { .. }) {
                    for late in [1u64, 2, 1000] {
                        cases.push(Case { v4, wl: Wl::W15, kind: k.clone(), at, dev: Some((1000 + late, 0)) });
                    }
                }
            }
        }
    }
    let total = cases.len();
    let (res, capped) = e3(cases, dl, |c| run(base, c, false));
    rep.exhaustive = !capped;
    let mut migrated = 0u64;
    for (c, o) in &res {
        rep.evaluations += 1;
        rep.distinct.insert(o.trace);
        migrated += o.migrated as u64;
        for (sig, what) in &o.viol {
            rep.violation(Violation {
                signature: sig.clone(),
                what: format!("{} wl={:?} kind={:?} at step {} deviation={:?}: {what}", if c.v4 { "IPv4" } else { "IPv6" }, c.wl, c.kind, c.at, c.dev),
                replay: json!({"check":"c15","v4":c.v4,"wl":format!("{:?}",c.wl),"kind":format!("{:?}",c.kind),"at":c.at,"dev":c.dev}),
            });
        }
    }
    rep.part("address_events", json!({"cases": total, "executed": res.len(), "migrations_validated": migrated, "capped": capped}));
    if migrated == 0 {
        machinery("vacuity guard: no migration was ever validated");
    }
    rep.sample(json!({"v4":true,"wl":"W6","kind":"Double { gap: 3 }","at":30,"meaning":"during a bulk transfer the client's port changes after step 30 and again 3 steps later, before the first new path has been validated; the server must end up following the client to the last address once it validated it, and the transfer must complete"}));
    rep.assumptions = vec![
        "the migrating client keeps sending from its new address (the property's premise); return traffic reaches it there".into(),
        "3 PTO bound for abandoning a spoofed path uses max(PTO of the old path read through the probe, initial PTO of a fresh path) plus 2 ms".into(),
    ];
    let _ = (wl_from_str, Flight { at: Duration::ZERO, seq: 0, idx: 0, src: addr(0), dst: addr(0), ecn: None, data: vec![], injected: false });
    rep.finish()
}

fn replay(args: &Args) -> ! {
    let path = args.replay.as_ref().unwrap();
    let v: Value = serde_json::from_str(&std::fs::read_to_string(path).unwrap_or_else(|e| machinery(&format!("{e}")))).unwrap_or_else(|e| machinery(&format!("{e}")));
    let r = &v["replay"];
    let ks = r["kind"].as_str().unwrap_or("");
    let num = |s: &str| -> u64 { s.chars().filter(|c| c.is_ascii_digit()).collect::<String>().parse().unwrap_or(0) };
    let kind = if ks.starts_with("RebindSlow") { Kind::RebindSlow { extra_ms: num(ks) } } else if ks.starts_with("Rebind") { Kind::Rebind { full_ip: ks.contains("true") } } else if ks.starts_with("Double") { Kind::Double { gap: num(ks) } } else if ks.starts_with("Attacker") { Kind::Attacker { client_silent: ks.contains("true") } } else if ks.starts_with("Disabled") { Kind::DisabledRebind } else { Kind::ClientOffPath };
    let c = Case {
        v4: r["v4"].as_bool().unwrap_or(false),
        wl: wl_from_str(r["wl"].as_str().unwrap_or("W6")),
        kind,
        at: r["at"].as_u64().unwrap_or(20),
        dev: r["dev"].as_array().map(|a| (a[0].as_u64().unwrap(), a[1].as_u64().unwrap() as u16)),
    };
    let o = run(Instant::now(), &c, true);
    println!("violations={:?} migrated={}", o.viol, o.migrated);
    std::process::exit(0)
}
