//! C16 — unreliable datagrams: intact, at most once, never oversized.

use std::{
    collections::BTreeMap,
    time::{Duration, Instant},
};

use bytes::Bytes;
use proto::{Event, SendDatagramError};
use serde_json::{json, Value};

use crate::{
    app::{dgram_payload, Plan, ReadMode},
    explore::{self, deadline, e3, guarded, FATE_ALTS, FATE_ALTS3},
    ledger::{cid_len_of, decode},
    report::{machinery, Args, Report, Tier, Violation},
    scen::{cfg_by_name, e2_cases, integrity, plans, replay_ecase, std_pair_plans, ECase, StdPair, Wl},
    sim::{Mtud, PairCfg, Rec, CLIENT, SERVER},
    wire::{self, WFrame},
};

#[derive(Clone, Debug, PartialEq, Eq, Hash, PartialOrd, Ord)]
pub enum MtuState {
    Initial,
    Discovered,
    FellBack,
    /// initial MTU, but >128 packets are unacknowledged so packet numbers take 2 bytes
    LongPn,
}

#[derive(Clone, Debug)]
pub struct Adm {
    pub mtu: MtuState,
    /// peer's datagram receive buffer = advertised max_datagram_frame_size (None = disabled)
    pub peer_buf: Option<usize>,
    pub send_buf: usize,
    pub local_enabled: bool,
    pub size: usize,
    /// connection-ID lengths of (client = sender, server = peer); short headers carry the peer's
    pub cids: (usize, usize),
}

fn adm_cfg(a: &Adm) -> PairCfg {
    let mut c = cfg_by_name("default");
    c.cid_len = a.cids.0;
    c.server_cid_len = Some(a.cids.1);
    c.server.dgram_recv = Some(a.peer_buf);
    c.client.dgram_send = Some(a.send_buf);
    if !a.local_enabled {
        c.client.dgram_recv = Some(None);
    }
    if matches!(a.mtu, MtuState::Initial | MtuState::LongPn) {
        c.client.mtud = Mtud::Off;
        c.server.mtud = Mtud::Off;
    }
    c
}

fn idle() -> Plan {
    Plan { no_read: true, ..Default::default() }
}

fn establish(base: Instant, cfg: &PairCfg, mtu: &MtuState) -> StdPair {
    let send_buf = cfg.client.dgram_send.unwrap_or(1024 * 1024);
    let mut p: StdPair = std_pair_plans(base, cfg, idle(), idle());
    p.w.keep_data = true;
    if !matches!(mtu, MtuState::Initial | MtuState::LongPn) {
        p.w.link_mtu = 1452;
    }
    let mut g = 0;
    while g < 3000 {
        g += 1;
        let est = p.client().app.obs.handshake_confirmed && p.server().map_or(false, |s| s.app.obs.connected);
        let mtu_ok = match mtu {
            MtuState::Initial | MtuState::LongPn => true,
            _ => p.client().conn.current_mtu() >= 1452,
        };
        if est && mtu_ok && p.w.net.is_empty() {
            break;
        }
        if !p.w.step() {
            break;
        }
    }
    if *mtu == MtuState::LongPn {
        // the server's acknowledgements are lost from now on; 140 small packets go out
        p.w.blackhole[SERVER] = true;
        let cch = p.cch;
        for _ in 0..140 {
            p.w.nodes[CLIENT].conns.get_mut(&cch).unwrap().conn.ping();
            p.w.settle_conn(CLIENT, cch);
            for _ in 0..6 {
                if p.w.net.is_empty() || !p.w.step() {
                    break;
                }
            }
        }
    }
    if *mtu == MtuState::FellBack {
        // the path starts dropping large datagrams: keep the client sending until it falls back
        p.w.link_mtu = 1200;
        let mut g = 0;
        while p.client().conn.current_mtu() > 1200 && g < 400 {
            g += 1;
            let cch = p.cch;
            {
                let s = p.w.nodes[CLIENT].conns.get_mut(&cch).unwrap();
                let m = s.conn.datagrams().max_size().unwrap_or(0);
                let _ = s.conn.datagrams().send(Bytes::from(vec![0x11; m.min(1300).min(send_buf)]), true);
            }
            p.w.settle_conn(CLIENT, cch);
            for _ in 0..12 {
                if !p.w.step() {
                    break;
                }
            }
        }
        // drain what the server got meanwhile
        if let Some(s) = p.server_mut() {
            while s.conn.datagrams().recv().is_some() {}
        }
    }
    p
}

pub struct AdmOut {
    pub pn_len: usize,
    pub viol: Vec<(String, String)>,
    pub accepted: bool,
    pub max_size: Option<usize>,
    pub mtu: u16,
}

pub fn run_adm(base: Instant, a: &Adm) -> Result<AdmOut, String> {
    guarded(|| {
        let cfg = adm_cfg(a);
        let mut p = establish(base, &cfg, &a.mtu);
        let cch = p.cch;
        let mut viol = vec![];
        if a.mtu == MtuState::FellBack && p.client().conn.current_mtu() > 1200 {
            // the send buffer is too small to emit anything the shrunken link drops: the
            // fallback state is unreachable in this cell
            return AdmOut { pn_len: 0, viol, accepted: false, max_size: None, mtu: 0 };
        }
        let (max, mtu, space) = {
            let s = p.w.nodes[CLIENT].conns.get_mut(&cch).unwrap();
            (s.conn.datagrams().max_size(), s.conn.current_mtu(), s.conn.datagrams().send_buffer_space())
        };
        let peer_cid_len = p.w.nodes[SERVER].cid_len;
        // the reported maximum never exceeds what fits in one packet on the current path
        // (1 flags byte + DCID + at least 1 byte packet number + 16 byte tag + frame type + length)
        if let Some(m) = max {
            let fits = mtu as usize - (1 + peer_cid_len + 1 + 16) - 1;
            if m > fits {
                viol.push(("max-size-exceeds-packet".into(), format!("max_size() = {m} with MTU {mtu}: a 1-RTT packet can carry at most {fits} bytes of DATAGRAM payload")));
            }
            if let Some(pb) = a.peer_buf {
                {
                    // frame = type (1) + [length] + payload must not exceed the peer's max_datagram_frame_size
                    if m + 1 > pb {
                        viol.push(("max-size-exceeds-peer-limit".into(), format!("max_size() = {m} but the peer advertised max_datagram_frame_size = {pb}")));
                    }
                }
            }
        }
        if a.peer_buf.is_none() && max.is_some() {
            viol.push(("max-size-without-peer-support".into(), format!("peer does not support datagrams but max_size() = {max:?}")));
        }
        let payload = dgram_payload(7, a.size);
        let rec0 = p.w.recs.len();
        let r = {
            let s = p.w.nodes[CLIENT].conns.get_mut(&cch).unwrap();
            s.conn.datagrams().send(Bytes::from(payload.clone()), false)
        };
        let should_accept = a.local_enabled && max.map_or(false, |m| a.size <= m.min(a.send_buf));
        let accepted = r.is_ok();
        let mut pn_len = 0;
        match (&r, should_accept) {
            (Ok(()), true) => {}
            (Err(SendDatagramError::TooLarge), false) if a.local_enabled && max.is_some() => {}
            (Err(SendDatagramError::UnsupportedByPeer), false) if a.local_enabled && max.is_none() => {}
            (Err(SendDatagramError::Disabled), false) if !a.local_enabled => {}
            (other, want) => viol.push(("admission-mismatch".into(), format!("send({} bytes) returned {other:?}; max_size()={max:?} send buffer {} space {space} local datagrams enabled={} => should accept: {want}", a.size, a.send_buf, a.local_enabled))),
        }
        if accepted {
            p.w.settle_conn(CLIENT, cch);
            for _ in 0..40 {
                if p.w.net.is_empty() {
                    break;
                }
                p.w.step();
            }
            // on the wire: exactly one DATAGRAM frame with the payload, in a datagram <= MTU
            let mut found = 0;
            for r in &p.w.recs[rec0..] {
                if let Rec::Emit { node, data, dst, mtu_before, .. } = r {
                    if *node != CLIENT {
                        continue;
                    }
                    for (wp, frames) in decode(data, cid_len_of(&p.w, *dst)) {
                        for f in frames {
                            if let WFrame::Datagram { data: d, has_len } = f {
                                if d == payload {
                                    found += 1;
                                    pn_len = wp.pn_len;
                                    if data.len() > *mtu_before as usize {
                                        viol.push(("datagram-packet-exceeds-mtu".into(), format!("a {}-byte application datagram left in a {}-byte UDP datagram, MTU {}", a.size, data.len(), mtu_before)));
                                    }
                                    let frame_len = 1 + if has_len { wire::var_len(d.len() as u64) } else { 0 } + d.len();
                                    if let Some(pb) = a.peer_buf {
                                        if frame_len > pb {
                                            viol.push(("frame-exceeds-peer-limit".into(), format!("DATAGRAM frame of {frame_len} bytes sent, peer's max_datagram_frame_size is {pb}")));
                                        }
                                    }
                                } else {
                                    viol.push(("datagram-altered-on-wire".into(), format!("a DATAGRAM frame with {} bytes that is not the payload handed to send()", d.len())));
                                }
                            }
                        }
                    }
                }
            }
            if found != 1 {
                viol.push(("accepted-datagram-not-sent-once".into(), format!("accepted {}-byte datagram appears {found} times on the wire", a.size)));
            }
            // and it arrives intact
            let got: Vec<Vec<u8>> = {
                let s = p.server_mut().unwrap();
                let mut v = vec![];
                while let Some(d) = s.conn.datagrams().recv() {
                    v.push(d.to_vec());
                }
                v
            };
            if got != vec![payload.clone()] {
                viol.push(("datagram-not-delivered-intact".into(), format!("sent one {}-byte datagram over a lossless path, peer received {:?}", a.size, got.iter().map(|d| d.len()).collect::<Vec<_>>())));
            }
        }
        AdmOut { pn_len, viol, accepted, max_size: max, mtu }
    })
}

/// Two datagrams handed to send() back to back (they may share a packet): sizes `a` then `b`.
pub fn run_pair(base: Instant, mtu: &MtuState, a: usize, b: usize) -> Result<(Vec<(String, String)>, bool), String> {
    guarded(|| {
        let adm = Adm { mtu: mtu.clone(), peer_buf: Some(65535), send_buf: 1024 * 1024, local_enabled: true, size: 0, cids: (8, 8) };
        let cfg = adm_cfg(&adm);
        let mut p = establish(base, &cfg, mtu);
        let cch = p.cch;
        let mut viol = vec![];
        let rec0 = p.w.recs.len();
        let (pa, pb) = (dgram_payload(1, a), dgram_payload(2, b));
        let (ra, rb) = {
            let s = p.w.nodes[CLIENT].conns.get_mut(&cch).unwrap();
            (s.conn.datagrams().send(Bytes::from(pa.clone()), false).is_ok(), s.conn.datagrams().send(Bytes::from(pb.clone()), false).is_ok())
        };
        p.w.settle_conn(CLIENT, cch);
        for _ in 0..60 {
            if p.w.net.is_empty() {
                break;
            }
            p.w.step();
        }
        let mut shared = false;
        for r in &p.w.recs[rec0..] {
            if let Rec::Emit { node, data, dst, mtu_before, .. } = r {
                if *node != CLIENT {
                    continue;
                }
                let n: usize = decode(data, cid_len_of(&p.w, *dst)).iter().map(|(_, f)| f.iter().filter(|x| matches!(x, WFrame::Datagram { .. })).count()).sum();
                shared |= n >= 2;
                if n > 0 && data.len() > *mtu_before as usize {
                    viol.push(("datagram-packet-exceeds-mtu".into(), format!("a UDP datagram of {} bytes carrying {n} DATAGRAM frames left with the MTU at {}", data.len(), mtu_before)));
                }
            }
        }
        let got: Vec<Vec<u8>> = {
            let s = p.server_mut().unwrap();
            let mut v = vec![];
            while let Some(d) = s.conn.datagrams().recv() {
                v.push(d.to_vec());
            }
            v
        };
        let mut want = vec![];
        if ra {
            want.push(pa);
        }
        if rb {
            want.push(pb);
        }
        if got != want {
            viol.push(("datagram-not-delivered-intact".into(), format!("two datagrams of {a} and {b} bytes were accepted ({ra}, {rb}) and sent over a lossless path; the peer obtained sizes {:?}", got.iter().map(|d| d.len()).collect::<Vec<_>>())));
        }
        (viol, shared)
    })
}

// ---------------------------------------------------------------- queue model

#[derive(Clone, Copy, Debug, PartialEq)]
pub enum QOp {
    Send(usize, bool),
    Flush,
    Recv,
    Space,
}

/// `start`: 0 = the sequence runs on an established connection; 1 / 2 = the client holds a session
/// ticket and the sequence starts before the handshake (datagrams are early data), the server
/// accepts (1) or rejects (2) early data; the first flush completes the handshake. 3 / 4 = as 1 / 2
/// with a congestion window of two packets, so that most early datagrams are still queued when the
/// server's answer arrives.
pub fn run_queue(base: Instant, start: u8, send_buf: usize, recv_buf: usize, seq: &[QOp]) -> Result<(Vec<(String, String)>, u64, Vec<u64>), String> {
    guarded(|| {
        let mut cfg = cfg_by_name("default");
        cfg.client.dgram_send = Some(send_buf);
        cfg.server.dgram_recv = Some(Some(recv_buf));
        cfg.client.mtud = Mtud::Off;
        cfg.server.mtud = Mtud::Off;
        let mut p = if start == 0 {
            establish(base, &cfg, &MtuState::Initial)
        } else {
            cfg.ticket = Some(crate::mtls::Ticket { server_params: crate::checks::c17::remembered(base, &cfg), secret: [7; 16] });
            cfg.accept_early = start == 1 || start == 3;
            if start >= 3 {
                cfg.client.controller = crate::sim::Ctl::Fixed(2400);
            }
            let mut p: StdPair = std_pair_plans(base, &cfg, idle(), idle());
            p.w.keep_data = true;
            if !p.client().conn.has_0rtt() {
                machinery("queue model: the ticket did not enable 0-RTT");
            }
            p
        };
        let mut handshaking = start != 0;
        let cch = p.cch;
        let mut viol = vec![];
        // model
        let mut q: Vec<(u16, usize)> = vec![]; // (tag, len) queued at the sender
        let mut blocked = false;
        let mut rxq: Vec<(u16, usize)> = vec![]; // at the receiver, not yet taken by the app
        let mut tag: u16 = 0;
        let maxsz = {
            let s = p.w.nodes[CLIENT].conns.get_mut(&cch).unwrap();
            s.conn.datagrams().max_size().unwrap_or(0)
        };
        let mut hash = std::collections::hash_map::DefaultHasher::new();
        use std::hash::{Hash, Hasher};
        let mut states: Vec<u64> = vec![];
        for (i, op) in seq.iter().enumerate() {
            {
                // reference-model state reached before this operation
                let mut sh = std::collections::hash_map::DefaultHasher::new();
                (send_buf, recv_buf, q.iter().map(|x| x.1).collect::<Vec<_>>(), blocked, rxq.iter().map(|x| x.1).collect::<Vec<_>>(), handshaking, start).hash(&mut sh);
                states.push(sh.finish());
            }
            match op {
                QOp::Send(len, drop) => {
                    tag += 1;
                    let r = {
                        let s = p.w.nodes[CLIENT].conns.get_mut(&cch).unwrap();
                        s.conn.datagrams().send(Bytes::from(dgram_payload(tag, *len)), *drop)
                    };
                    let total: usize = q.iter().map(|x| x.1).sum();
                    let want = if *len > maxsz.min(send_buf) {
                        "TooLarge"
                    } else if *drop {
                        let mut t = total;
                        while t + len > send_buf && !q.is_empty() {
                            t -= q.remove(0).1;
                        }
                        q.push((tag, *len));
                        "Ok"
                    } else if total + len > send_buf {
                        blocked = true;
                        "Blocked"
                    } else {
                        q.push((tag, *len));
                        "Ok"
                    };
                    let got = match &r {
                        Ok(()) => "Ok",
                        Err(SendDatagramError::Blocked(_)) => "Blocked",
                        Err(SendDatagramError::TooLarge) => "TooLarge",
                        Err(_) => "other",
                    };
                    (i, got).hash(&mut hash);
                    if got != want {
                        viol.push(("send-answer-mismatch".into(), format!("step {i} {op:?}: send returned {got}, the FIFO-with-byte-budget model says {want} (queued {total} of {send_buf} bytes)")));
                        break;
                    }
                }
                QOp::Space => {
                    let sp = {
                        let s = p.w.nodes[CLIENT].conns.get_mut(&cch).unwrap();
                        s.conn.datagrams().send_buffer_space()
                    };
                    let total: usize = q.iter().map(|x| x.1).sum();
                    if sp != send_buf.saturating_sub(total) {
                        viol.push(("buffer-space-mismatch".into(), format!("step {i}: send_buffer_space() = {sp}, model says {}", send_buf.saturating_sub(total))));
                        break;
                    }
                }
                QOp::Flush => {
                    let ev0 = p.client().all_events.len();
                    p.w.settle_conn(CLIENT, cch);
                    for _ in 0..600 {
                        let queued = p.w.nodes[CLIENT].conns.get(&cch).map_or(0, |s| s.conn.verif_probe().datagram_outgoing);
                        if p.w.net.is_empty() && (queued == 0 || start < 3) {
                            break;
                        }
                        p.w.step();
                    }
                    let accepting = start == 1 || start == 3;
                    let rejected_now = handshaking && !accepting;
                    if handshaking {
                        handshaking = false;
                        if !p.client().app.obs.connected || p.client().conn.accepted_0rtt() != accepting {
                            viol.push(("queue-model-setup".into(), format!("step {i}: handshake outcome unexpected: connected={} accepted_0rtt={}", p.client().app.obs.connected, p.client().conn.accepted_0rtt())));
                            break;
                        }
                    }
                    let unblocked = p.client().all_events[ev0..].iter().filter(|e| e.contains("DatagramsUnblocked")).count();
                    let sent_any = !q.is_empty();
                    let want_unblocked = (blocked && sent_any) as usize;
                    if unblocked != want_unblocked {
                        viol.push(("unblocked-event-mismatch".into(), format!("step {i} flush: {unblocked} DatagramsUnblocked events, model says {want_unblocked} (blocked={blocked}, queued={})", q.len())));
                        break;
                    }
                    if sent_any {
                        blocked = false;
                    }
                    // rejected early data: whatever was handed to send() before is gone, sent or not
                    if rejected_now {
                        q.clear();
                    }
                    // everything queued is transmitted in order and reaches the receive buffer,
                    // which drops the oldest when it overflows
                    for d in q.drain(..) {
                        while rxq.iter().map(|x| x.1).sum::<usize>() + d.1 > recv_buf && !rxq.is_empty() {
                            rxq.remove(0);
                        }
                        rxq.push(d);
                    }
                }
                QOp::Recv => {
                    let got: Vec<Vec<u8>> = {
                        let mut v = vec![];
                        // (no server connection yet while a 0-RTT start has not been flushed)
                        if let Some(s) = p.server_mut() {
                            while let Some(d) = s.conn.datagrams().recv() {
                                v.push(d.to_vec());
                            }
                        }
                        v
                    };
                    let want: Vec<Vec<u8>> = rxq.drain(..).map(|(t, l)| dgram_payload(t, l)).collect();
                    got.len().hash(&mut hash);
                    if got != want {
                        viol.push(("receive-queue-mismatch".into(), format!("step {i} recv: application obtained datagrams of sizes {:?}, model (oldest dropped first, FIFO) says {:?}", got.iter().map(|d| (d.len(), d.get(1).copied())).collect::<Vec<_>>(), want.iter().map(|d| (d.len(), d.get(1).copied())).collect::<Vec<_>>())));
                        break;
                    }
                }
            }
        }
        (viol, hash.finish(), states)
    })
}

fn e2_integrity_cases(thorough: bool) -> Vec<ECase> {
    let mut v = vec![];
    for (name, f) in [
        ("dgram/default", Box::new(|_c: &mut PairCfg| {}) as Box<dyn Fn(&mut PairCfg)>),
        ("dgram/smallbuf", Box::new(|c: &mut PairCfg| { c.server.dgram_recv = Some(Some(1500)); c.client.dgram_recv = Some(Some(1500)); })),
        ("dgram/cwnd3+sendbuf2500", Box::new(|c: &mut PairCfg| { c.client.controller = crate::sim::Ctl::Fixed(3600); c.server.controller = crate::sim::Ctl::Fixed(3600); c.client.dgram_send = Some(2500); c.server.dgram_send = Some(2500); })),
        ("dgram/mtu1452", Box::new(|c: &mut PairCfg| { c.client.initial_mtu = 1452; c.server.initial_mtu = 1452; })),
    ] {
        let mut cfg = cfg_by_name("default");
        f(&mut cfg);
        cfg.client.name = name.into();
        let (mut cp, mut sp) = plans(Wl::W5, ReadMode::default());
        cp.datagrams = vec![10, 300, 1100, 1, 700, 50, 1150, 2, 900, 0, 64, 1000];
        sp.datagrams = vec![20, 900, 1150, 3];
        let w = if thorough { (6, 36) } else { (8, 24) };
        v.push(ECase { name: name.into(), cfg, cp, sp, script: vec![], window: w, max_steps: 40_000, horizon: Duration::from_secs(300) });
    }
    v
}

pub fn main(args: &Args) -> ! {
    let thorough = args.tier == Tier::Thorough;
    let oracle = |p: &StdPair, _done: bool| -> (Vec<(String, String)>, u64) {
        let v: Vec<_> = integrity(p).into_iter().filter(|(s, _)| s.starts_with("dgram") || s == "app-oracle").map(|(s, w)| (format!("integrity:{s}"), w)).collect();
        let n = p.client().app.obs.dgrams_rx.len() + p.server().map_or(0, |s| s.app.obs.dgrams_rx.len());
        (v, n as u64)
    };
    if let Some(path) = &args.replay {
        let v: Value = serde_json::from_str(&std::fs::read_to_string(path).unwrap_or_default()).unwrap_or_default();
        if v["replay"]["case"].is_string() {
            replay_ecase(&e2_integrity_cases(true), args, &FATE_ALTS, &oracle);
        }
        replay(&v);
    }
    explore::quiet_panics();
    let base = Instant::now();
    let mut rep = Report::new("C16", args, "model_checking");
    let dl = deadline(if thorough { 1500 } else { 50 });
    rep.rule = "E3: (a) admission: for EVERY datagram size from 0 to max_size()+2 x MTU state {initial 1200, after discovery 1452, after black-hole fallback, initial with 2-byte packet numbers (140 packets unacknowledged)} x peer max_datagram_frame_size {absent, 1, 100, 1200, 65535} x send buffer {0, size-1, size, default} x local support on/off, and for unequal connection-ID lengths of the two peers (8/20, 0/20, 20/0, 20/8, 4/18) around the maximum, send() must accept exactly when size <= min(max_size(), send buffer), the reported maximum must fit one packet on the current path and the peer's limit (independent arithmetic), an accepted datagram must appear exactly once on the wire in one DATAGRAM frame inside a UDP datagram <= current MTU and arrive byte-identical; (a2) two datagrams handed over back to back (first 1/100/700 bytes, second EVERY size around the space the first leaves in the packet, at MTU 1200 and 1452): no UDP datagram above the MTU, both arrive intact and in order; (b) queue: every sequence of length <= d over send(len, drop), flush, recv, buffer-space query with len in {1, B/3, B/2, B} against a FIFO-with-byte-budget reference model (Blocked, DatagramsUnblocked, send_buffer_space, oldest-dropped-first on both sides); (c) integrity: E2 with <=k fate deviations over a mixed stream+datagram workload: every received datagram is byte-identical to one sent, each at most once. Non-trivial = admission cells at or next to a boundary, queue sequences with distinct answer traces; distinct counts those.".into();
    // (a)
    let mut cases = vec![];
    for mtu in [MtuState::Initial, MtuState::Discovered, MtuState::FellBack, MtuState::LongPn] {
        for peer_buf in [None, Some(0usize), Some(1), Some(2), Some(9), Some(10), Some(100), Some(1200), Some(65535)] {
            let top = match (peer_buf, &mtu) {
                (None, _) => 3,
                (Some(pb), MtuState::Discovered) => pb.min(1452) + 2,
                (Some(pb), _) => pb.min(1200) + 2,
            };
            let stride = if thorough || top < 200 { 1 } else if mtu == MtuState::Initial && peer_buf == Some(65535) { 1 } else { 7 };
            let mut sizes: Vec<usize> = (0..=top).step_by(stride).collect();
            for s in top.saturating_sub(45)..=top {
                sizes.push(s);
            }
            sizes.sort();
            sizes.dedup();
            for size in sizes {
                for (sb, en) in [(1024 * 1024, true), (size, true), (size.saturating_sub(1), true), (0, true), (1024 * 1024, false)] {
                    if !thorough && sb != 1024 * 1024 && size % 5 != 0 && size + 50 < top {
                        continue;
                    }
                    cases.push(Adm { mtu: mtu.clone(), peer_buf, send_buf: sb, local_enabled: en, size, cids: (8, 8) });
                }
            }
        }
    }
    // unequal connection-ID lengths: the short header carries the PEER's CID, so the room for a
    // datagram depends on the peer's choice, not on ours
    for cids in [(8usize, 20usize), (0, 20), (20, 0), (20, 8), (4, 18)] {
        for mtu in [MtuState::Initial, MtuState::Discovered] {
            let top = if mtu == MtuState::Discovered { 1452 } else { 1200 };
            for size in (top - 60)..=top {
                cases.push(Adm { mtu: mtu.clone(), peer_buf: Some(65535), send_buf: 1024 * 1024, local_enabled: true, size, cids });
            }
        }
    }
    let n_adm = cases.len();
    let (res, capped) = e3(cases, dl, |a| run_adm(base, a));
    rep.exhaustive &= !capped;
    let mut boundary = 0u64;
    let mut unreached = 0u64;
    for (a, r) in &res {
        rep.evaluations += 1;
        let rj = json!({"check":"c16","kind":"adm","mtu":format!("{:?}",a.mtu),"peer_buf":a.peer_buf,"send_buf":a.send_buf,"enabled":a.local_enabled,"size":a.size,"cids":[a.cids.0,a.cids.1]});
        match r {
            Err(e) => rep.violation(Violation { signature: "panic".into(), what: format!("{a:?}: panic: {e}"), replay: rj }),
            Ok(o) => {
                if o.mtu == 0 {
                    unreached += 1;
                }
                if let Some(m) = o.max_size {
                    if a.size + 1 >= m.min(a.send_buf) && a.size <= m.min(a.send_buf) + 1 {
                        boundary += 1;
                        let mut h = std::collections::hash_map::DefaultHasher::new();
                        use std::hash::{Hash, Hasher};
                        (format!("{:?}", a.mtu), a.peer_buf, a.send_buf, a.size, o.accepted).hash(&mut h);
                        rep.distinct.insert(h.finish());
                    }
                }
                for (sig, what) in &o.viol {
                    rep.violation(Violation { signature: sig.clone(), what: format!("mtu={:?} (current {}) peer max_datagram_frame_size={:?} send buffer {} size {}: {what}", a.mtu, o.mtu, a.peer_buf, a.send_buf, a.size), replay: rj.clone() });
                }
            }
        }
    }
    rep.part("admission", json!({"cells": n_adm, "executed": res.len(), "boundary_cells": boundary, "fallback_state_unreachable_cells": unreached, "capped": capped}));
    if boundary == 0 {
        machinery("vacuity guard: no admission cell at a boundary");
    }
    // (a2) two datagrams back to back: every size of the second one around the space the first leaves
    {
        let mut tasks = vec![];
        for mtu in [MtuState::Initial, MtuState::Discovered] {
            let top: usize = if mtu == MtuState::Initial { 1200 } else { 1452 };
            for a in [1usize, 100, 700] {
                if !thorough && mtu == MtuState::Initial && a == 100 {
                    continue;
                }
                let room = top.saturating_sub(a + 30);
                let lo = if thorough { 0 } else { room.saturating_sub(40) };
                for b in lo..=(room + 12).min(top) {
                    tasks.push((mtu.clone(), a, b));
                }
            }
        }
        let planned = tasks.len();
        let (res, capped) = e3(tasks, dl, |(m, a, b)| run_pair(base, m, *a, *b));
        rep.exhaustive &= !capped;
        let mut shared_packets = 0u64;
        for ((m, a, b), r) in &res {
            rep.evaluations += 1;
            let rj = json!({"check":"c16","kind":"pair","mtu":format!("{m:?}"),"a":a,"b":b});
            match r {
                Err(e) => rep.violation(Violation { signature: "panic".into(), what: format!("pair {a}+{b} at {m:?}: panic: {e}"), replay: rj }),
                Ok((viol, shared)) => {
                    if *shared {
                        shared_packets += 1;
                        let mut h = std::collections::hash_map::DefaultHasher::new();
                        use std::hash::{Hash, Hasher};
                        (format!("{m:?}"), a, b).hash(&mut h);
                        rep.distinct.insert(h.finish());
                    }
                    for (sig, what) in viol {
                        rep.violation(Violation { signature: sig.clone(), what: format!("mtu state {m:?}: {what}"), replay: rj.clone() });
                    }
                }
            }
        }
        rep.part("back_to_back_pairs", json!({"planned": planned, "executed": res.len(), "pairs_sharing_one_packet": shared_packets, "capped": capped}));
        if shared_packets == 0 {
            machinery("vacuity guard: no pair of datagrams ever shared a packet");
        }
    }
    // (b)
    let depth0 = if thorough { 6 } else { 5 };
    let mut qtasks = vec![];
    for (start, sb, rb) in [(0u8, 3000usize, 3000usize), (0, 3000, 1000), (0, 900, 3000), (1, 3000, 3000), (2, 3000, 3000), (2, 900, 3000), (3, 3000, 3000), (4, 3000, 3000)] {
        let depth = if start == 0 { depth0 } else { depth0 - 1 };
        let b = sb;
        let lens = [1usize, b / 3, b / 2, b.min(1100)];
        let mut ops = vec![QOp::Flush, QOp::Recv, QOp::Space];
        for l in lens {
            ops.push(QOp::Send(l, false));
            ops.push(QOp::Send(l, true));
        }
        let mut idx = vec![0usize; depth];
        loop {
            let seq: Vec<QOp> = idx.iter().map(|i| ops[*i]).collect();
            if matches!(seq[0], QOp::Send(..)) {
                qtasks.push((start, sb, rb, seq));
            }
            let mut k = depth;
            let mut done = false;
            loop {
                if k == 0 {
                    done = true;
                    break;
                }
                k -= 1;
                idx[k] += 1;
                if idx[k] < ops.len() {
                    break;
                }
                idx[k] = 0;
            }
            if done {
                break;
            }
        }
    }
    let n_q = qtasks.len();
    let depth = depth0;
    let (qres, capped) = e3(qtasks, dl, |(start, sb, rb, seq)| {
        // always end with a flush and a receive so that everything is compared
        let mut s = seq.clone();
        s.push(QOp::Flush);
        s.push(QOp::Recv);
        run_queue(base, *start, *sb, *rb, &s)
    });
    rep.exhaustive &= !capped;
    let mut model_states: std::collections::BTreeSet<u64> = Default::default();
    let mut early_runs = 0u64;
    for ((start, sb, rb, seq), r) in &qres {
        rep.evaluations += 1;
        if *start != 0 {
            early_runs += 1;
        }
        let rj = json!({"check":"c16","kind":"queue","start":start,"send_buf":sb,"recv_buf":rb,"seq":seq.iter().map(|o| format!("{o:?}")).collect::<Vec<_>>()});
        match r {
            Err(e) => rep.violation(Violation { signature: "panic".into(), what: format!("queue {seq:?}: panic: {e}"), replay: rj }),
            Ok((viol, h, states)) => {
                rep.distinct.insert(*h);
                rep.transitions += states.len() as u64;
                model_states.extend(states.iter().copied());
                for (sig, what) in viol {
                    rep.violation(Violation { signature: sig.clone(), what: format!("start={} send buffer {sb} receive buffer {rb} sequence {seq:?}: {what}", ["established", "0-RTT accepted", "0-RTT rejected", "0-RTT accepted, cwnd 2400", "0-RTT rejected, cwnd 2400"][*start as usize]), replay: rj.clone() });
                }
            }
        }
    }
    rep.states = model_states.len() as u64;
    rep.part("queue_model", json!({"distinct_model_states": model_states.len(), "model_steps_compared": rep.transitions, "depth": depth, "depth_for_0rtt_starts": depth - 1, "sequences_starting_in_0rtt": early_runs, "sequences": n_q, "executed": qres.len(), "capped": capped}));
    // (b2) the path shrinks while more near-maximum datagrams are queued than a congestion window
    // holds (machinery shared with C13): datagrams that no longer fit are dropped, the rest still
    // leaves, nothing stays queued and the byte accounting returns to zero
    {
        let mut bh = vec![];
        for cfg in ["init1452", "mtudoff1452", "default", "upper9000"] {
            for (m0, m1) in [(1452usize, 1200usize), (9000, 1200), (1452, 1280)] {
                for at in if thorough { (8..80).collect::<Vec<u64>>() } else { vec![10, 12, 14, 16, 18, 20, 24, 28, 32, 40] } {
                    bh.push(crate::checks::c13::Case { cfg: cfg.into(), wl: Wl::W13, m0, at, m1, rebind: false, close_long: None });
                }
            }
        }
        let n_bh = bh.len();
        let (bres, capped) = e3(bh, dl, |c| crate::checks::c13::run_case(base, c, false));
        rep.exhaustive &= !capped;
        let mut stuck_checked = 0u64;
        for (c, (tr, v, _)) in &bres {
            rep.evaluations += 1;
            rep.distinct.insert(*tr);
            stuck_checked += 1;
            for (sig, what) in v {
                if sig.starts_with("datagram-stuck") || sig.starts_with("integrity:dgram") || sig == "panic" {
                    rep.violation(Violation {
                        signature: sig.clone(),
                        what: format!("cfg={} link MTU {} -> {} at step {} with 44 near-maximum datagrams queued: {what}", c.cfg, c.m0, c.m1, c.at),
                        replay: json!({"check":"c16","kind":"blackhole","cfg":c.cfg,"m0":c.m0,"at":c.at,"m1":c.m1}),
                    });
                }
            }
        }
        rep.part("shrinking_path_with_queued_datagrams", json!({"cases": n_bh, "executed": stuck_checked, "capped": capped}));
    }
    // (c)
    let cs = e2_integrity_cases(thorough);
    let alts: &[crate::sim::Fate] = if thorough { &FATE_ALTS } else { &FATE_ALTS3 };
    let (_, received) = e2_cases(&mut rep, "c16", &cs, if thorough { 3 } else { 2 }, alts, dl, false, &oracle);
    rep.extra.insert("datagrams_received_in_e2".into(), json!(received));
    rep.sample(json!({"kind":"adm","mtu":"FellBack","peer_buf":65535,"send_buf":1048576,"size":1174,"meaning":"after discovery raised the MTU to 1452 and black-hole detection brought it back to 1200, a 1174-byte datagram is offered: it must be accepted iff it is <= max_size(), and then leave in one packet of a datagram <= 1200 bytes"}));
    rep.sample(json!({"kind":"queue","send_buf":3000,"recv_buf":1000,"seq":["Send(1500, false)","Send(1500, false)","Send(1, false)","Flush","Recv"],"meaning":"two 1500-byte datagrams fill the 3000-byte send buffer, the third send must report Blocked; after the flush exactly one DatagramsUnblocked event; the 1000-byte receive buffer keeps only the newest datagrams that fit"}));
    rep.assumptions = vec![
        "queue sequences call send() without polling the connection in between; 'flush' polls and runs the lossless network to quiescence".into(),
        "datagrams dropped by drop_oversized after a black hole are allowed by the property (datagrams may be dropped); datagrams that stay queued forever and block the ones behind them are not".into(),
    ];
    let _ = BTreeMap::<u8, u8>::new();
    // the quinn crate's side: `send_datagram_wait` blocks while the send buffer is full and is woken
    // when room appears - also a sender that is woken and finds the room taken again by another task.
    // Explored under the deterministic executor of harness-async (scenario S5) and merged here.
    match std::env::var("VERIF_VA_BIN") {
        Err(_) => machinery("VERIF_VA_BIN not set: ./check C16 builds harness-async and passes its path"),
        Ok(bin) => {
            let out = std::process::Command::new(&bin).arg("c16").arg("--tier").arg(if thorough { "thorough" } else { "quick" }).output();
            let out = out.unwrap_or_else(|e| machinery(&format!("cannot run {bin}: {e}")));
            let text = String::from_utf8_lossy(&out.stdout);
            let v: serde_json::Value = text.lines().rev().find_map(|l| serde_json::from_str(l).ok()).unwrap_or_else(|| machinery(&format!("no result from {bin} c16: {}", String::from_utf8_lossy(&out.stderr))));
            let n = v["executions"].as_u64().unwrap_or(0);
            // (the guard speaks only when nothing was found: violations reported by the parts above, or
            // by this one, are a verdict and take precedence over "this part was vacuous")
            let found_here = !v["violations"].as_array().map_or(true, |a| a.is_empty());
            if (n == 0 || v["blocked_waits_baseline"].as_u64().unwrap_or(0) < 2) && rep.violations.is_empty() && !found_here {
                machinery("vacuity guard: the async datagram part explored nothing, or fewer than two send_datagram_wait calls ever blocked");
            }
            rep.evaluations += n;
            rep.exhaustive &= !v["capped"].as_bool().unwrap_or(true);
            for viol in v["violations"].as_array().cloned().unwrap_or_default() {
                rep.violation(Violation {
                    signature: format!("async:{}", viol["signature"].as_str().unwrap_or("?")),
                    what: format!("quinn crate under the deterministic executor (three tasks, send buffer for one datagram): {}", viol["what"].as_str().unwrap_or("?")),
                    replay: json!({"check":"c18","async_replay": viol["replay"], "note": "replay with ./check C18 --replay on a file holding {\"replay\": <async_replay>}"}),
                });
            }
            rep.part("async_send_datagram_wait", v);
        }
    }
    rep.finish()
}

fn replay(v: &Value) -> ! {
    let r = &v["replay"];
    match r["kind"].as_str().unwrap_or("") {
        "adm" => {
            let a = Adm {
                mtu: match r["mtu"].as_str().unwrap_or("") { "Discovered" => MtuState::Discovered, "FellBack" => MtuState::FellBack, "LongPn" => MtuState::LongPn, _ => MtuState::Initial },
                peer_buf: r["peer_buf"].as_u64().map(|x| x as usize),
                send_buf: r["send_buf"].as_u64().unwrap_or(0) as usize,
                local_enabled: r["enabled"].as_bool().unwrap_or(true),
                size: r["size"].as_u64().unwrap_or(0) as usize,
                cids: (r["cids"][0].as_u64().unwrap_or(8) as usize, r["cids"][1].as_u64().unwrap_or(8) as usize),
            };
            match run_adm(Instant::now(), &a) {
                Err(e) => println!("PANIC {e}"),
                Ok(o) => println!("{a:?}\naccepted={} pn_len={} max_size={:?} mtu={} violations={:?}", o.accepted, o.pn_len, o.max_size, o.mtu, o.viol),
            }
        }
        "pair" => {
            let m = match r["mtu"].as_str().unwrap_or("") { "Discovered" => MtuState::Discovered, _ => MtuState::Initial };
            println!("{:?}", run_pair(Instant::now(), &m, r["a"].as_u64().unwrap_or(0) as usize, r["b"].as_u64().unwrap_or(0) as usize));
        }
        "blackhole" => {
            let c = crate::checks::c13::Case { cfg: r["cfg"].as_str().unwrap_or("init1452").into(), wl: Wl::W13, m0: r["m0"].as_u64().unwrap_or(1452) as usize, at: r["at"].as_u64().unwrap_or(12), m1: r["m1"].as_u64().unwrap_or(1200) as usize, rebind: false, close_long: None };
            let (_, v, _) = crate::checks::c13::run_case(Instant::now(), &c, true);
            println!("violations={v:?}");
        }
        "queue" => {
            let parse = |s: &str| -> QOp {
                if s.starts_with("Send") {
                    let n: usize = s.chars().filter(|c| c.is_ascii_digit()).collect::<String>().parse().unwrap_or(0);
                    QOp::Send(n, s.contains("true"))
                } else if s == "Flush" { QOp::Flush } else if s == "Recv" { QOp::Recv } else { QOp::Space }
            };
            let mut seq: Vec<QOp> = r["seq"].as_array().unwrap().iter().map(|x| parse(x.as_str().unwrap())).collect();
            seq.push(QOp::Flush);
            seq.push(QOp::Recv);
            println!("{:?}", run_queue(Instant::now(), r["start"].as_u64().unwrap_or(0) as u8, r["send_buf"].as_u64().unwrap() as usize, r["recv_buf"].as_u64().unwrap() as usize, &seq));
        }
        k => println!("unknown kind {k}"),
    }
    let _ = (Event::Connected, machinery as fn(&str) -> !);
    std::process::exit(0)
}
