//! C20 — the protocol core is deterministic and driven only by its inputs.

use std::time::{Duration, Instant};

use serde_json::{json, Value};

use crate::{
    app::ReadMode,
    explore::{self, deadline, e3, fates_of, guarded, Devs, FATE_ALTS},
    report::{machinery, Args, Report, Tier, Violation},
    scen::{cfg_by_name, drive, std_pair_pre, wl_from_str, Op, StdPair, Wl},
    sim::{addr, Rec, CLIENT, SERVER},
};

#[derive(Clone, Debug)]
struct Hist {
    cfg: &'static str,
    wl: Wl,
    devs: Devs,
    script: Vec<(u64, Op)>,
    sname: &'static str,
}

#[derive(Clone, Debug)]
struct Run {
    h: usize,
    shift: Duration,
    extra: Option<(u64, Op)>,
    drained_part: bool,
    /// besides servicing events the driver polls both connections every so many microseconds of
    /// virtual time (script-free histories only)
    busy_us: Option<u64>,
    /// drained part only: the closing side is drained early by its peer's stateless reset (arriving
    /// this many microseconds after the close) instead of by its close timer
    reset_after_us: Option<u64>,
    /// the timeout handler is called this many times at every timer firing before transmits are
    /// polled (1: the reference driver)
    timeout_calls: u32,
}

fn cfg_of(name: &str) -> crate::sim::PairCfg {
    match name {
        "pacing2k" | "pacing20k" => {
            let mut c = cfg_by_name("default");
            c.client.pacing_cap = Some(if name == "pacing2k" { 2_000 } else { 20_000 });
            c.client.name = name.into();
            c
        }
        "tokens2" => {
            // the server hands out two address-validation tokens (NEW_TOKEN) after the handshake
            let mut c = cfg_by_name("default");
            c.tokens_sent = 2;
            c.client.name = name.into();
            c
        }
        _ => cfg_by_name(name),
    }
}

static DUMP: std::sync::atomic::AtomicBool = std::sync::atomic::AtomicBool::new(false);

/// Outcome-level rendering used for inserted calls on paced histories: per node the
/// application events in order, plus loss-recovery counters. Packetization may shift with
/// pacer rounding; what is delivered, reported and declared lost may not.
/// `once`: HandshakeConfirmed is counted once (it is repeated for every retransmitted HANDSHAKE_DONE,
/// and how many of those arrive depends on the peer's probe timers)
fn semantic_trace(p: &StdPair, once: bool) -> u64 {
    use std::hash::{Hash, Hasher};
    let mut h = std::collections::hash_map::DefaultHasher::new();
    let mut per_node: Vec<Vec<&String>> = vec![vec![], vec![]];
    for r in &p.w.recs {
        if let Rec::Event { node, ev, .. } = r {
            if *node < 2 {
                if once && ev == "HandshakeConfirmed" && per_node[*node].iter().any(|e| *e == "HandshakeConfirmed") {
                    continue;
                }
                per_node[*node].push(ev);
            }
        }
    }
    per_node.hash(&mut h);
    for node in [CLIENT, SERVER] {
        for s in p.w.nodes[node].conns.values().chain(p.w.nodes[node].dead.iter().map(|(_, s)| s)) {
            let st = s.conn.stats();
            (st.path.lost_packets, st.path.congestion_events, st.path.black_holes_detected, st.frame_rx.stream > 0).hash(&mut h);
        }
    }
    h.finish()
}

struct Out {
    sem_lines: Vec<String>,
    sem: u64,
    sem_once: u64,
    dump: String,
    abs: u64,
    abs_lines: Vec<String>,
    trace: u64,
    steps: u64,
    streak: u32,
    post_drain: Vec<String>,
    timeouts_rel: Vec<Option<Duration>>,
    panic: Option<String>,
    reset_sent: bool,
    /// NEW_TOKEN tokens whose issue time is not the supplied clock's reading at emission
    token_clock: Vec<String>,
    tokens_checked: u64,
}

fn full_trace(p: &StdPair) -> u64 {
    p.w.trace_hash()
}

/// Timing-insensitive rendering: per node, the sequence of emitted packets (type, packet
/// number, frames with their identifying fields but without ACK delay and padding length) and
/// of application events.
fn abstract_trace(p: &StdPair) -> (u64, Vec<String>) {
    use crate::wire::WFrame;
    let mut per_node: Vec<Vec<String>> = vec![vec![], vec![]];
    for r in &p.w.recs {
        match r {
            Rec::Emit { node, data, dst, ch: Some(_), .. } if *node < 2 => {
                let cl = crate::ledger::cid_len_of(&p.w, *dst);
                let mut s = String::new();
                for (pk, frames) in crate::ledger::decode(data, cl) {
                    s += &format!("[{:?} pn={} ", pk.ty, pk.pn_trunc);
                    for f in frames {
                        match f {
                            WFrame::Padding(_) => {}
                            WFrame::Ack(a) => s += &format!("ACK{:?} ", a.ranges),
                            WFrame::Stream { id, off, fin, data, .. } => s += &format!("STREAM({id},{off},{},{fin}) ", data.len()),
                            WFrame::Crypto { off, data } => s += &format!("CRYPTO({off},{}) ", data.len()),
                            WFrame::NewToken(t) => s += &format!("NEW_TOKEN({}) ", t.len()),
                            other => s += &format!("{other:?} "),
                        }
                    }
                    s += "]";
                }
                per_node[*node].push(s);
            }
            Rec::Event { node, ev, .. } if *node < 2 => per_node[*node].push(format!("EV {ev}")),
            _ => {}
        }
    }
    let mut h = std::collections::hash_map::DefaultHasher::new();
    use std::hash::{Hash, Hasher};
    per_node.hash(&mut h);
    let flat: Vec<String> = per_node.into_iter().enumerate().flat_map(|(n, v)| v.into_iter().map(move |x| format!("node{n} {x}"))).collect();
    (h.finish(), flat)
}

fn run(process_base: Instant, hs: &[Hist], r: &Run) -> Out {
    let h = &hs[r.h];
    let base = process_base + r.shift;
    let res = guarded(|| {
        let cfg = cfg_of(h.cfg);
        let mut p = std_pair_pre(base, &cfg, h.wl, ReadMode::default(), |w| {
            w.fates = fates_of(&h.devs, &FATE_ALTS);
            w.hold_drained = r.drained_part;
            w.timeout_calls = r.timeout_calls;
        });
        let mut reset_sent = false;
        let mut script = h.script.clone();
        if let Some(e) = &r.extra {
            script.push(e.clone());
        }
        if r.drained_part && r.reset_after_us.is_none() {
            // close, drain, then feed everything again
            script.push((30, Op::Close(CLIENT, 9)));
        }
        if let Some(us) = r.busy_us {
            let interval = Duration::from_micros(us);
            let mut polls = 0u64;
            while !crate::scen::workload_done(&p) && p.w.t < Duration::from_secs(60) && polls < 3_000_000 {
                match p.w.next_event() {
                    Some((at, _)) if at <= p.w.t + interval => {
                        p.w.step();
                    }
                    _ => {
                        p.w.t += interval;
                        polls += 1;
                        crate::scen::apply_op(&mut p, &Op::SpuriousSettle(CLIENT));
                        crate::scen::apply_op(&mut p, &Op::SpuriousSettle(SERVER));
                    }
                }
            }
        } else if let Some(us) = r.reset_after_us {
            // run to the close point by hand, close, and let the peer's stateless reset arrive
            let mut g = 0;
            while p.w.steps < 30 && g < 1000 {
                g += 1;
                for (st, op) in &h.script {
                    if *st == p.w.steps {
                        crate::scen::apply_op(&mut p, op);
                    }
                }
                if !p.w.step() {
                    break;
                }
            }
            let reset = crate::scen::exact_stateless_reset(&p, CLIENT);
            if us == 0 {
                // the reset is handled after close() but before the connection was polled for the
                // close packet it owes (a driver that reads the socket first)
                let now = p.w.now();
                let ch = p.cch;
                if let Some(s) = p.w.nodes[CLIENT].conns.get_mut(&ch) {
                    s.conn.close(now, proto::VarInt::from_u32(9), bytes::Bytes::from_static(b"x"));
                }
                if let Some(d) = reset {
                    let (src, dst) = (p.w.nodes[SERVER].addr, p.w.nodes[CLIENT].addr);
                    p.w.deliver(crate::sim::Flight { at: p.w.t, seq: 0, idx: u64::MAX, src, dst, ecn: None, data: d, injected: true });
                    reset_sent = true;
                }
                p.w.settle_conn(CLIENT, ch);
            } else {
                crate::scen::apply_op(&mut p, &Op::Close(CLIENT, 9));
                if let Some(d) = reset {
                    let (src, dst) = (p.w.nodes[SERVER].addr, p.w.nodes[CLIENT].addr);
                    p.w.inject(src, dst, d, Duration::from_micros(us));
                    reset_sent = true;
                }
            }
        } else {
            drive(&mut p, &script, 40_000, Duration::from_secs(300));
        }
        let mut timeouts = vec![];
        if r.drained_part {
            // run until both sides drained
            let mut guard = 0;
            while guard < 5000 {
                guard += 1;
                let all = [CLIENT, SERVER].iter().all(|n| p.w.nodes[*n].conns.values().all(|s| s.conn.is_drained()));
                if all {
                    break;
                }
                if !p.w.step() {
                    break;
                }
            }
            p.w.post_drain_output.clear();
            // feed every datagram ever emitted by the peer, then 10 timeouts
            let olds: Vec<(usize, Vec<u8>, std::net::SocketAddr, std::net::SocketAddr)> = p.w.recs.iter().filter_map(|r| match r {
                Rec::Emit { node, data, src, dst, ch: Some(_), .. } => Some((*node, data.clone(), *src, *dst)),
                _ => None,
            }).collect();
            for (_, d, src, dst) in olds {
                p.w.deliver(crate::sim::Flight { at: p.w.t, seq: 0, idx: u64::MAX, src, dst, ecn: None, data: d, injected: true });
            }
            // the application may not have noticed: close() on a drained connection changes nothing
            {
                let now = p.w.now();
                for node in [CLIENT, SERVER] {
                    let chs: Vec<_> = p.w.nodes[node].conns.keys().copied().collect();
                    for ch in chs {
                        if let Some(s) = p.w.nodes[node].conns.get_mut(&ch) {
                            if s.conn.is_drained() {
                                s.conn.close(now, proto::VarInt::from_u32(1), bytes::Bytes::from_static(b"late"));
                            }
                        }
                        p.w.settle_conn(node, ch);
                    }
                }
            }
            for k in 1..=10u64 {
                p.w.t += Duration::from_secs(k);
                let now = p.w.now();
                for node in [CLIENT, SERVER] {
                    let chs: Vec<_> = p.w.nodes[node].conns.keys().copied().collect();
                    for ch in chs {
                        if let Some(s) = p.w.nodes[node].conns.get_mut(&ch) {
                            s.conn.handle_timeout(now);
                            timeouts.push(s.conn.poll_timeout().map(|t| t.saturating_duration_since(base)));
                        }
                        p.w.settle_conn(node, ch);
                    }
                }
            }
        }
        (p, reset_sent)
    });
    match res {
        Err(e) => Out { sem_lines: vec![], sem: 0, sem_once: 0, dump: String::new(), abs: 0, abs_lines: vec![], trace: 0, steps: 0, streak: 0, post_drain: vec![], timeouts_rel: vec![], panic: Some(e), reset_sent: false, token_clock: vec![], tokens_checked: 0 },
        Ok((p, reset_sent)) => {
          let (token_clock, tokens_checked) = token_clock_check(&p);
          Out {
            token_clock,
            tokens_checked,
            reset_sent,
            sem_lines: if DUMP.load(std::sync::atomic::Ordering::Relaxed) {
                let mut v = vec![];
                for node in [CLIENT, SERVER] {
                    let evs: Vec<String> = p.w.recs.iter().filter_map(|r| match r { Rec::Event { node: n, ev, .. } if *n == node => Some(ev.clone()), _ => None }).collect();
                    v.push(format!("node{node} events {evs:?}"));
                    for s in p.w.nodes[node].conns.values() {
                        v.push(format!("node{node} stats {:?}", s.conn.stats().path));
                    }
                }
                v
            } else { vec![] },
            sem: semantic_trace(&p, false),
            sem_once: semantic_trace(&p, true),
            dump: if DUMP.load(std::sync::atomic::Ordering::Relaxed) { crate::trace::dump(&p.w) } else { String::new() },
            abs: abstract_trace(&p).0,
            abs_lines: if DUMP.load(std::sync::atomic::Ordering::Relaxed) { abstract_trace(&p).1 } else { vec![] },
            trace: full_trace(&p),
            steps: p.w.steps,
            streak: p.w.max_timer_streak,
            post_drain: p.w.post_drain_output.clone(),
            timeouts_rel: vec![],
            panic: None,
          }
        }
    }
}

/// Every address-validation token the server hands out in NEW_TOKEN frames carries its issue time;
/// it must be the reading of the clock the server was given (the harness `SimTime`), not of any other
fn token_clock_check(p: &StdPair) -> (Vec<String>, u64) {
    use crate::wire::WFrame;
    let mut out = vec![];
    let mut n = 0u64;
    let key = crate::sim::token_key(7 + p.w.nodes[SERVER].seed - 1);
    let epoch = 50 * 365 * 86400u64;
    for r in &p.w.recs {
        if let Rec::Emit { node, data, dst, t, .. } = r {
            if *node != SERVER {
                continue;
            }
            for (_, frames) in crate::ledger::decode(data, crate::ledger::cid_len_of(&p.w, *dst)) {
                for f in frames {
                    if let WFrame::NewToken(tok) = f {
                        n += 1;
                        let now = epoch + t.as_secs();
                        match proto::verif_codec::token_check(key.clone(), &tok, &[0; 8], *dst, now, 15, 1_000_000_000) {
                            Ok(v) => match v.logged {
                                Some((_, issued)) if issued.abs_diff(now) <= 2 => {}
                                other => out.push(format!("NEW_TOKEN token emitted at {t:?} (supplied clock: {now} s since the epoch) decodes to {other:?} (nonce, issue time in s)")),
                            },
                            Err(()) => out.push(format!("NEW_TOKEN token emitted at {t:?} does not decode under the server's own token key")),
                        }
                    }
                }
            }
        }
    }
    (out, n)
}

fn histories(thorough: bool) -> Vec<Hist> {
    let mut v = vec![];
    let mk = |cfg: &'static str, wl, devs: Devs, script: Vec<(u64, Op)>, sname: &'static str| Hist { cfg, wl, devs, script, sname };
    for cfg in ["nopace", "default", "idle30s", "retry", "cidlife", "ackfreq", "tinywin"] {
        for wl in [Wl::W1, Wl::W2, Wl::W5] {
            v.push(mk(cfg, wl, vec![], vec![], "none"));
        }
    }
    v.push(mk("default", Wl::W2, vec![], vec![(20, Op::KeyUpdate(CLIENT))], "keyupd-c@20"));
    v.push(mk("default", Wl::W2, vec![], vec![(18, Op::Rebind(CLIENT, addr(9)))], "rebind@18"));
    v.push(mk("default", Wl::W6, vec![], vec![(25, Op::Rebind(CLIENT, addr(9))), (25, Op::LocalAddrChanged(CLIENT))], "migrate@25"));
    v.push(mk("nopace", Wl::W6, vec![], vec![(25, Op::Rebind(CLIENT, addr(9))), (25, Op::LocalAddrChanged(CLIENT))], "migrate@25"));
    v.push(mk("nopace", Wl::W2, vec![], vec![(20, Op::KeyUpdate(CLIENT))], "keyupd-c@20"));
    // endpoint-level responses (stateless resets with their random-looking padding) are part of
    // the deterministic output too
    v.push(mk("default", Wl::W1, vec![], vec![(12, Op::Unroutable(SERVER, 1200)), (16, Op::Unroutable(CLIENT, 300)), (40, Op::Unroutable(SERVER, 60))], "unroutable-datagrams"));
    v.push(mk("cidlife", Wl::W2, vec![], vec![(10, Op::Unroutable(SERVER, 900)), (30, Op::Unroutable(SERVER, 900))], "unroutable-datagrams"));
    // zero-latency link: round-trip times of a few nanoseconds (pacing arithmetic rounds to zero)
    v.push(mk("lat0", Wl::W2, vec![], vec![], "none"));
    v.push(mk("lat0", Wl::W2, vec![(0, 4), (2, 0), (7, 0)], vec![], "none"));
    v.push(mk("lat0", Wl::W6, vec![(3, 0)], vec![], "none"));
    // NEW_TOKEN tokens carry an issue time: the only wall-clock value the core handles
    v.push(mk("tokens2", Wl::W1, vec![], vec![], "none"));
    v.push(mk("tokens2", Wl::W2, vec![(3, 0)], vec![], "none"));
    // rate-limited senders (the pacer decides when data may leave)
    v.push(mk("pacing2k", Wl::W1, vec![], vec![], "none"));
    v.push(mk("pacing20k", Wl::W2, vec![], vec![], "none"));
    // the peer goes silent while connection IDs keep expiring (timers must keep settling)
    v.push(mk("cidlife", Wl::W1, vec![], vec![(30, Op::Blackhole(SERVER))], "server-silent@30"));
    v.push(mk("cidlife", Wl::W2, vec![], vec![(24, Op::Blackhole(CLIENT))], "client-silent@24"));
    // every k=1 deviation history of W1/W2 in the first 30 datagrams
    let n = if thorough { 40 } else { 20 };
    for wl in [Wl::W1, Wl::W2] {
        for i in 0..n {
            for a in 0..FATE_ALTS.len() as u16 {
                if !thorough && (i + a as u64) % 3 != 0 {
                    continue;
                }
                v.push(mk("default", wl, vec![(i, a)], vec![], "none"));
            }
        }
    }
    // (quick tier: the remaining single-deviation histories come last, behind the ones that get the
    // per-step insertion variants)
    if !thorough {
        for wl in [Wl::W1, Wl::W2] {
            for i in 0..n {
                for a in 0..FATE_ALTS.len() as u16 {
                    if (i + a as u64) % 3 != 0 {
                        v.push(mk("default", wl, vec![(i, a)], vec![], "none"));
                    }
                }
            }
        }
    }
    v
}

pub fn main(args: &Args) -> ! {
    if args.replay.is_some() {
        replay(args);
    }
    explore::quiet_panics();
    let pbase = Instant::now();
    let mut rep = Report::new("C20", args, "fault_enumeration");
    let thorough = args.tier == Tier::Thorough;
    let dl = deadline(if thorough { 1200 } else { 45 });
    let hs = histories(thorough);
    rep.rule = "Differential runs over a list of input histories H (fault-free baselines of several configurations/workloads incl. Retry, CID rotation, key update, NAT rebinding, migration and unroutable datagrams that draw stateless resets, plus every single-deviation history over the fate alphabet in the first datagrams): (1) H twice -> identical full trace (instant, destination, bytes of every datagram; every event; every timer firing); (2) H with every supplied Instant shifted by 1 s / 1 day / 10 years -> identical trace relative to the base; (3) for EVERY step index j of H a spurious handle_timeout(now) or an extra poll round is inserted -> identical trace; (3a) H with the timeout handler called twice / three times at EVERY timer firing before transmits are polled -> identical full trace; (3c) every NEW_TOKEN token the server emits decodes (server's own key) to an issue time equal to the supplied clock's reading at emission; (4) a timer never fires more than 16 consecutive times at one instant; (3b) script-free histories driven by a busy-polling loop (extra transmit polls every 20/50/100/1000 us of virtual time, incl. rate-limited senders) -> same events and loss counters as the event-driven run; (5) after both sides are drained (by the close timer, or early by the peer's stateless reset arriving 1 / 40 ms after the close, or right after close() before the connection was polled again) every datagram of the run is fed again, close() is called once more and ten timeouts are delivered -> no transmit, no event, no endpoint event. Non-trivial = a run with a shift or an inserted call; distinct = distinct (history, variant) pairs.".into();
    // baselines
    let (bres, _) = e3((0..hs.len()).collect::<Vec<_>>(), dl, |&i| run(pbase, &hs, &Run { h: i, shift: Duration::ZERO, extra: None, drained_part: false, busy_us: None, reset_after_us: None, timeout_calls: 1 }));
    let base: Vec<(u64, u64)> = bres.iter().map(|(_, o)| (o.trace, o.steps)).collect();
    let base_abs: Vec<u64> = bres.iter().map(|(_, o)| o.abs).collect();
    let base_sem: Vec<u64> = bres.iter().map(|(_, o)| o.sem).collect();
    let base_once: Vec<u64> = bres.iter().map(|(_, o)| o.sem_once).collect();
    let mut runs = vec![];
    for (i, _) in hs.iter().enumerate() {
        runs.push(Run { h: i, shift: Duration::ZERO, extra: None, drained_part: false, busy_us: None, reset_after_us: None, timeout_calls: 1 });
        for sh in [1u64, 86_400, 315_360_000] {
            runs.push(Run { h: i, shift: Duration::from_secs(sh), extra: None, drained_part: false, busy_us: None, reset_after_us: None, timeout_calls: 1 });
        }
        // insertion points only for the first histories in quick (they dominate the cost)
        let ins = thorough || i < 34;
        if ins {
            let steps = base[i].1.min(if thorough { 400 } else { 120 });
            for j in 0..steps {
                for n in [CLIENT, SERVER] {
                    runs.push(Run { h: i, shift: Duration::ZERO, extra: Some((j, Op::SpuriousTimeout(n))), drained_part: false, busy_us: None, reset_after_us: None, timeout_calls: 1 });
                    runs.push(Run { h: i, shift: Duration::ZERO, extra: Some((j, Op::SpuriousSettle(n))), drained_part: false, busy_us: None, reset_after_us: None, timeout_calls: 1 });
                }
            }
        }
        // every timer firing of the history calls the timeout handler twice / three times
        for k in [2u32, 3] {
            runs.push(Run { h: i, shift: Duration::ZERO, extra: None, drained_part: false, busy_us: None, reset_after_us: None, timeout_calls: k });
        }
        if i < 34 || thorough {
            runs.push(Run { h: i, shift: Duration::ZERO, extra: None, drained_part: true, busy_us: None, reset_after_us: None, timeout_calls: 1 });
            // ... and drained early by the peer's stateless reset while the close timer is running
            for us in [0u64, 1_000, 40_000] {
                runs.push(Run { h: i, shift: Duration::ZERO, extra: None, drained_part: true, busy_us: None, reset_after_us: Some(us), timeout_calls: 1 });
            }
        }
        // a busy-polling driver: extra transmit polls at a fixed cadence between the events
        let h = &hs[i];
        if h.script.is_empty() && h.devs.is_empty() && h.cfg != "lat0" && h.cfg != "idle30s" {
            let paced = h.cfg.starts_with("pacing");
            for us in [20u64, 50, 100, 1000] {
                if !thorough && !paced && us != 100 {
                    continue;
                }
                runs.push(Run { h: i, shift: Duration::ZERO, extra: None, drained_part: false, busy_us: Some(us), reset_after_us: None, timeout_calls: 1 });
            }
        }
    }
    let total = runs.len();
    let (res, capped) = e3(runs, dl, |r| run(pbase, &hs, r));
    rep.exhaustive = !capped;
    let mut n_shift = 0u64;
    let mut n_ins = 0u64;
    let mut n_multi = 0u64;
    let mut n_drain = 0u64;
    let mut n_busy = 0u64;
    let mut n_tokens = 0u64;
    let mut n_reset = 0u64;
    for (r, o) in &res {
        rep.evaluations += 1;
        let h = &hs[r.h];
        let rj = json!({"check":"c20","cfg":h.cfg,"wl":format!("{:?}",h.wl),"devs":h.devs,"script":h.sname,"shift_s":r.shift.as_secs(),"extra":format!("{:?}",r.extra),"drained":r.drained_part,"busy_us":r.busy_us,"reset_after_us":r.reset_after_us,"timeout_calls":r.timeout_calls});
        let desc = format!("history cfg={} wl={:?} devs={:?} script={} shift={:?} inserted={:?} busy-polling={:?} reset-after-close={:?}us timeout-handler-calls-per-firing={}", h.cfg, h.wl, h.devs, h.sname, r.shift, r.extra, r.busy_us, r.reset_after_us, r.timeout_calls);
        if let Some(p) = &o.panic {
            rep.violation(Violation { signature: "panic".into(), what: format!("{desc}: panic {p}"), replay: rj.clone() });
            continue;
        }
        n_tokens += o.tokens_checked;
        if let Some(w) = o.token_clock.first() {
            rep.violation(Violation { signature: "token-issue-time-not-from-supplied-clock".into(), what: format!("{desc}: {w}"), replay: rj.clone() });
        }
        let mut hh = std::collections::hash_map::DefaultHasher::new();
        use std::hash::{Hash, Hasher};
        (r.h, r.shift, format!("{:?}", r.extra), r.drained_part, r.reset_after_us, r.busy_us, r.timeout_calls).hash(&mut hh);
        if r.drained_part {
            n_drain += 1;
            n_reset += o.reset_sent as u64;
            rep.distinct.insert(hh.finish());
            if !o.post_drain.is_empty() {
                rep.violation(Violation { signature: "output-after-drained".into(), what: format!("{desc}: a drained connection produced output: {:?}", &o.post_drain[..o.post_drain.len().min(3)]), replay: rj.clone() });
            }
            continue;
        }
        if r.shift != Duration::ZERO || r.extra.is_some() || r.busy_us.is_some() || r.timeout_calls > 1 {
            rep.distinct.insert(hh.finish());
        }
        if r.busy_us.is_some() {
            n_busy += 1;
            if o.sem_once != base_once[r.h] {
                rep.violation(Violation { signature: "extra-polls-change-outcome".into(), what: format!("{desc}: events / loss counters differ from the run of the same history without the extra transmit polls (or the workload no longer completes)"), replay: rj.clone() });
            }
            continue;
        }
        if o.streak > 16 {
            rep.violation(Violation { signature: "timer-does-not-advance".into(), what: format!("{desc}: a timer fired {} consecutive times at one instant", o.streak), replay: rj.clone() });
        }
        // inserted calls may legitimately move pacing-derived instants by rounding; they must not
        // change what is sent or reported, so they are compared on the timing-insensitive trace
        // un-paced histories (huge fixed window): packet-for-packet equality; paced histories:
        // outcome-level equality (events, loss-recovery counters)
        let differs = if r.extra.is_some() {
            if h.cfg == "nopace" { o.abs != base_abs[r.h] } else { o.sem != base_sem[r.h] }
        } else {
            o.trace != base[r.h].0
        };
        if differs {
            let sig = if r.timeout_calls > 1 {
                "repeated-timeout-call-changes-trace"
            } else if r.shift != Duration::ZERO {
                n_shift += 1;
                "time-translation-changes-trace"
            } else if let Some((_, op)) = &r.extra {
                n_ins += 1;
                match op {
                    Op::SpuriousTimeout(_) => "spurious-timeout-changes-trace",
                    _ => "spurious-poll-changes-trace",
                }
            } else {
                "replay-differs"
            };
            rep.violation(Violation { signature: sig.into(), what: format!("{desc}: output trace differs from the reference run of the same history"), replay: rj });
        } else if r.timeout_calls > 1 {
            n_multi += 1;
        } else if r.shift != Duration::ZERO {
            n_shift += 1;
        } else if r.extra.is_some() {
            n_ins += 1;
        }
    }
    if n_tokens == 0 {
        machinery("vacuity guard: no NEW_TOKEN token was ever emitted");
    }
    rep.part("differential", json!({"histories": hs.len(), "runs": total, "executed": res.len(), "time_shift_runs": n_shift, "insertion_runs": n_ins, "repeated_timeout_call_runs": n_multi, "drained_runs": n_drain, "busy_polling_runs": n_busy, "new_token_issue_times_checked": n_tokens, "drained_early_by_stateless_reset_runs": n_reset, "capped": capped}));
    rep.sample(json!({"history":{"cfg":"default","wl":"W2","devs":[[7,0]]},"variant":{"inserted":"SpuriousTimeout(client) at step 31"},"meaning":"the run with datagram #7 dropped is repeated with one extra handle_timeout(now)+poll round on the client after step 31; every later datagram, event and timer must be identical"}));
    rep.assumptions = vec![
        "entropy: EndpointConfig::rng_seed fixed, counter-based ConnectionIdGenerator and initial_dst_cid_provider supplied by the harness (the built-in generators draw from the OS RNG by design)".into(),
        "SystemTime (token issue times) comes from the harness TimeSource and is not shifted".into(),
        "late timer service changes traces legitimately and is covered by C02's oracle instead".into(),
    ];
    rep.finish()
}

fn replay(args: &Args) -> ! {
    let path = args.replay.as_ref().unwrap();
    let v: Value = serde_json::from_str(&std::fs::read_to_string(path).unwrap_or_else(|e| machinery(&format!("{e}")))).unwrap_or_else(|e| machinery(&format!("{e}")));
    let r = &v["replay"];
    let cfg: &'static str = Box::leak(r["cfg"].as_str().unwrap_or("default").to_string().into_boxed_str());
    let wl = wl_from_str(r["wl"].as_str().unwrap_or("W1"));
    let devs: Devs = r["devs"].as_array().map(|d| d.iter().map(|x| (x[0].as_u64().unwrap(), x[1].as_u64().unwrap() as u16)).collect()).unwrap_or_default();
    let all = histories(true);
    let sname = r["script"].as_str().unwrap_or("none");
    let h = all.iter().find(|h| h.cfg == cfg && h.wl == wl && h.devs == devs && h.sname == sname).cloned().unwrap_or(Hist { cfg, wl, devs, script: vec![], sname: "none" });
    let extra_s = r["extra"].as_str().unwrap_or("None").to_string();
    let extra = if extra_s.starts_with("Some") {
        let nums: Vec<u64> = extra_s.split(|c: char| !c.is_ascii_digit()).filter(|s| !s.is_empty()).map(|s| s.parse().unwrap()).collect();
        let op = if extra_s.contains("SpuriousTimeout") { Op::SpuriousTimeout(nums[1] as usize) } else { Op::SpuriousSettle(nums[1] as usize) };
        Some((nums[0], op))
    } else {
        None
    };
    let pbase = Instant::now();
    DUMP.store(true, std::sync::atomic::Ordering::Relaxed);
    let hs = vec![h];
    let a = run(pbase, &hs, &Run { h: 0, shift: Duration::ZERO, extra: None, drained_part: false, busy_us: None, reset_after_us: None, timeout_calls: 1 });
    let b = run(pbase, &hs, &Run { h: 0, shift: Duration::from_secs(r["shift_s"].as_u64().unwrap_or(0)), extra, drained_part: r["drained"].as_bool().unwrap_or(false), busy_us: r["busy_us"].as_u64(), reset_after_us: r["reset_after_us"].as_u64(), timeout_calls: r["timeout_calls"].as_u64().unwrap_or(1) as u32 });
    let (la, lb): (Vec<&str>, Vec<&str>) = if r["extra"].as_str().unwrap_or("None") != "None" {
        (a.abs_lines.iter().map(|s| s.as_str()).collect(), b.abs_lines.iter().map(|s| s.as_str()).collect())
    } else {
        (a.dump.lines().collect(), b.dump.lines().collect())
    };
    for i in 0..la.len().max(lb.len()) {
        let (x, y) = (la.get(i).copied().unwrap_or("<end>"), lb.get(i).copied().unwrap_or("<end>"));
        if x != y {
            println!("first difference at line {i}:\n  ref: {}\n  var: {}", &x[..x.len().min(300)], &y[..y.len().min(300)]);
            for k in i.saturating_sub(4)..i {
                println!("  ctx: {}", &la[k][..la[k].len().min(200)]);
            }
            for k in i..(i + 14) {
                println!("  ref+{}: {}", k - i, la.get(k).map_or("<end>", |l| &l[..l.len().min(170)]));
                println!("  var+{}: {}", k - i, lb.get(k).map_or("<end>", |l| &l[..l.len().min(170)]));
            }
            break;
        }
    }
    println!("semantic equal: {}", a.sem == b.sem);
    for (x, y) in a.sem_lines.iter().zip(b.sem_lines.iter()) {
        if x != y {
            println!("  sem diff:\n   ref {x}\n   var {y}");
        }
    }
    println!("reference trace={:#x} steps={} ; variant trace={:#x} steps={} streak={} post_drain={:?} timeouts={:?} panic={:?}", a.trace, a.steps, b.trace, b.steps, b.streak, b.post_drain, b.timeouts_rel, b.panic);
    std::process::exit(0)
}
