//! C12 — sending respects the congestion window; loss accounting balances; no spurious loss.
//! (The built-in controllers' minimum-window property is explored in /verif/comp.)

use std::time::{Duration, Instant};

use proto::Dir;
use serde_json::json;

use crate::{
    app::{End, Plan, ReadMode, StreamPlan},
    explore::{self, deadline, e3, guarded, FATE_ALTS, FATE_ALTS3},
    ledger::{cid_len_of, decode},
    report::{machinery, Args, Report, Tier, Violation},
    scen::{cfg_by_name, e2_cases, plans, replay_ecase, std_pair_pre, workload_done, ECase, Op, StdPair, Wl},
    sim::{addr, Ctl, PairCfg, Rec, CLIENT, SERVER},
    wire::WFrame,
};

/// Congestion-gate oracle over the emission log. Returns (violations, number of gated
/// datagrams that were sent with less than one MTU of window left = boundary exercised)
pub fn cwnd_violations(p: &StdPair) -> (Vec<(String, String)>, u64) {
    let mut out = vec![];
    let mut near = 0u64;
    let mut cur_batch = u64::MAX;
    let mut running = 0u64;
    let mut probes_left = 0u32;
    let mut floor_reported = false;
    for r in &p.w.recs {
        let Rec::Emit { node, ch: Some(_), data, dst, batch, mtu_before, pre: Some(pre), t, idx, .. } = r else { continue };
        if *batch != cur_batch {
            cur_batch = *batch;
            running = pre.in_flight;
            probes_left = pre.loss_probes.iter().sum();
        }
        let cl = cid_len_of(&p.w, *dst);
        let pk = decode(data, cl);
        let frames: Vec<&WFrame> = pk.iter().flat_map(|(_, f)| f.iter()).collect();
        let ack_eliciting = frames.iter().any(|f| f.ack_eliciting());
        let has_close = frames.iter().any(|f| matches!(f, WFrame::Close { .. }));
        let has_path = frames.iter().any(|f| matches!(f, WFrame::PathChallenge(_) | WFrame::PathResponse(_)));
        let mtu_probe = data.len() > *mtu_before as usize
            && frames.iter().all(|f| matches!(f, WFrame::Ping | WFrame::ImmediateAck | WFrame::Padding(_)));
        let len = data.len() as u64;
        // quinn's own controllers never report less than two datagrams of the CURRENT path MTU
        if *node < 2 && p.w.builtin_ctl[*node] && pre.cwnd < 2 * *mtu_before as u64 && !floor_reported {
            floor_reported = true;
            out.push((
                "window-below-two-datagrams-of-current-mtu".into(),
                format!("node{node} at {t:?}: congestion window {} with a path MTU of {mtu_before} (two datagrams = {})", pre.cwnd, 2 * *mtu_before as u64),
            ));
        }
        if ack_eliciting && !has_close && !has_path && !mtu_probe {
            if running + len >= pre.cwnd {
                if probes_left > 0 {
                    probes_left -= 1;
                } else {
                    // discriminate the one known way this happens: ack-eliciting data coalesced
                    // behind a leading packet that is not ack-eliciting (e.g. a Handshake ACK)
                    let first_ae = pk.first().map_or(true, |(_, f)| f.iter().any(|x| x.ack_eliciting()));
                    let kind = if pk.len() > 1 && !first_ae { "coalesced-behind-ack-only-packet" } else { "plain" };
                    out.push((
                        format!("sent-beyond-congestion-window:{kind}"),
                        format!("node{node} at {t:?} emitted ack-eliciting datagram #{idx} of {len} bytes with {running} bytes in flight and window {} (no loss probe owed)", pre.cwnd),
                    ));
                }
            } else if running + len + *mtu_before as u64 >= pre.cwnd {
                near += 1;
            }
        }
        if ack_eliciting {
            running += len;
        }
    }
    out.truncate(4);
    (out, near)
}

fn settle_down(p: &mut StdPair) {
    // let acknowledgements drain after the workload completed
    let limit = p.w.t + Duration::from_secs(120);
    let mut n = 0;
    while n < 4000 {
        match p.w.next_event() {
            Some((at, _)) if at <= limit => {
                p.w.step();
                n += 1;
            }
            _ => break,
        }
    }
}

fn balance_violations(p: &StdPair) -> Vec<(String, String)> {
    let mut out = vec![];
    for (node, who) in [(CLIENT, "client"), (SERVER, "server")] {
        for s in p.w.nodes[node].conns.values() {
            if s.conn.is_closed() {
                continue;
            }
            let pr = s.conn.verif_probe();
            if pr.in_flight_bytes != 0 || pr.in_flight_ack_eliciting != 0 {
                out.push((
                    format!("in-flight-not-zero:{who}"),
                    format!("{who}: everything was delivered and acknowledged, the network is quiet, but {} bytes / {} ack-eliciting packets are still counted in flight (timers {:?})", pr.in_flight_bytes, pr.in_flight_ack_eliciting, pr.timers.iter().map(|x| x.0).collect::<Vec<_>>()),
                ));
            }
            if let Some(b) = pr.prev_in_flight_bytes {
                if b != 0 && pr.prev_path_remote.is_some() && p.w.next_event().is_none() {
                    out.push((format!("prev-path-in-flight-not-zero:{who}"), format!("{who}: {b} bytes still counted in flight on the previous path at quiescence")));
                }
            }
        }
    }
    out
}

fn mk_cases(thorough: bool) -> Vec<ECase> {
    let mut v = vec![];
    let mut add = |name: &str, f: &dyn Fn(&mut PairCfg), wl: Wl, script: Vec<(u64, Op)>, window: (u64, u64)| {
        let mut cfg = PairCfg::default();
        f(&mut cfg);
        cfg.client.name = name.to_string();
        let (cp, sp) = plans(wl, ReadMode::default());
        v.push(ECase { name: name.to_string(), cfg, cp, sp, script, window, max_steps: 40_000, horizon: Duration::from_secs(600) });
    };
    for (n, w) in [("fixed2mtu", 2 * 1200u64), ("fixed3mtu", 3 * 1200), ("fixed10mtu", 12_000), ("fixedhuge", 10_000_000)] {
        add(&format!("{n}/W6"), &|c| c.client.controller = Ctl::Fixed(w), Wl::W6, vec![], (8, 28));
        if thorough || w <= 3 * 1200 {
            add(&format!("{n}/W2"), &|c| { c.client.controller = Ctl::Fixed(w); c.server.controller = Ctl::Fixed(w); }, Wl::W2, vec![], (8, 28));
        }
    }
    add("cubic/W6", &|_| {}, Wl::W6, vec![], (8, 28));
    // the smallest legal initial window: the floor of two datagrams has to follow MTU discovery upwards
    add("cubic-iw2400/W6", &|c| { c.client.controller = Ctl::CubicIw(2400); c.server.controller = Ctl::CubicIw(2400); }, Wl::W6, vec![], (8, 40));
    add("cubic-iw2400/W2", &|c| { c.client.controller = Ctl::CubicIw(2400); c.server.controller = Ctl::CubicIw(2400); }, Wl::W2, vec![], (8, 40));
    add("newreno/W6", &|c| c.client.controller = Ctl::NewReno, Wl::W6, vec![], (8, 28));
    add("bbr/W6", &|c| c.client.controller = Ctl::Bbr, Wl::W6, vec![], (8, 28));
    add("cubic/W6/ce@14", &|_| {}, Wl::W6, vec![(14, Op::CeFrom(6))], (8, 28));
    add("fixed3mtu/W6/retry", &|c| { c.client.controller = Ctl::Fixed(3600); c.retry = true; }, Wl::W6, vec![], (0, 20));
    add("fixed3mtu/W1/handshake", &|c| { c.client.controller = Ctl::Fixed(3600); c.server.controller = Ctl::Fixed(3600); c.cert_len = 6000; }, Wl::W1, vec![], (0, 20));
    add("cubic/W6/rebind@30", &|_| {}, Wl::W6, vec![(30, Op::Rebind(CLIENT, addr(9)))], (26, 44));
    add("fixed3mtu/W6/migrate@30", &|c| c.client.controller = Ctl::Fixed(3600), Wl::W6, vec![(30, Op::Rebind(CLIENT, addr(9))), (30, Op::LocalAddrChanged(CLIENT))], (26, 44));
    // a migration that never validates (spoofed source): the server falls back to the old path;
    // packets sent to the abandoned path must leave the accounting exactly once
    add("cubic/W6/spoofed-path@30", &|_| {}, Wl::W6, vec![(30, Op::SpoofedCopy(addr(8)))], (26, 44));
    add("fixed10mtu/W6/spoofed-path@24+@40", &|c| { c.client.controller = Ctl::Fixed(12_000); c.server.controller = Ctl::Fixed(12_000); }, Wl::W6, vec![(24, Op::SpoofedCopy(addr(8))), (40, Op::SpoofedCopy(addr(7)))], (22, 40));
    add("cubic/W6/keyupd@25", &|_| {}, Wl::W6, vec![(25, Op::KeyUpdate(CLIENT))], (20, 40));
    add("cubic/W5", &|_| {}, Wl::W5, vec![], (8, 28));
    let _ = (Dir::Uni, End::Finish, StreamPlan { dir: Dir::Uni, len: 0, chunk: 1, end: End::Open }, Plan::default());
    v
}

fn oracle(p: &StdPair, done: bool) -> (Vec<(String, String)>, u64) {
    let (mut v, near) = cwnd_violations(p);
    if done {
        // clone-free: we cannot mutate p here; balance is evaluated by the caller variant below
    }
    let _ = &mut v;
    (v, near)
}

pub fn main(args: &Args) -> ! {
    let thorough = args.tier == Tier::Thorough;
    if args.replay.is_some() {
        replay_ecase(&mk_cases(true), args, &FATE_ALTS, &oracle);
    }
    explore::quiet_panics();
    let mut rep = Report::new("C12", args, "fault_enumeration");
    let dl = deadline(if thorough { 1500 } else { 45 });
    let k = if thorough { 3 } else { 2 };
    let alts: &[crate::sim::Fate] = if thorough { &FATE_ALTS } else { &FATE_ALTS3 };
    rep.rule = format!("E2 on real endpoints with a harness congestion controller dictating the window (2, 3, 10 datagrams, huge) and with Cubic / NewReno / BBR, incl. ECN-CE marking, Retry, NAT rebinding, migration and key update: every execution with <=k={k} deviations over the fate alphabet in the stated window. At every emission the independent wire decoder classifies the datagram; an ack-eliciting datagram must not leave while bytes-in-flight (probe, read before the poll_transmit call, plus earlier datagrams of the same batch) plus its size reach the window, except loss probes owed (probe), one MTU probe, path-validation packets and CONNECTION_CLOSE. Balance: after completion and a quiet network bytes in flight are 0, also when the application calls path_changed() at any one step index of the transfer (window oracle applied there too). No-spurious-loss: E3 over latency x controller x ack-frequency x workload without faults requires lost_packets == 0. Non-trivial = trace differs from the case baseline; distinct = distinct trace hashes.");
    let mut cs = mk_cases(thorough);
    if !thorough {
        for c in cs.iter_mut() {
            c.window.1 = c.window.0 + 14;
        }
    }
    let (_, near) = e2_cases(&mut rep, "c12", &cs, k, alts, dl, true, &oracle);
    rep.extra.insert("gated_datagrams_within_one_mtu_of_window".into(), json!(near));
    if near == 0 {
        machinery("vacuity guard: no ack-eliciting datagram was ever sent within one MTU of the window");
    }
    // balance + no spurious loss, fault free and with single drops
    let base = Instant::now();
    let mut tasks = vec![];
    for lat in [0u64, 1, 10, 25, 200] {
        for ctl in [Ctl::Cubic, Ctl::NewReno, Ctl::Bbr, Ctl::Fixed(3600), Ctl::Fixed(12_000)] {
            for af in [false, true] {
                for wl in [Wl::W1, Wl::W2, Wl::W6, Wl::W5] {
                    for drop in [None, Some(9u64), Some(14), Some(20)] {
                        if !thorough && drop.is_some() && (lat != 10 || af) {
                            continue;
                        }
                        tasks.push((lat, ctl, af, wl, drop, None));
                    }
                }
            }
        }
    }
    // the application reports a changed network path (Connection::path_changed: fresh RTT estimate,
    // controller and MTU discovery) at every step index of a transfer: what is outstanding at that
    // moment must still leave the accounting exactly once
    for ctl in [Ctl::Cubic, Ctl::Fixed(12_000), Ctl::Fixed(3600)] {
        for wl in [Wl::W6, Wl::W2] {
            for drop in [None, Some(14u64)] {
                if !thorough && (drop.is_some() && ctl != Ctl::Cubic) {
                    continue;
                }
                for at in (4..(if thorough { 140 } else { 64 })).step_by(if thorough { 1 } else { 2 }) {
                    for node in [CLIENT, SERVER] {
                        tasks.push((10, ctl, false, wl, drop, Some((at as u64, node))));
                    }
                }
            }
        }
    }
    let (res, capped) = e3(tasks, dl, |&(lat, ctl, af, wl, drop, pc)| {
        guarded(|| {
            let mut cfg = cfg_by_name("default");
            cfg.latency = Duration::from_millis(lat);
            cfg.client.controller = ctl;
            cfg.server.controller = ctl;
            cfg.client.ack_freq = af;
            cfg.server.ack_freq = af;
            let mut p = std_pair_pre(base, &cfg, wl, ReadMode::default(), |w| {
                if let Some(d) = drop {
                    w.fates.insert(d, crate::sim::Fate::Drop);
                }
            });
            let script: Vec<(u64, Op)> = pc.iter().map(|(at, n)| (*at, Op::PathChanged(*n))).collect();
            let done = crate::scen::drive(&mut p, &script, 60_000, Duration::from_secs(900));
            settle_down(&mut p);
            let mut v = vec![];
            if pc.is_some() {
                v.extend(cwnd_violations(&p).0);
            }
            if done && workload_done(&p) {
                v.extend(balance_violations(&p));
            } else {
                v.push(("incomplete".into(), "workload did not complete".into()));
            }
            if drop.is_none() && pc.is_none() {
                for (node, who) in [(CLIENT, "client"), (SERVER, "server")] {
                    for s in p.w.nodes[node].conns.values() {
                        let st = s.conn.stats().path;
                        if st.lost_packets != 0 {
                            v.push((format!("spurious-loss:{who}"), format!("{who} declared {} packets ({} bytes) lost on a loss-free, in-order, constant-delay path", st.lost_packets, st.lost_bytes)));
                        }
                    }
                }
            }
            (p.w.trace_hash(), v)
        })
    });
    rep.exhaustive &= !capped;
    let mut n_pc = 0u64;
    for ((lat, ctl, af, wl, drop, pc), r) in &res {
        rep.evaluations += 1;
        n_pc += pc.is_some() as u64;
        let desc = format!("latency={lat}ms controller={ctl:?} ackfreq={af} wl={wl:?} drop={drop:?} path_changed(step,node)={pc:?}");
        match r {
            Err(e) => rep.violation(Violation { signature: "panic".into(), what: format!("{desc}: panic {e}"), replay: json!({"check":"c12","kind":"balance","lat":lat,"ctl":format!("{ctl:?}"),"af":af,"wl":format!("{wl:?}"),"drop":drop,"pc":pc}) }),
            Ok((tr, v)) => {
                rep.distinct.insert(*tr);
                for (sig, what) in v {
                    rep.violation(Violation { signature: sig.clone(), what: format!("{desc}: {what}"), replay: json!({"check":"c12","kind":"balance","lat":lat,"ctl":format!("{ctl:?}"),"af":af,"wl":format!("{wl:?}"),"drop":drop,"pc":pc}) });
                }
            }
        }
    }
    rep.part("balance_and_no_spurious_loss", json!({"cases": res.len(), "with_path_changed_call_at_a_step": n_pc, "capped": capped}));
    // balance through the handshake: every drop subset of the first K datagrams, with and without
    // Retry, also with a link slower than the initial probe timeout (Initials are retransmitted
    // before the first answer arrives): whatever was abandoned along the way (packet number
    // spaces, Initial keys after a Retry) must have left the in-flight accounting
    {
        let kb: u32 = if thorough { 10 } else { 7 };
        let mut tasks = vec![];
        for retry in [false, true] {
            for lat in [10u64, 600] {
                for ctl in [Ctl::Cubic, Ctl::Fixed(12_000)] {
                    for wl in [Wl::W1, Wl::W2] {
                        if !thorough && (lat == 600 && wl == Wl::W2) {
                            continue;
                        }
                        for mask in 0..(1u64 << kb) {
                            tasks.push((retry, lat, ctl, wl, mask));
                        }
                    }
                }
            }
        }
        let planned = tasks.len();
        let (res, capped) = e3(tasks, dl, |&(retry, lat, ctl, wl, mask)| {
            guarded(|| {
                let mut cfg = cfg_by_name("default");
                cfg.latency = Duration::from_millis(lat);
                cfg.retry = retry;
                cfg.client.controller = ctl;
                cfg.server.controller = ctl;
                let mut p = std_pair_pre(base, &cfg, wl, ReadMode::default(), |w| w.drop_mask = mask);
                let done = crate::scen::drive(&mut p, &[], 60_000, Duration::from_secs(1800));
                settle_down(&mut p);
                let mut v = vec![];
                if done && workload_done(&p) {
                    v.extend(balance_violations(&p));
                } else {
                    v.push(("incomplete".into(), format!("workload did not complete: {}", crate::scen::diagnose(&p))));
                }
                (p.w.trace_hash(), v)
            })
        });
        rep.exhaustive &= !capped;
        for ((retry, lat, ctl, wl, mask), r) in &res {
            rep.evaluations += 1;
            let desc = format!("retry={retry} latency={lat}ms controller={ctl:?} wl={wl:?} drop mask {mask:#b}");
            let rj = json!({"check":"c12","kind":"hsbalance","retry":retry,"lat":lat,"ctl":format!("{ctl:?}"),"wl":format!("{wl:?}"),"mask":mask});
            match r {
                Err(e) => rep.violation(Violation { signature: "panic".into(), what: format!("{desc}: panic {e}"), replay: rj }),
                Ok((tr, v)) => {
                    rep.distinct.insert(*tr);
                    for (sig, what) in v {
                        rep.violation(Violation { signature: sig.clone(), what: format!("{desc}: {what}"), replay: rj.clone() });
                    }
                }
            }
        }
        rep.part("handshake_balance_drop_masks", json!({"K": kb, "planned": planned, "executed": res.len(), "capped": capped}));
    }
    crate::checks::merge_comp(&mut rep, "C12", thorough, dl);
    rep.sample(json!({"case":"fixed3mtu/W6","deviations":[[12,0]],"meaning":"the client's controller reports a constant 3600-byte window; datagram #12 is dropped; every ack-eliciting datagram the client emits must find in_flight + size < 3600 unless a loss probe is owed"}));
    rep.assumptions = vec![
        "bytes in flight, window and owed loss probes are read through the __verif probe immediately before each poll_transmit call".into(),
        "at most k deviations inside the stated windows".into(),
    ];
    rep.finish()
}
