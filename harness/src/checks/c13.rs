//! C13 — datagrams never exceed the validated path MTU or peer limits.
//! (MtuDiscovery as a component is explored in /verif/comp.)

use std::{
    collections::{BTreeMap, BTreeSet},
    time::{Duration, Instant},
};

use serde_json::{json, Value};

use crate::{
    app::ReadMode,
    explore::{self, deadline, e3, guarded},
    ledger::{cid_len_of, decode},
    report::{machinery, Args, Report, Tier, Violation},
    scen::{cfg_by_name, completion, drive, integrity, std_pair_pre, wl_from_str, Op, StdPair, Wl},
    sim::{Fate, Mtud, PairCfg, Rec, CLIENT, SERVER},
    wire::{PType, WFrame},
};

fn cfgs() -> Vec<PairCfg> {
    let mut v = vec![];
    let mut add = |name: &str, f: &dyn Fn(&mut PairCfg)| {
        let mut c = cfg_by_name("default");
        f(&mut c);
        c.client.name = name.into();
        v.push(c);
    };
    add("default", &|_| {});
    add("upper9000", &|c| { c.client.mtud = Mtud::Upper(9000); c.server.mtud = Mtud::Upper(9000); c.server_max_udp = Some(65527); c.client_max_udp = Some(65527); });
    add("init1452", &|c| { c.client.initial_mtu = 1452; c.server.initial_mtu = 1452; });
    add("mtudoff1452", &|c| { c.client.initial_mtu = 1452; c.server.initial_mtu = 1452; c.client.mtud = Mtud::Off; c.server.mtud = Mtud::Off; });
    add("peer1350", &|c| { c.server_max_udp = Some(1350); });
    add("peer1200", &|c| { c.server_max_udp = Some(1200); c.client_max_udp = Some(1200); });
    add("padmtu+gso", &|c| { c.client.pad_to_mtu = true; c.server.pad_to_mtu = true; c.max_datagrams = 10; });
    add("gso1", &|c| c.max_datagrams = 1);
    add("cert10k", &|c| c.cert_len = 10_000);
    // the application reports a path change (MTU discovery restarts) while the initial MTU is above what the peer accepts
    add("init1400+peer1300+pathchanged", &|c| { c.client.initial_mtu = 1400; c.server.initial_mtu = 1400; c.server_max_udp = Some(1300); c.client_max_udp = Some(1300); });
    add("default+pathchanged", &|_| {});
    // a peer (another implementation) advertising max_udp_payload_size beyond 16 bits: legal, and no limit at all
    for (name, v) in [("peer65536", 65_536u64), ("peer66000", 66_000), ("peer2^32+1300", (1 << 32) + 1300), ("peer2^62-1", (1 << 62) - 1)] {
        add(name, &|c| {
            c.server_params_override = Some(max_udp_override(v));
            c.client_params_override = Some(max_udp_override(v));
        });
    }
    // a configured minimum above the initial value, with and without discovery: the estimate starts at the minimum
    add("min1400init1200", &|c| { c.client.min_mtu = 1400; c.server.min_mtu = 1400; });
    add("min1400init1200+mtudoff", &|c| { c.client.min_mtu = 1400; c.server.min_mtu = 1400; c.client.mtud = Mtud::Off; c.server.mtud = Mtud::Off; });
    add("min1280init1400", &|c| { c.client.initial_mtu = 1400; c.client.min_mtu = 1280; c.server.initial_mtu = 1400; c.server.min_mtu = 1280; });
    v
}

/// Rewrites transport parameter 0x03 (max_udp_payload_size) in what an endpoint sends
fn max_udp_override(v: u64) -> crate::mtls::ParamsOverride {
    std::sync::Arc::new(move |orig: &[u8]| {
        let tps = crate::wire::parse_transport_params(orig).unwrap_or_default();
        let mut o = vec![];
        let mut seen = false;
        let mut put = |o: &mut Vec<u8>, id: u64, val: &[u8]| {
            crate::wire::put_var(o, id);
            crate::wire::put_var(o, val.len() as u64);
            o.extend_from_slice(val);
        };
        let mut enc = vec![];
        crate::wire::put_var(&mut enc, v);
        for (i, val) in &tps {
            if *i == 0x03 {
                seen = true;
                put(&mut o, 0x03, &enc);
            } else {
                put(&mut o, *i, val);
            }
        }
        if !seen {
            put(&mut o, 0x03, &enc);
        }
        o
    })
}

#[derive(Clone, Debug)]
pub struct Case {
    pub cfg: String,
    pub wl: Wl,
    pub m0: usize,
    pub at: u64,
    pub m1: usize,
    /// instead of a link change at step `at`: the client's source address changes there (NAT
    /// rebinding), so path validation runs while application datagrams are queued
    pub rebind: bool,
    /// at step `at` this node closes the connection with a reason phrase far longer than a packet
    /// (instead of a link change): the CONNECTION_CLOSE has to be cut to what the path carries
    pub close_long: Option<usize>,
}

struct Limits {
    upper: [u16; 2],
    peer_max: [u64; 2],
    min_mtu: [u16; 2],
    initial: [u16; 2],
}

fn limits(cfg: &PairCfg) -> Limits {
    let up = |t: &crate::sim::TCfg| match t.mtud {
        Mtud::Default => 1452u16,
        Mtud::Off => t.initial_mtu,
        Mtud::Upper(u) => u,
    };
    // index by node: SERVER=0, CLIENT=1; peer_max[node] = what the *other* endpoint advertises
    Limits {
        upper: [up(&cfg.server).max(cfg.server.initial_mtu), up(&cfg.client).max(cfg.client.initial_mtu)],
        peer_max: [cfg.client_max_udp.unwrap_or(1472) as u64, cfg.server_max_udp.unwrap_or(1472) as u64],
        min_mtu: [cfg.server.min_mtu, cfg.client.min_mtu],
        initial: [cfg.server.initial_mtu, cfg.client.initial_mtu],
    }
}

pub fn size_violations(p: &StdPair, cfg: &PairCfg) -> (Vec<(String, String)>, u64) {
    let lim = limits(cfg);
    let mut out = vec![];
    let mut probes_seen = 0u64;
    // probe sizes delivered to the peer, per sender node
    let mut delivered_probe: [BTreeSet<usize>; 2] = [BTreeSet::new(), BTreeSet::new()];
    let mut pending_probe: BTreeMap<u64, (usize, usize)> = BTreeMap::new(); // idx -> (node, size)
    let mut last_mtu: [Option<u16>; 2] = [None, None];
    let mut batch_sizes: BTreeMap<u64, Vec<usize>> = BTreeMap::new();
    for r in &p.w.recs {
        match r {
            Rec::Emit { node, ch: Some(_), data, dst, mtu_before, pre, t, idx, batch, fate, .. } if *node < 2 => {
                let cl = cid_len_of(&p.w, *dst);
                let pk = decode(data, cl);
                let frames: Vec<&WFrame> = pk.iter().flat_map(|(_, f)| f.iter()).collect();
                let len = data.len();
                batch_sizes.entry(*batch).or_default().push(len);
                // MTU estimate changes
                if let Some(prev) = last_mtu[*node] {
                    // (a return to the configured initial MTU, which the application vouches for, needs
                    // no probe: that is what path_changed() does)
                    let back_to_initial = *mtu_before as u64 == (lim.initial[*node] as u64).min(lim.peer_max[*node]);
                    if *mtu_before > prev && !back_to_initial && !delivered_probe[*node].contains(&(*mtu_before as usize)) {
                        out.push(("mtu-rose-without-acked-probe".into(), format!("node{node} at {t:?}: MTU estimate rose {prev} -> {mtu_before} but no probe of {mtu_before} bytes had been delivered to the peer")));
                    }
                }
                last_mtu[*node] = Some(*mtu_before);
                let floor = (lim.min_mtu[*node] as u64).min(lim.peer_max[*node]) as u16;
                if *mtu_before < floor {
                    out.push(("mtu-below-floor".into(), format!("node{node} at {t:?}: MTU estimate {mtu_before} below min(min_mtu, peer max_udp_payload_size) = {floor}")));
                }
                // once the handshake is done (1-RTT packets), neither the estimate nor any datagram
                // may exceed what the peer said it accepts
                if pk.iter().any(|(h, _)| h.ty == PType::Short) {
                    if *mtu_before as u64 > lim.peer_max[*node] {
                        out.push(("mtu-estimate-above-peer-limit".into(), format!("node{node} at {t:?}: MTU estimate {mtu_before} exceeds the peer's max_udp_payload_size {}", lim.peer_max[*node])));
                    }
                    if len as u64 > lim.peer_max[*node] {
                        out.push(("datagram-above-peer-limit".into(), format!("node{node} at {t:?}: datagram #{idx} of {len} bytes exceeds the peer's max_udp_payload_size {}", lim.peer_max[*node])));
                    }
                }
                let is_probe = len > *mtu_before as usize
                    && frames.iter().all(|f| matches!(f, WFrame::Ping | WFrame::ImmediateAck | WFrame::Padding(_)))
                    && frames.iter().any(|f| matches!(f, WFrame::Ping));
                if len > *mtu_before as usize {
                    if is_probe {
                        probes_seen += 1;
                        if len > lim.upper[*node] as usize {
                            out.push(("probe-above-upper-bound".into(), format!("node{node} at {t:?}: MTU probe of {len} bytes exceeds the configured upper bound {}", lim.upper[*node])));
                        }
                        if len as u64 > lim.peer_max[*node] {
                            out.push(("probe-above-peer-limit".into(), format!("node{node} at {t:?}: MTU probe of {len} bytes exceeds the peer's max_udp_payload_size {}", lim.peer_max[*node])));
                        }
                        if pending_probe.values().any(|(n, _)| n == node) {
                            // a second probe while one is outstanding is only wrong if the first was not yet resolved;
                            // resolution (ack or loss) is internal, so only count strictly simultaneous probes in one batch
                        }
                        if *fate != Fate::Drop && len <= p.w.link_mtu.max(len) {
                            pending_probe.insert(*idx, (*node, len));
                        }
                    } else {
                        out.push(("datagram-above-mtu".into(), format!("node{node} at {t:?}: datagram #{idx} of {len} bytes exceeds the current MTU estimate {mtu_before} and is not an MTU probe")));
                    }
                }
                if *node == CLIENT && pk.iter().any(|(h, _)| h.ty == PType::Initial) && len < 1200 {
                    out.push(("client-initial-below-1200".into(), format!("client at {t:?}: datagram #{idx} carrying an Initial packet has only {len} bytes")));
                }
                if frames.iter().any(|f| matches!(f, WFrame::PathChallenge(_) | WFrame::PathResponse(_))) && len < 1200 {
                    // (RFC 9000 8.2.1: unless the anti-amplification limit for the path does not permit
                    // a datagram of this size; budget read before the poll_transmit call, less what the
                    // same call emitted earlier)
                    let earlier: usize = batch_sizes.get(batch).map_or(0, |v| v.iter().sum::<usize>() - len);
                    let amp_limited = pre.as_ref().map_or(false, |x| !x.path_validated && 3 * x.path_total_recvd < x.path_total_sent + earlier as u64 + 1200);
                    if !amp_limited {
                        out.push(("path-validation-below-1200".into(), format!("node{node} at {t:?}: datagram #{idx} carrying PATH_CHALLENGE/PATH_RESPONSE has only {len} bytes")));
                    }
                }
                if let Some(pre) = pre {
                    if pre.loss_probes.iter().sum::<u32>() > 0 && len > 1200 && !is_probe {
                        // only the first datagrams of the batch consume the owed probes
                        let pos = batch_sizes[batch].len();
                        if pos as u32 <= pre.loss_probes.iter().sum::<u32>() {
                            out.push(("loss-probe-above-1200".into(), format!("node{node} at {t:?}: datagram #{idx} sent as a loss probe has {len} bytes (> 1200)")));
                        }
                    }
                }
            }
            Rec::Deliver { idx, node, .. } if *node < 2 => {
                if let Some((n, size)) = pending_probe.remove(idx) {
                    delivered_probe[n].insert(size);
                }
            }
            Rec::LinkDrop { idx, .. } => {
                pending_probe.remove(idx);
            }
            _ => {}
        }
    }
    // GSO: all but the last segment of a batch have equal size
    for r in &p.w.recs {
        if let Rec::Emit { batch, nseg, seg, .. } = r {
            if *nseg > 1 && *seg == 0 {
                let v = &batch_sizes[batch];
                if v[..v.len() - 1].iter().any(|x| *x != v[0]) || v[v.len() - 1] > v[0] {
                    out.push(("gso-segments-unequal".into(), format!("GSO batch with segment sizes {v:?}")));
                }
            }
        }
    }
    out.truncate(5);
    (out, probes_seen)
}

pub fn run_case(base: Instant, c: &Case, dump: bool) -> (u64, Vec<(String, String)>, u64) {
    let cfg = cfgs().into_iter().find(|x| x.client.name == c.cfg).unwrap();
    let r = guarded(|| {
        let mut p = std_pair_pre(base, &cfg, c.wl, ReadMode::default(), |w| {
            w.link_mtu = c.m0;
            w.probe_pre = true;
        });
        let mut script = if c.rebind {
            // (an address change before the handshake is confirmed is not a migration: count from there)
            let mut g = 0;
            while g < 400 && !p.client().app.obs.handshake_confirmed {
                g += 1;
                if !p.w.step() {
                    break;
                }
            }
            vec![(p.w.steps + (c.at - 10), Op::Rebind(CLIENT, crate::sim::addr(9)))]
        } else if let Some(node) = c.close_long {
            vec![(c.at, Op::CloseLong(node, 7, 4000))]
        } else {
            vec![(c.at, Op::LinkMtu(c.m1))]
        };
        if c.cfg.contains("pathchanged") {
            script.push((c.at, Op::PathChanged(CLIENT)));
            script.push((c.at + 4, Op::PathChanged(SERVER)));
        }
        let done = drive(&mut p, &script, 60_000, Duration::from_secs(900));
        // (application datagrams are not part of what `drive` waits for: let the send queues empty)
        {
            let until = p.w.t + Duration::from_secs(5);
            let mut g = 0;
            while g < 20_000 {
                g += 1;
                let queued = [CLIENT, SERVER].iter().any(|n| p.w.nodes[*n].conns.values().any(|s| s.conn.verif_probe().datagram_outgoing > 0));
                if !queued {
                    break;
                }
                match p.w.next_event() {
                    Some((at, _)) if at <= until => {
                        p.w.step();
                    }
                    _ => break,
                }
            }
        }
        if done && (c.wl == Wl::W13 || c.wl == Wl::W14) {
            // datagrams are not part of "done": let the queue drain and the network go quiet
            let limit = p.w.t + Duration::from_secs(60);
            let mut n = 0;
            while n < 6000 {
                match p.w.next_event() {
                    Some((at, _)) if at <= limit => {
                        p.w.step();
                        n += 1;
                    }
                    _ => break,
                }
            }
        }
        (p, done)
    });
    match r {
        Err(e) => (0, vec![("panic".into(), format!("panic: {e}"))], 0),
        Ok((p, done)) => {
            if dump {
                print!("{}", crate::trace::dump(&p.w));
            }
            let (mut v, probes) = size_violations(&p, &cfg);
            for (s, w) in integrity(&p) {
                v.push((format!("integrity:{s}"), w));
            }
            // nothing may be left sitting in the datagram send queue once everything else is done and
            // the network is quiet (a datagram that no longer fits the path must have been dropped)
            if done {
                for (node, who) in [(CLIENT, "client"), (SERVER, "server")] {
                    for sl in p.w.nodes[node].conns.values() {
                        let pr = sl.conn.verif_probe();
                        if !sl.conn.is_closed() && pr.datagram_outgoing > 0 && pr.in_flight_ack_eliciting == 0 && p.w.net.is_empty() {
                            v.push(("datagram-stuck-in-send-queue".into(), format!("{who}: {} datagrams ({} bytes) are still queued although nothing is in flight and the MTU is {}", pr.datagram_outgoing, pr.datagram_outgoing_total, sl.conn.current_mtu())));
                        }
                    }
                }
            }
            if !done && c.close_long.is_none() {
                let d = crate::scen::diagnose(&p);
                for (s, w) in completion(&p) {
                    // with pad_to_mtu every packet, including pure ACKs, is padded to the MTU
                    // estimate; that configuration has its own (known) failure mode
                    let s = if cfg.client.pad_to_mtu { "pad_to_mtu".to_string() } else { s };
                    v.push((format!("no-fallback:{s}"), format!("link MTU {} then {} from step {}: {w}; t={:?} {d}", c.m0, c.m1, c.at, p.w.t)));
                }
            }
            (p.w.trace_hash(), v, probes)
        }
    }
}

pub fn main(args: &Args) -> ! {
    if args.replay.is_some() {
        replay(args);
    }
    explore::quiet_panics();
    let base = Instant::now();
    let mut rep = Report::new("C13", args, "fault_enumeration");
    let thorough = args.tier == Tier::Thorough;
    let dl = deadline(if thorough { 1500 } else { 45 });
    rep.rule = "E3 on real endpoints over a link that silently drops datagrams larger than M(t): every (M0, change step, M1) triple with M in {1200,1280,1400,1452,1500,9000} and the change at each listed step index, for configurations varying initial_mtu / min_mtu / discovery (default, off, upper bound 9000) / peer max_udp_payload_size / GSO / pad-to-MTU / certificate size, and workloads W1, W5 (application datagrams), W6, W13 (more near-maximum datagrams than a congestion window); plus a client address change at every step of a window (path validation while datagrams and stream data are queued). Every emitted datagram is checked against current_mtu() read before the poll_transmit call, the probe bounds, the 1200-byte rules (client Initial, path validation, loss probes), GSO segment equality, and the MTU estimate may rise only to the size of a probe that was delivered; the workload must still complete. Non-trivial = trace differs from the unconstrained-link baseline of the configuration; distinct = distinct trace hashes.".into();
    let ms: Vec<usize> = vec![1200, 1280, 1400, 1452, 1500, 9000];
    let steps: Vec<u64> = if thorough { (0..160).step_by(2).collect() } else { vec![0, 6, 12, 18, 24, 30, 40, 50, 60, 80, 100, 140] };
    let mut cases = vec![];
    for c in cfgs() {
        for wl in [Wl::W1, Wl::W5, Wl::W6, Wl::W13] {

            for &m0 in &ms {
                // a link narrower than the configured floor is outside the property's premise
                if m0 < c.client.min_mtu as usize {
                    continue;
                }
                for &m1 in &ms {
                    if m1 < c.client.min_mtu as usize {
                        continue;
                    }

                    for &at in &steps {
                        if m0 == m1 && at != 0 {
                            continue;
                        }
                        cases.push(Case { cfg: c.client.name.clone(), wl, m0, at, m1, rebind: false, close_long: None });
                    }
                }
            }
        }
    }
    // datagram pairs whose second member just fits / just does not fit behind the first, at every
    // estimate the path reaches (steady links)
    for c in cfgs() {
        if !["default", "mtudoff1452", "init1452", "gso1", "peer1350", "upper9000"].contains(&c.client.name.as_str()) {
            continue;
        }
        for m in [1200usize, 1280, 1400, 1452, 9000] {
            if m < c.client.initial_mtu as usize {
                continue;
            }
            cases.push(Case { cfg: c.client.name.clone(), wl: Wl::W16, m0: m, at: 0, m1: m, rebind: false, close_long: None });
        }
    }
    // path validation (1200-byte rule) while datagrams and stream data are queued: the client's
    // address changes at every step of a window
    let mut n_rebind = 0u64;
    for c in cfgs() {
        if c.client.name.contains("pathchanged") {
            continue;
        }
        for wl in [Wl::W13, Wl::W14, Wl::W5, Wl::W6] {
            for m in [9000usize, 1452] {
                if m < c.client.initial_mtu as usize {
                    continue;
                }
                for at in (10..(if thorough { 80 } else { 44 })).step_by(if thorough { 1 } else { 2 }) {
                    cases.push(Case { cfg: c.client.name.clone(), wl, m0: m, at, m1: m, rebind: true, close_long: None });
                    n_rebind += 1;
                }
            }
        }
    }
    // a close with a reason phrase longer than any packet, at every step, while acknowledgements are
    // owed and data is in flight
    let mut n_close = 0u64;
    for c in cfgs() {
        if c.client.name.contains("pathchanged") || c.client.name.starts_with("peer2") || c.client.name.starts_with("peer6") {
            continue;
        }
        for wl in [Wl::W6, Wl::W5] {
            for node in [CLIENT, SERVER] {
                for m in [9000usize, 1452, 1200] {
                    if m < c.client.initial_mtu as usize {
                        continue;
                    }
                    for at in (4..(if thorough { 70 } else { 40 })).step_by(if thorough { 1 } else { 3 }) {
                        cases.push(Case { cfg: c.client.name.clone(), wl, m0: m, at, m1: m, rebind: false, close_long: Some(node) });
                        n_close += 1;
                    }
                }
            }
        }
    }
    let total = cases.len();
    let (res, capped) = e3(cases, dl, |c| run_case(base, c, false));
    rep.exhaustive = !capped;
    let mut probes = 0u64;
    let mut baselines = BTreeMap::new();
    for (c, (tr, _, _)) in &res {
        if c.m0 == 9000 && c.m1 == 9000 && !c.rebind && c.close_long.is_none() {
            baselines.insert((c.cfg.clone(), c.wl), *tr);
        }
    }
    for (c, (tr, v, pr)) in &res {
        rep.evaluations += 1;
        probes += pr;
        if baselines.get(&(c.cfg.clone(), c.wl)) != Some(tr) {
            rep.distinct.insert(*tr);
        }
        for (sig, what) in v {
            rep.violation(Violation {
                signature: sig.clone(),
                what: format!("cfg={} wl={:?} link MTU {} -> {} at step {}{}: {what}", c.cfg, c.wl, c.m0, c.m1, c.at, if c.rebind { " (client address change there instead)" } else if c.close_long.is_some() { " (close with a 4000-byte reason there instead)" } else { "" }),
                replay: json!({"check":"c13","cfg":c.cfg,"wl":format!("{:?}",c.wl),"m0":c.m0,"at":c.at,"m1":c.m1,"rebind":c.rebind,"close_long":c.close_long}),
            });
        }
    }
    rep.part("link_mtu_triples", json!({"cases": total, "executed": res.len(), "mtu_probes_observed": probes, "client_address_change_cases": n_rebind, "long_close_reason_cases": n_close, "capped": capped}));
    if probes == 0 {
        machinery("vacuity guard: no MTU probe was ever observed");
    }
    crate::checks::merge_comp(&mut rep, "C13", thorough, dl);
    rep.sample(json!({"cfg":"upper9000","wl":"W5","m0":9000,"at":24,"m1":1280,"meaning":"the link carries 9000-byte datagrams until step 24 and silently drops everything above 1280 bytes afterwards; discovery may have raised the estimate, black-hole detection must bring it back and the transfer must finish"}));
    rep.assumptions = vec![
        "current_mtu() is read immediately before every poll_transmit call".into(),
        "link MTUs below the configured min_mtu are outside the property's premise and are not enumerated".into(),
    ];
    rep.finish()
}

fn replay(args: &Args) -> ! {
    let path = args.replay.as_ref().unwrap();
    let v: Value = serde_json::from_str(&std::fs::read_to_string(path).unwrap_or_else(|e| machinery(&format!("{e}")))).unwrap_or_else(|e| machinery(&format!("{e}")));
    let r = &v["replay"];
    let c = Case {
        cfg: r["cfg"].as_str().unwrap().to_string(),
        wl: wl_from_str(r["wl"].as_str().unwrap()),
        m0: r["m0"].as_u64().unwrap() as usize,
        at: r["at"].as_u64().unwrap(),
        m1: r["m1"].as_u64().unwrap() as usize,
        rebind: r["rebind"].as_bool().unwrap_or(false),
        close_long: r["close_long"].as_u64().map(|x| x as usize),
    };
    let (_, v, probes) = run_case(Instant::now(), &c, true);
    println!("violations={v:?} probes={probes}");
    let _ = SERVER;
    std::process::exit(0)
}
