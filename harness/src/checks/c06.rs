//! C06 — a receiver enforces its own limits and buffers a bounded amount.
//! Operation sequences (puppet frames interleaved with local application operations) against
//! a reference model of what the victim advertised and what its application consumed.

use std::{
    collections::BTreeMap,
    time::{Duration, Instant},
};

use proto::{ConnectionError, Dir, ReadError, Side, StreamId, VarInt};
use serde_json::{json, Value};

use crate::{
    app::{pattern, Plan},
    explore::{self, deadline, e3, guarded},
    ledger::{cid_len_of, decode},
    puppet::puppet_for,
    report::{machinery, Args, Report, Tier, Violation},
    scen::{cfg_by_name, std_pair_plans, StdPair},
    sim::{PairCfg, Rec, CLIENT, SERVER},
    wire::{self, stream_id, WFrame},
};

const FLOW: u64 = 0x3;
const SLIM: u64 = 0x4;
const SSTATE: u64 = 0x5;
const FSIZE: u64 = 0x6;
const PV: u64 = 0xa;
const CRYPTOBUF: u64 = 0xd;

#[derive(Clone, Debug, PartialEq)]
pub enum Op {
    /// STREAM frame from the puppet: stream slot (0,1 = uni 0/1, 2 = uni at index 2, 3 = bidi 0), offset, len, fin
    S(u8, u64, u64, bool),
    /// RESET_STREAM: slot, final size
    R(u8, u64),
    /// DATAGRAM of a size
    D(usize),
    /// CRYPTO in 1-RTT: offset, len
    C(u64, u64),
    /// local: read up to n bytes (ordered) from slot
    Read(u8, usize),
    /// local: read everything available, unordered (switches the stream to unordered reads for good)
    ReadU(u8),
    /// a stream read in order first and unordered afterwards: data, ordered read, unordered read
    OrdThenUnord(u8),
    /// local: stop(slot)
    Stop(u8),
    /// local: set_receive_window
    Win(u64),
    /// local: set_max_concurrent_streams(uni, n)
    MaxUni(u64),
    /// local: drain datagrams
    RecvDgram,
    /// a whole stream life: half a window of data, read, the rest with FIN, read to the end
    /// (expands to four primitive operations; the stream's slot in the endpoint is recycled)
    Whole(u8),
    /// datagrams of mixed sizes: four of a fifth of the buffer, then one of three fifths
    /// (expands to five DATAGRAM frames; the newcomer needs more room than one eviction frees)
    DFill,
    /// the peer keeps sending on a stream the application has stopped (it has not seen
    /// STOP_SENDING yet): a little data, local stop, then data up to the stream limit
    StopMore(u8),
    /// a control frame naming a peer-initiated bidirectional stream: kind (0 MAX_STREAM_DATA,
    /// 1 STOP_SENDING, 2 STREAM_DATA_BLOCKED), slot (3 = bidi 0, 4 = bidi 1, 5 = bidi 2^30)
    Ctl(u8, u8),
}

fn expand(l: &Lim, op: &Op) -> Vec<Op> {
    match op {
        Op::DFill => {
            let b = l.dgram_buf;
            vec![Op::D(b / 5), Op::D(b / 5), Op::D(b / 5), Op::D(b / 5), Op::D(3 * b / 5)]
        }
        Op::Whole(slot) => {
            let h = l.stream_window / 2;
            vec![Op::S(*slot, 0, h, false), Op::Read(*slot, usize::MAX), Op::S(*slot, h, 5, true), Op::Read(*slot, usize::MAX)]
        }
        Op::OrdThenUnord(slot) => vec![Op::S(*slot, 0, 10, false), Op::Read(*slot, usize::MAX), Op::ReadU(*slot)],
        Op::StopMore(slot) => {
            let sw = l.stream_window;
            vec![Op::S(*slot, 0, 10, false), Op::Stop(*slot), Op::S(*slot, sw - 10, 10, false)]
        }
        o => vec![o.clone()],
    }
}

#[derive(Clone, Debug)]
pub struct Lim {
    pub name: &'static str,
    pub recv_window: u64,
    pub stream_window: u64,
    pub max_uni: u64,
    pub max_bidi: u64,
    pub dgram_buf: usize,
}

pub fn lims() -> Vec<Lim> {
    vec![
        Lim { name: "tiny", recv_window: 1200, stream_window: 600, max_uni: 2, max_bidi: 1, dgram_buf: 300 },
        Lim { name: "conn-tight", recv_window: 700, stream_window: 600, max_uni: 3, max_bidi: 1, dgram_buf: 1000 },
        Lim { name: "b63", recv_window: 127, stream_window: 63, max_uni: 2, max_bidi: 1, dgram_buf: 100 },
        Lim { name: "zero-streams", recv_window: 1200, stream_window: 600, max_uni: 0, max_bidi: 0, dgram_buf: 300 },
    ]
}

fn cfg_of(l: &Lim, vs: bool) -> PairCfg {
    let mut c = cfg_by_name("default");
    let t = if vs { &mut c.server } else { &mut c.client };
    t.recv_window = Some(l.recv_window);
    t.stream_recv_window = Some(l.stream_window);
    t.max_uni = Some(l.max_uni);
    t.max_bidi = Some(l.max_bidi);
    t.dgram_recv = Some(Some(l.dgram_buf));
    c.client.name = l.name.into();
    c
}

pub fn alphabet(l: &Lim) -> Vec<Op> {
    let sw = l.stream_window;
    let mut v = vec![];
    for slot in [0u8, 1, 2, 3] {
        v.push(Op::S(slot, 0, 10, false));
        v.push(Op::S(slot, sw - 10, 10, false)); // ends exactly at the stream limit
        v.push(Op::S(slot, sw - 9, 10, false)); // one byte over
        v.push(Op::S(slot, 20, 5, true)); // FIN at 25
        if slot < 2 {
            v.push(Op::S(slot, 10, 30, false));
            v.push(Op::R(slot, 5));
            v.push(Op::R(slot, sw));
            v.push(Op::R(slot, sw + 1));
            v.push(Op::Read(slot, usize::MAX));
            v.push(Op::Read(slot, 7));
            v.push(Op::Stop(slot));
        }
    }
    for kind in [0u8, 1, 2] {
        for slot in [3u8, 4, 5] {
            if kind == 0 || slot != 5 {
                v.push(Op::Ctl(kind, slot));
            }
        }
    }
    v.push(Op::Whole(0));
    v.push(Op::Whole(1));
    v.push(Op::StopMore(0));
    v.push(Op::StopMore(1));
    v.push(Op::ReadU(0));
    v.push(Op::OrdThenUnord(0));
    v.push(Op::S(0, l.recv_window.min(sw) / 2, l.recv_window.min(sw) / 2, false));
    v.push(Op::D(10));
    v.push(Op::D(l.dgram_buf));
    v.push(Op::D(l.dgram_buf + 1));
    v.push(Op::DFill);
    v.push(Op::RecvDgram);
    v.push(Op::C(100, 10));
    v.push(Op::C(16 * 1024 - 5, 5));
    v.push(Op::C(16 * 1024 - 4, 5));
    v.push(Op::Win(l.recv_window / 2));
    v.push(Op::Win(l.recv_window * 3 / 4));
    v.push(Op::Win(l.recv_window * 4));
    v.push(Op::MaxUni(l.max_uni + 2));
    v.push(Op::MaxUni(l.max_uni.saturating_sub(1)));
    v
}

/// Reference model of one receiving stream
#[derive(Clone, Debug, Default)]
struct MStream {
    got: Vec<bool>,
    high: u64,
    fin: Option<u64>,
    reset: Option<u64>,
    cursor: u64,
    /// bytes handed to the application already (any read mode)
    returned: Vec<bool>,
    /// unordered reads were used: ordered reads are refused from then on
    unordered: bool,
    stopped: bool,
    /// terminal outcome was observed by the application (stream is gone)
    done: bool,
    adv: u64,
    consumed: u64,
}

#[derive(Clone, Debug)]
struct Model {
    streams: BTreeMap<u64, MStream>,
    adv_max_data: u64,
    adv_max_streams: [u64; 2],
    window: u64,
    stream_window: u64,
    max_window_ever: u64,
    /// largest value of (consumed + window) at any past moment: the most the endpoint can ever have
    /// decided to advertise (a limit decided under a larger window may be put on the wire later)
    entitled_hi: u64,
    dgram_buf: usize,
    dgrams: Vec<usize>,
    closed: Option<Vec<u64>>,
    crypto_high: u64,
    /// largest concurrency setting ever in force, per direction [bidi, uni]
    conc_max: [u64; 2],
}

impl Model {
    fn total_high(&self) -> u64 {
        self.streams.values().map(|s| s.reset.or(s.fin).map_or(s.high, |f| f.max(s.high))).sum()
    }
    fn consumed_total(&self) -> u64 {
        self.streams.values().map(|s| s.consumed).sum()
    }
    /// Stream count the victim is entitled to have granted by now: the concurrency setting plus
    /// every remote stream that is already terminal for the application. Between the
    /// wire-advertised value and this one either answer is acceptable (the credit is decided,
    /// the MAX_STREAMS frame may still be queued).
    fn entitled_streams(&self, d: usize) -> u64 {
        let closed = self
            .streams
            .iter()
            .filter(|(id, s)| (if wire::sid_is_bidi(**id) { 0 } else { 1 }) == d && (s.done || (s.stopped && (s.fin.is_some() || s.reset.is_some()))))
            .count() as u64;
        self.adv_max_streams[d].max(self.conc_max[d] + closed)
    }
}

fn slot_id(vs: bool, slot: u8) -> u64 {
    match slot {
        0 => stream_id(vs, false, 0),
        1 => stream_id(vs, false, 1),
        2 => stream_id(vs, false, 2),
        4 => stream_id(vs, true, 1),
        5 => stream_id(vs, true, 1 << 30),
        _ => stream_id(vs, true, 0),
    }
}

pub struct Out {
    pub viol: Vec<(String, String)>,
    pub closed_codes: Vec<u64>,
    pub trace: u64,
    pub boundary_hits: u64,
}

pub fn run_seq(base: Instant, l: &Lim, vs: bool, seq: &[Op], dump: bool) -> Result<Out, String> {
    let seq: Vec<Op> = seq.iter().flat_map(|o| expand(l, o)).collect();
    let seq = &seq[..];
    guarded(|| {
        let cfg = cfg_of(l, vs);
        let idle = Plan { no_read: true, ..Default::default() };
        let mut p: StdPair = std_pair_plans(base, &cfg, idle.clone(), idle);
        // handshake
        let mut g = 0;
        while g < 400 {
            g += 1;
            let est = !p.client().conn.is_handshaking() && p.server().map_or(false, |s| !s.conn.is_handshaking()) && p.client().app.obs.handshake_confirmed;
            if est && p.w.net.is_empty() {
                break;
            }
            if !p.w.step() {
                break;
            }
        }
        let victim = if vs { SERVER } else { CLIENT };
        let pnode = 1 - victim;
        let vch = if vs { p.sch().expect("server conn") } else { p.cch };
        let mut pup = puppet_for(&p, if vs { Side::Client } else { Side::Server }).expect("puppet");
        p.w.deaf[pnode] = true;
        p.w.blackhole[pnode] = true;
        p.w.net.retain(|f| f.src != p.w.nodes[pnode].addr && f.dst != p.w.nodes[pnode].addr);
        let src = p.w.nodes[pnode].addr;
        let dst = p.w.nodes[victim].addr;
        let mut m = Model {
            streams: BTreeMap::new(),
            adv_max_data: l.recv_window,
            adv_max_streams: [l.max_bidi, l.max_uni],
            window: l.recv_window,
            stream_window: l.stream_window,
            max_window_ever: l.recv_window,
            entitled_hi: l.recv_window,
            dgram_buf: l.dgram_buf,
            dgrams: vec![],
            closed: None,
            crypto_high: 0,
            conc_max: [l.max_bidi, l.max_uni],
        };
        let mut viol: Vec<(String, String)> = vec![];
        let mut boundary = 0u64;
        let mut rec_pos = p.w.recs.len();
        let serial = p.w.slot(victim, vch).unwrap().serial;
        let mut closed_codes = vec![];
        for (step, op) in seq.iter().enumerate() {
            if m.closed.is_some() {
                break;
            }
            let lost_before = p.w.slot(victim, vch).map_or(0, |s| s.lost.len());
            let mut expect_close: Vec<u64> = vec![];
            let mut lenient_slim = false;
            let mut lenient_flow = false;
            let mut lenient_fsize = false;
            match op {
                Op::S(slot, off, len, fin) => {
                    let id = slot_id(vs, *slot);
                    let bidi = *slot == 3;
                    let d = if bidi { 0 } else { 1 };
                    let index = wire::sid_index(id);
                    let end = off + len;
                    let data: Vec<u8> = (0..*len).map(|i| pattern(id, off + i)).collect();
                    // model
                    if index >= m.entitled_streams(d) {
                        expect_close.push(SLIM);
                    } else {
                        if index >= m.adv_max_streams[d] {
                            lenient_slim = true;
                        }
                        let sw = m.stream_window;
                        let st = m.streams.entry(id).or_insert_with(|| MStream { adv: sw, got: vec![false; 70_000], ..Default::default() });
                        // a stream that is terminal for the application may be forgotten; RFC 9000
                        // §4.5 does not require final-size enforcement for closed streams
                        if st.stopped && (st.fin.is_some() || st.reset.is_some()) {
                            st.done = true;
                        }
                        if st.done {
                            lenient_fsize = true;
                        }
                        if !st.done {
                            let fin_known = st.fin.or(st.reset);
                            if let Some(f) = fin_known {
                                if end > f || (*fin && end != f) {
                                    expect_close.push(FSIZE);
                                }
                            }
                            if *fin && end < st.high {
                                expect_close.push(FSIZE);
                            }
                            // credit the endpoint has decided on (consumed + window) may not have
                            // been put on the wire yet if the update was too small to be worth a
                            // frame: between advertised and entitled either answer is acceptable
                            let entitled_stream = st.adv.max(st.consumed + sw);
                            if end > entitled_stream {
                                expect_close.push(FLOW);
                            } else if end > st.adv {
                                lenient_flow = true;
                            }
                            let new_high = st.high.max(end);
                            let delta = new_high - st.high;
                            if expect_close.is_empty() {
                                let total_after = m.total_high() + delta;
                                let entitled = m.adv_max_data.max(m.entitled_hi);
                                if total_after > entitled {
                                    expect_close.push(FLOW);
                                } else if total_after > m.adv_max_data {
                                    lenient_flow = true;
                                }
                                if total_after == m.adv_max_data || end == m.streams[&id].adv {
                                    boundary += 1;
                                }
                            }
                            if expect_close.is_empty() {
                                let st = m.streams.get_mut(&id).unwrap();
                                st.high = new_high;
                                if st.reset.is_none() {
                                    for i in *off..end {
                                        st.got[i as usize] = true;
                                    }
                                    if *fin {
                                        st.fin = Some(end);
                                    }
                                }
                                if st.stopped {
                                    st.consumed = st.high;
                                }
                            }
                        }
                    }
                    let d = pup.packet(2, &[WFrame::Stream { id, off: *off, fin: *fin, data, has_len: true }]);
                    p.w.inject(src, dst, d, Duration::ZERO);
                }
                Op::R(slot, fsize) => {
                    let id = slot_id(vs, *slot);
                    let index = wire::sid_index(id);
                    if index >= m.entitled_streams(1) {
                        expect_close.push(SLIM);
                    } else {
                        if index >= m.adv_max_streams[1] {
                            lenient_slim = true;
                        }
                        let sw = m.stream_window;
                        let st = m.streams.entry(id).or_insert_with(|| MStream { adv: sw, got: vec![false; 70_000], ..Default::default() });
                        if st.stopped && (st.fin.is_some() || st.reset.is_some()) {
                            st.done = true;
                        }
                        if st.done {
                            lenient_fsize = true;
                        }
                        if !st.done {
                            if let Some(f) = st.fin.or(st.reset) {
                                if f != *fsize {
                                    expect_close.push(FSIZE);
                                }
                            }
                            if *fsize < st.high {
                                expect_close.push(FSIZE);
                            }
                            let entitled_stream = st.adv.max(st.consumed + sw);
                            if *fsize > entitled_stream {
                                expect_close.push(FLOW);
                            } else if *fsize > st.adv {
                                lenient_flow = true;
                            }
                            let delta = fsize.saturating_sub(st.high);
                            let entitled = m.adv_max_data.max(m.entitled_hi);
                            if expect_close.is_empty() && m.total_high() + delta > entitled {
                                expect_close.push(FLOW);
                            } else if expect_close.is_empty() && m.total_high() + delta > m.adv_max_data {
                                lenient_flow = true;
                            }
                            if expect_close.is_empty() {
                                let st = m.streams.get_mut(&id).unwrap();
                                if st.reset.is_none() {
                                    st.reset = Some(*fsize);
                                    st.high = st.high.max(*fsize);
                                    // a reset discards everything: the whole final size is consumed
                                    st.consumed = st.high;
                                }
                            }
                        }
                    }
                    let d = pup.packet(2, &[WFrame::ResetStream { id, code: 9, final_size: *fsize }]);
                    p.w.inject(src, dst, d, Duration::ZERO);
                }
                Op::Ctl(kind, slot) => {
                    let id = slot_id(vs, *slot);
                    let index = wire::sid_index(id);
                    if index >= m.entitled_streams(0) {
                        // RFC 9000 4.6: a frame with a stream ID exceeding the limit is a
                        // STREAM_LIMIT_ERROR; a frame that would open the stream (MAX_STREAM_DATA) must
                        // be refused, one that opens nothing may also be ignored
                        if *kind == 0 {
                            expect_close.push(SLIM);
                        } else {
                            lenient_slim = true;
                        }
                    } else {
                        if index >= m.adv_max_streams[0] {
                            lenient_slim = true;
                        }
                        let sw = m.stream_window;
                        m.streams.entry(id).or_insert_with(|| MStream { adv: sw, got: vec![false; 70_000], ..Default::default() });
                    }
                    let f = match kind {
                        0 => WFrame::MaxStreamData { id, max: 5000 },
                        1 => WFrame::StopSending { id, code: 3 },
                        _ => WFrame::StreamDataBlocked { id, limit: 0 },
                    };
                    let d = pup.packet(2, &[f]);
                    p.w.inject(src, dst, d, Duration::ZERO);
                }
                Op::D(size) => {
                    // advertised max_datagram_frame_size is the receive buffer size
                    if *size > m.dgram_buf {
                        expect_close.push(PV);
                    } else {
                        m.dgrams.push(*size);
                        while m.dgrams.iter().sum::<usize>() > m.dgram_buf {
                            m.dgrams.remove(0);
                        }
                    }
                    let d = pup.packet(2, &[WFrame::Datagram { data: vec![0x33; *size], has_len: true }]);
                    p.w.inject(src, dst, d, Duration::ZERO);
                }
                Op::C(off, len) => {
                    if off + len > 16 * 1024 {
                        expect_close.push(CRYPTOBUF);
                    }
                    m.crypto_high = m.crypto_high.max(off + len);
                    let d = pup.packet(2, &[WFrame::Crypto { off: *off, data: vec![0; *len as usize] }]);
                    p.w.inject(src, dst, d, Duration::ZERO);
                }
                Op::Read(slot, n) => {
                    let id = slot_id(vs, *slot);
                    let sid = StreamId::from(VarInt::from_u64(id).unwrap());
                    // model prediction
                    let mut want: Vec<u8> = vec![];
                    let mut want_end: Option<&'static str> = None;
                    if m.streams.get(&id).map_or(false, |s| s.unordered) {
                        // ordered reads are refused once unordered reads were used: nothing to compare
                        continue;
                    }
                    let exists = m.streams.get(&id).map_or(false, |s| !s.done && !s.stopped);
                    if exists {
                        let st = m.streams.get_mut(&id).unwrap();
                        if let Some(_f) = st.reset {
                            want_end = Some("reset");
                            st.done = true;
                        } else {
                            while (want.len() < *n) && st.got[st.cursor as usize] {
                                want.push(pattern(id, st.cursor));
                                if st.returned.len() <= st.cursor as usize {
                                    st.returned.resize(st.cursor as usize + 1, false);
                                }
                                st.returned[st.cursor as usize] = true;
                                st.cursor += 1;
                            }
                            st.consumed = st.cursor;
                            if st.fin == Some(st.cursor) && want.len() < *n {
                                want_end = Some("fin");
                                st.done = true;
                            }
                        }
                    }
                    // real
                    let mut got: Vec<u8> = vec![];
                    let mut got_end: Option<&'static str> = None;
                    let mut closed_stream = false;
                    {
                        let slot_ = p.w.nodes[victim].conns.get_mut(&vch).unwrap();
                        let mut rs = slot_.conn.recv_stream(sid);
                        let rd = rs.read(true);
                        match rd {
                            Err(_) => closed_stream = true,
                            Ok(mut chunks) => {
                                loop {
                                    if got.len() >= *n {
                                        break;
                                    }
                                    match chunks.next(n - got.len()) {
                                        Ok(Some(c)) => got.extend_from_slice(&c.bytes),
                                        Ok(None) => {
                                            got_end = Some("fin");
                                            break;
                                        }
                                        Err(ReadError::Blocked) => break,
                                        Err(ReadError::Reset(_)) => {
                                            got_end = Some("reset");
                                            break;
                                        }
                                    }
                                }
                                let _ = chunks.finalize();
                            }
                        }
                    }
                    p.w.settle_conn(victim, vch);
                    if exists {
                        if closed_stream {
                            viol.push(("read-closed-stream".into(), format!("step {step} {op:?}: stream {id} has unread state in the model but read() says closed stream")));
                        } else if got != want || got_end != want_end {
                            viol.push(("read-mismatch".into(), format!("step {step} {op:?}: application obtained {} bytes end={got_end:?}, reference model says {} bytes end={want_end:?}", got.len(), want.len())));
                        }
                    } else if !got.is_empty() {
                        viol.push(("read-unexpected-data".into(), format!("step {step} {op:?}: {} bytes readable on a stream the model does not know", got.len())));
                    }
                }
                Op::ReadU(slot) => {
                    let id = slot_id(vs, *slot);
                    let sid = StreamId::from(VarInt::from_u64(id).unwrap());
                    let exists = m.streams.get(&id).map_or(false, |s| !s.done && !s.stopped);
                    // model: every byte received and not yet handed over, in any order
                    let mut want: std::collections::BTreeSet<u64> = Default::default();
                    let mut want_end: Option<&'static str> = None;
                    if exists {
                        let st = m.streams.get_mut(&id).unwrap();
                        st.unordered = true;
                        if st.reset.is_some() {
                            want_end = Some("reset");
                            st.done = true;
                        } else {
                            let hi = st.high as usize;
                            if st.returned.len() < hi {
                                st.returned.resize(hi, false);
                            }
                            for i in 0..hi {
                                if st.got[i] && !st.returned[i] {
                                    st.returned[i] = true;
                                    want.insert(i as u64);
                                }
                            }
                            st.consumed = st.returned.iter().filter(|b| **b).count() as u64;
                            if let Some(f) = st.fin {
                                if (0..f as usize).all(|i| st.returned.get(i).copied().unwrap_or(false)) {
                                    want_end = Some("fin");
                                    st.done = true;
                                }
                            }
                        }
                    }
                    // real
                    let mut got: Vec<u64> = vec![];
                    let mut got_end: Option<&'static str> = None;
                    let mut bad_content = false;
                    let mut closed_stream = false;
                    {
                        let slot_ = p.w.nodes[victim].conns.get_mut(&vch).unwrap();
                        let mut rs = slot_.conn.recv_stream(sid);
                        let rd = rs.read(false);
                        match rd {
                            Err(_) => closed_stream = true,
                            Ok(mut chunks) => {
                                loop {
                                    match chunks.next(usize::MAX) {
                                        Ok(Some(c)) => {
                                            for (k, b) in c.bytes.iter().enumerate() {
                                                let o = c.offset + k as u64;
                                                got.push(o);
                                                if *b != pattern(id, o) {
                                                    bad_content = true;
                                                }
                                            }
                                        }
                                        Ok(None) => {
                                            got_end = Some("fin");
                                            break;
                                        }
                                        Err(ReadError::Blocked) => break,
                                        Err(ReadError::Reset(_)) => {
                                            got_end = Some("reset");
                                            break;
                                        }
                                    }
                                }
                                let _ = chunks.finalize();
                            }
                        }
                    }
                    p.w.settle_conn(victim, vch);
                    if exists {
                        let got_set: std::collections::BTreeSet<u64> = got.iter().copied().collect();
                        if closed_stream {
                            viol.push(("read-closed-stream".into(), format!("step {step} {op:?}: stream {id} has unread state in the model but read() says closed stream")));
                        } else if bad_content || got_set.len() != got.len() || got_set != want || got_end != want_end {
                            viol.push(("unordered-read-mismatch".into(), format!("step {step} {op:?}: application obtained {} bytes ({} distinct offsets, content ok: {}) end={got_end:?}, reference model says {} bytes end={want_end:?}", got.len(), got_set.len(), !bad_content, want.len())));
                        }
                    } else if !got.is_empty() {
                        viol.push(("read-unexpected-data".into(), format!("step {step} {op:?}: {} bytes readable on a stream the model does not know", got.len())));
                    } else if !closed_stream {
                        // a stream opened implicitly by a higher-numbered one: it is in unordered mode now
                        let sw = m.stream_window;
                        let st = m.streams.entry(id).or_insert_with(|| MStream { adv: sw, got: vec![false; 70_000], ..Default::default() });
                        if !st.done && !st.stopped {
                            st.unordered = true;
                        }
                    }
                }
                Op::Stop(slot) => {
                    let id = slot_id(vs, *slot);
                    let sid = StreamId::from(VarInt::from_u64(id).unwrap());
                    let r = {
                        let s = p.w.nodes[victim].conns.get_mut(&vch).unwrap();
                        s.conn.recv_stream(sid).stop(VarInt::from_u32(3))
                    };
                    p.w.settle_conn(victim, vch);
                    if r.is_ok() {
                        let sw = m.stream_window;
                        let st = m.streams.entry(id).or_insert_with(|| MStream { adv: sw, got: vec![false; 70_000], ..Default::default() });
                        if !st.done && !st.stopped {
                            st.stopped = true;
                            st.consumed = st.high;
                        }
                    }
                }
                Op::Win(w) => {
                    {
                        let s = p.w.nodes[victim].conns.get_mut(&vch).unwrap();
                        s.conn.set_receive_window(VarInt::from_u64(*w).unwrap());
                    }
                    p.w.settle_conn(victim, vch);
                    m.window = *w;
                    m.max_window_ever = m.max_window_ever.max(*w);
                }
                Op::MaxUni(n) => {
                    {
                        let s = p.w.nodes[victim].conns.get_mut(&vch).unwrap();
                        s.conn.set_max_concurrent_streams(Dir::Uni, VarInt::from_u64(*n).unwrap());
                    }
                    p.w.settle_conn(victim, vch);
                    m.conc_max[1] = m.conc_max[1].max(*n);
                }
                Op::Whole(_) | Op::DFill | Op::StopMore(_) | Op::OrdThenUnord(_) => unreachable!("expanded before execution"),
                Op::RecvDgram => {
                    let mut sizes = vec![];
                    {
                        let s = p.w.nodes[victim].conns.get_mut(&vch).unwrap();
                        while let Some(d) = s.conn.datagrams().recv() {
                            sizes.push(d.len());
                        }
                    }
                    if sizes != m.dgrams {
                        viol.push(("datagram-queue-mismatch".into(), format!("step {step}: received datagram sizes {sizes:?}, reference model (oldest dropped first) {:?}", m.dgrams)));
                    }
                    m.dgrams.clear();
                }
            }
            m.entitled_hi = m.entitled_hi.max(m.consumed_total() + m.window);
            // deliver injected datagrams
            let mut g = 0;
            while p.w.net.iter().any(|f| f.injected) && g < 50 {
                g += 1;
                p.w.step();
            }
            // unread datagrams held for the application never exceed the configured buffer
            if let Some(sl) = p.w.slot(victim, vch) {
                let held = sl.conn.verif_probe().datagram_recv_buffered;
                if held > m.dgram_buf {
                    viol.push(("datagram-buffer-exceeded".into(), format!("step {step} {op:?}: {held} bytes of unread datagrams are buffered, datagram_receive_buffer_size is {}", m.dgram_buf)));
                }
            }
            // decode what the victim advertised since the last step
            for r in &p.w.recs[rec_pos..] {
                if let Rec::Emit { node, serial: Some(s), data, dst, .. } = r {
                    if *node != victim || *s != serial {
                        continue;
                    }
                    for (_, frames) in decode(data, cid_len_of(&p.w, *dst)) {
                        for f in frames {
                            match f {
                                WFrame::MaxData(v) => {
                                    let bound = m.adv_max_data.max(m.entitled_hi);
                                    if v > bound {
                                        viol.push(("max-data-exceeds-consumed-plus-window".into(), format!("step {step} {op:?}: MAX_DATA {v} advertised, application consumed/discarded {} and the window is {}", m.consumed_total(), m.window)));
                                    }
                                    m.adv_max_data = m.adv_max_data.max(v);
                                }
                                WFrame::MaxStreamData { id, max } => {
                                    let sw = m.stream_window;
                                    let st = m.streams.entry(id).or_insert_with(|| MStream { adv: sw, got: vec![false; 70_000], ..Default::default() });
                                    if max > st.adv.max(st.consumed + sw) {
                                        viol.push(("max-stream-data-exceeds-consumed-plus-window".into(), format!("step {step} {op:?}: MAX_STREAM_DATA({id}) {max} advertised, consumed {} window {sw}", st.consumed)));
                                    }
                                    st.adv = st.adv.max(max);
                                }
                                WFrame::MaxStreams { bidi, max } => {
                                    let d = if bidi { 0 } else { 1 };
                                    m.adv_max_streams[d] = m.adv_max_streams[d].max(max);
                                }
                                WFrame::Close { app: false, code, .. } => closed_codes.push(code),
                                _ => {}
                            }
                        }
                    }
                }
            }
            rec_pos = p.w.recs.len();
            // outcome of this step
            let slot_ = p.w.slot(victim, vch).unwrap();
            let new_lost: Vec<u64> = slot_.lost.iter().skip(lost_before).filter_map(|e| match e {
                ConnectionError::TransportError(t) => Some(u64::from(t.code)),
                _ => None,
            }).collect();
            if !new_lost.is_empty() {
                m.closed = Some(new_lost.clone());
                if expect_close.is_empty() && ((lenient_slim && new_lost == vec![SLIM]) || (lenient_flow && new_lost == vec![FLOW]) || (lenient_fsize && new_lost == vec![FSIZE])) {
                    // credit decided but not yet advertised: rejecting is acceptable too
                } else if expect_close.is_empty() {
                    viol.push(("in-limit-frame-rejected".into(), format!("step {step} {op:?}: frame is inside every advertised limit (stream adv {:?}, MAX_DATA {}, MAX_STREAMS {:?}) but the connection closed with {new_lost:x?}", m.streams.iter().map(|(k, v)| (*k, v.adv, v.high)).collect::<Vec<_>>(), m.adv_max_data, m.adv_max_streams)));
                } else if !new_lost.iter().all(|c| expect_close.contains(c) || (lenient_slim && *c == SLIM) || (lenient_flow && *c == FLOW) || (lenient_fsize && *c == FSIZE)) {
                    viol.push(("wrong-limit-error-code".into(), format!("step {step} {op:?}: closed with {new_lost:x?}, the violated limits call for {expect_close:x?}")));
                }
            } else if !expect_close.is_empty() {
                viol.push(("over-limit-frame-accepted".into(), format!("step {step} {op:?}: frame exceeds an advertised limit (expected {expect_close:x?}) but the connection stayed open")));
                break;
            }
            m.entitled_hi = m.entitled_hi.max(m.consumed_total() + m.window);
            // buffered bound (probe): bytes accounted as received never exceed what was advertised
            let pr = slot_.conn.verif_probe().streams;
            let entitled = m.adv_max_data.max(m.entitled_hi);
            // nothing unread in the model (everything received was read, or discarded by stop / reset,
            // for which credit has been returned): nothing may be held in the reassembly buffers
            if m.closed.is_none() {
                let unread: u64 = m
                    .streams
                    .values()
                    .filter(|s| !s.stopped && !s.done && s.reset.is_none())
                    .map(|s| (0..s.high as usize).filter(|i| s.got[*i] && !s.returned.get(*i).copied().unwrap_or(false)).count() as u64)
                    .sum();
                if unread == 0 && pr.recv_buffered > 0 {
                    viol.push(("discarded-data-still-buffered".into(), format!("step {step} {op:?}: every received byte was read by the application or discarded (stop / reset; credit for it has been returned to the peer), yet {} bytes are still held in reassembly buffers", pr.recv_buffered)));
                }
            }
            for d in 0..2 {
                if m.closed.is_none() && pr.next_remote[d] > pr.max_remote[d].max(m.entitled_streams(d)) {
                    viol.push(("remote-stream-opened-beyond-limit".into(), format!("step {step} {op:?}: the endpoint counts {} peer-initiated {} streams as opened (its application can accept them) but it has granted only {}", pr.next_remote[d], if d == 0 { "bidirectional" } else { "unidirectional" }, pr.max_remote[d])));
                }
            }
            if m.closed.is_none() && pr.data_recvd > entitled {
                viol.push(("received-beyond-limit".into(), format!("step {step}: data accounted as received {} exceeds both the advertised MAX_DATA {} and consumed + window {}", pr.data_recvd, m.adv_max_data, entitled)));
            }
        }
        if dump {
            print!("{}", crate::trace::dump(&p.w).lines().rev().take(40).collect::<Vec<_>>().into_iter().rev().collect::<Vec<_>>().join("\n"));
            println!();
        }
        Out { viol, closed_codes, trace: p.w.trace_hash(), boundary_hits: boundary }
    })
}

/// Receiver memory stays bounded by the window however often the peer repeats itself: a stream is
/// advanced by `advance` bytes (sent, read), then one range of unread data is sent `dups` times in
/// well-filled packets. Duplicates consume no flow-control credit, so only the reassembly buffer's own
/// bookkeeping bounds what they pin. Returns a violation description.
pub fn dup_on_advanced(base: Instant, vs: bool, advance: u64, flen: usize, dups: usize, unordered: bool) -> Result<Option<String>, String> {
    guarded(|| {
        let l = Lim { name: "wide", recv_window: 4_000_000, stream_window: 65_536, max_uni: 4, max_bidi: 2, dgram_buf: 1000 };
        let cfg = cfg_of(&l, vs);
        let idle = Plan { no_read: true, ..Default::default() };
        let mut p: StdPair = std_pair_plans(base, &cfg, idle.clone(), idle);
        let mut g = 0;
        while g < 400 {
            g += 1;
            let est = !p.client().conn.is_handshaking() && p.server().map_or(false, |s| !s.conn.is_handshaking()) && p.client().app.obs.handshake_confirmed;
            if est && p.w.net.is_empty() {
                break;
            }
            if !p.w.step() {
                break;
            }
        }
        let victim = if vs { SERVER } else { CLIENT };
        let pnode = 1 - victim;
        let vch = if vs { p.sch().expect("server conn") } else { p.cch };
        let mut pup = puppet_for(&p, if vs { Side::Client } else { Side::Server }).expect("puppet");
        p.w.deaf[pnode] = true;
        p.w.blackhole[pnode] = true;
        p.w.keep_data = false;
        let (src, dst) = (p.w.nodes[pnode].addr, p.w.nodes[victim].addr);
        let id = slot_id(vs, 0);
        let sid = StreamId::from(VarInt::from_u64(id).unwrap());
        let mut read_all = |p: &mut StdPair| {
            let s = p.w.nodes[victim].conns.get_mut(&vch).unwrap();
            let mut rs = s.conn.recv_stream(sid);
            let rd = rs.read(!unordered);
            if let Ok(mut ch) = rd {
                while let Ok(Some(_)) = ch.next(usize::MAX) {}
                let _ = ch.finalize();
            };
        };
        // advance the stream
        let mut off = 0u64;
        while off < advance {
            let n = 1000.min(advance - off);
            let data: Vec<u8> = (0..n).map(|i| pattern(id, off + i)).collect();
            let d = pup.packet(2, &[WFrame::Stream { id, off, fin: false, data, has_len: true }]);
            p.w.inject(src, dst, d, Duration::ZERO);
            while p.w.net.iter().any(|f| f.injected) {
                p.w.step();
            }
            off += n;
            read_all(&mut p);
            p.w.settle_conn(victim, vch);
        }
        // the same unread range again and again (a byte is left out in front so that it stays unread
        // in ordered mode)
        let start = advance + 1;
        let data: Vec<u8> = (0..flen as u64).map(|i| pattern(id, start + i)).collect();
        for _ in 0..dups {
            let d = pup.packet(2, &[WFrame::Stream { id, off: start, fin: false, data: data.clone(), has_len: true }]);
            p.w.inject(src, dst, d, Duration::ZERO);
            while p.w.net.iter().any(|f| f.injected) {
                p.w.step();
            }
        }
        let slot = p.w.slot(victim, vch).unwrap();
        if !slot.lost.is_empty() {
            return Some(format!("the connection ended: {:?}", slot.lost));
        }
        let pr = slot.conn.verif_probe();
        let worst = pr.streams.recv_memory.iter().copied().max_by_key(|(a, _, _)| *a).unwrap_or((0, 0, 0));
        let (alloc, _uniq, chunks) = worst;
        // distinct unread bytes are at most flen; the window is 65 536
        if alloc > 3 * flen + 65_536 || chunks > 1100 {
            return Some(format!("{dups} copies of one {flen}-byte range behind offset {advance}: the stream's reassembly buffer accounts for {alloc} allocated bytes in {chunks} chunks ({} distinct bytes are unread, the stream window is 65536)", flen));
        }
        None
    })
}

pub fn main(args: &Args) -> ! {
    if args.replay.is_some() {
        replay(args);
    }
    explore::quiet_panics();
    let base = Instant::now();
    let mut rep = Report::new("C06", args, "exploration");
    let thorough = args.tier == Tier::Thorough;
    let dl = deadline(if thorough { 1500 } else { 50 });
    let depth = if thorough { 4 } else { 3 };
    rep.rule = format!("E3: every sequence of length {depth} over an alphabet of puppet frames (STREAM at offsets one below / at / one above the stream limit, FINs, RESET_STREAM with final sizes below / at / above, streams at index limit-1 / limit, MAX_STREAM_DATA / STOP_SENDING / STREAM_DATA_BLOCKED naming peer-initiated bidirectional streams at index 0 / 1 / 2^30 (within and beyond the granted count; quick: once per sequence among a core of the alphabet), DATAGRAM of buffer-1 / buffer / buffer+1 bytes, CRYPTO ending at / beyond the crypto buffer) interleaved with local operations (read(n), stop, set_receive_window smaller/larger, set_max_concurrent_streams, datagram recv), for four limit configurations, against server victims (client victims for depth-2 prefixes). A reference model tracks what the victim advertised (transport parameters + MAX_* frames decoded from its output) and what its application consumed: a frame inside every advertised limit must be accepted, the first frame outside must close with exactly the error code of a violated limit, reads must return exactly the model's bytes, every MAX_DATA / MAX_STREAM_DATA must be <= consumed + window, data accounted as received never exceeds the advertised limit, peer-initiated streams counted as opened never exceed the granted count, and when the model holds nothing unread (all read, stopped or reset) the reassembly buffers hold nothing. Sequences are pruned after the connection closes. Non-trivial = sequence in which at least one frame reached a limit boundary or closed the connection; distinct = distinct trace hashes.");
    let mut tasks: Vec<(usize, bool, Vec<usize>)> = vec![];
    let ls = lims();
    for (li, l) in ls.iter().enumerate() {
        let a = alphabet(l);
        let n = a.len();
        // with no streams allowed at all most frames close the connection at once: one level less
        let depth = if l.name == "zero-streams" && !thorough { depth - 1 } else { depth };
        // all sequences of `depth` over the alphabet; local-only sequences are skipped
        let mut idx = vec![0usize; depth];
        loop {
            let seq: Vec<&Op> = idx.iter().map(|i| &a[*i]).collect();
            let has_frame = seq.iter().any(|o| matches!(o, Op::S(..) | Op::R(..) | Op::D(..) | Op::C(..) | Op::Whole(..) | Op::DFill | Op::StopMore(..) | Op::OrdThenUnord(..) | Op::Ctl(..)));
            // a sequence that starts with a local operation on nothing (read / stop of a stream that does
            // not exist yet, recv on an empty datagram queue) is the sequence of its remaining operations,
            // which is enumerated anyway as the prefix of others
            let leading_noop = depth > 1 && matches!(seq[0], Op::Read(..) | Op::ReadU(..) | Op::Stop(..) | Op::RecvDgram);
            // quick tier: a control frame on a (possibly unopened) stream appears once per sequence,
            // among operations that move stream counts, windows or the named stream itself
            let n_ctl = seq.iter().filter(|o| matches!(o, Op::Ctl(..))).count();
            let ctl_ok = thorough || n_ctl == 0 || (n_ctl == 1 && seq.iter().all(|o| matches!(o, Op::Ctl(..) | Op::S(3, ..) | Op::S(0, 0, 10, false) | Op::R(0, 5) | Op::Read(0, usize::MAX) | Op::Stop(0) | Op::Whole(..) | Op::MaxUni(..) | Op::Win(..) | Op::D(10) | Op::C(100, 10))));
            if has_frame && !leading_noop && ctl_ok {
                tasks.push((li, true, idx.clone()));
                if depth <= 3 && idx[depth - 1] == 0 {
                    // client victim for the depth-1 prefix
                    tasks.push((li, false, idx[..depth - 1].to_vec()));
                }
            }
            let mut k = depth;
            loop {
                if k == 0 {
                    break;
                }
                k -= 1;
                idx[k] += 1;
                if idx[k] < n {
                    break;
                }
                idx[k] = 0;
                if k == 0 {
                    k = usize::MAX;
                    break;
                }
            }
            if k == usize::MAX {
                break;
            }
        }
    }
    let total = tasks.len();
    let (res, capped) = e3(tasks, dl, |(li, vs, idx)| {
        let a = alphabet(&ls[*li]);
        let seq: Vec<Op> = idx.iter().map(|i| a[*i].clone()).collect();
        run_seq(base, &ls[*li], *vs, &seq, false)
    });
    rep.exhaustive = !capped;
    let mut closes = 0u64;
    let mut boundary = 0u64;
    for ((li, vs, idx), r) in &res {
        rep.evaluations += 1;
        let a = alphabet(&ls[*li]);
        let seq: Vec<Op> = idx.iter().map(|i| a[*i].clone()).collect();
        let rj = json!({"check":"c06","lim":ls[*li].name,"vs":vs,"seq":idx});
        match r {
            Err(e) => rep.violation(Violation { signature: "panic".into(), what: format!("lim={} victim={} seq={seq:?}: panic: {e}", ls[*li].name, if *vs { "server" } else { "client" }), replay: rj }),
            Ok(o) => {
                if !o.closed_codes.is_empty() || o.boundary_hits > 0 {
                    rep.distinct.insert(o.trace);
                }
                closes += !o.closed_codes.is_empty() as u64;
                boundary += o.boundary_hits;
                for (sig, what) in &o.viol {
                    rep.violation(Violation { signature: sig.clone(), what: format!("lim={} victim={} seq={seq:?}: {what}", ls[*li].name, if *vs { "server" } else { "client" }), replay: rj.clone() });
                }
            }
        }
    }
    rep.part("sequences", json!({"depth": depth, "limit_configs": ls.len(), "alphabet": alphabet(&ls[0]).len(), "cases": total, "executed": res.len(), "sequences_that_closed": closes, "limit_boundary_hits": boundary, "capped": capped}));
    if closes == 0 || boundary == 0 {
        machinery("vacuity guard: no sequence closed the connection / reached a limit boundary");
    }
    rep.sample(json!({"lim":"tiny","victim":"server","seq":["S(0, 590, 10, false)","Read(0, MAX)","S(0, 591, 10, false)"],"meaning":"stream window 600: a STREAM frame ending exactly at the limit is accepted (but not yet readable: gap), a read returns nothing, a frame one byte beyond the limit must close the connection with FLOW_CONTROL_ERROR"}));
    rep.assumptions = vec![
        "the puppet holds the model-TLS keys; the honest peer is frozen after the handshake".into(),
        "discarded data (stop, reset) counts as consumed at its highest received offset / final size".into(),
    ];
    let _ = SSTATE;
    // receiver memory under repetition, on fresh and on advanced streams
    {
        let mut cases = vec![];
        for vs in [true, false] {
            for advance in [0u64, 30_000, 70_000, 200_000] {
                for flen in [100usize, 1000] {
                    for unordered in [false, true] {
                        cases.push((vs, advance, flen, unordered));
                    }
                }
            }
        }
        let n = cases.len();
        let dups = if thorough { 600 } else { 250 };
        let (res, capped) = e3(cases, dl, |(vs, advance, flen, unordered)| dup_on_advanced(base, *vs, *advance, *flen, dups, *unordered));
        rep.exhaustive &= !capped;
        for ((vs, advance, flen, unordered), r) in &res {
            rep.evaluations += 1;
            let rj = json!({"check":"c06","kind":"dup","vs":vs,"advance":advance,"flen":flen,"unordered":unordered,"dups":dups});
            match r {
                Err(e) => rep.violation(Violation { signature: "panic".into(), what: format!("duplicates on an advanced stream: panic: {e}"), replay: rj }),
                Ok(Some(w)) => rep.violation(Violation { signature: "reassembly-memory-exceeds-window".into(), what: format!("victim={} {}: {w}", if *vs { "server" } else { "client" }, if *unordered { "unordered reads" } else { "ordered reads" }), replay: rj }),
                Ok(None) => {}
            }
        }
        rep.part("duplicates_on_advanced_streams", json!({"cases": n, "copies_per_case": dups, "capped": capped}));
    }
    rep.finish()
}

fn replay(args: &Args) -> ! {
    let path = args.replay.as_ref().unwrap();
    let v: Value = serde_json::from_str(&std::fs::read_to_string(path).unwrap_or_else(|e| machinery(&format!("{e}")))).unwrap_or_else(|e| machinery(&format!("{e}")));
    let r = &v["replay"];
    let l = lims().into_iter().find(|l| l.name == r["lim"].as_str().unwrap_or("")).unwrap_or_else(|| machinery("unknown lim"));
    let a = alphabet(&l);
    let seq: Vec<Op> = r["seq"].as_array().unwrap().iter().map(|i| a[i.as_u64().unwrap() as usize].clone()).collect();
    println!("sequence: {seq:?}");
    match run_seq(Instant::now(), &l, r["vs"].as_bool().unwrap_or(true), &seq, true) {
        Err(e) => println!("PANIC {e}"),
        Ok(o) => println!("violations={:?} closed_codes={:x?}", o.viol, o.closed_codes),
    }
    std::process::exit(0)
}
