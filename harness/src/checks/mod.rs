pub mod c02;
