pub mod c01;
pub mod c02;
pub mod c03;
pub mod c04;
pub mod c05;
pub mod c06;
pub mod c07;
pub mod c08;
pub mod c09;
pub mod c10;
pub mod c11;
pub mod c12;
pub mod c13;
pub mod c14;
pub mod c15;
pub mod c16;
pub mod c17;
pub mod c20;

use crate::report::Report;

/// Merge component-level (E1) results from the /verif/comp library into a report.
pub fn merge_comp(rep: &mut Report, property: &str, thorough: bool, deadline: std::time::Instant) {
    use serde_json::json;
    let parts = vcomp::run(property, thorough, deadline);
    let mut summary = vec![];
    for p in parts {
        rep.states += p.states;
        rep.transitions += p.transitions;
        rep.evaluations += p.transitions;
        if p.capped {
            rep.exhaustive = false;
        }
        // distinct component states count as distinct non-trivial cases (hash of part name + index)
        for i in 0..p.states.min(1_000_000) {
            use std::hash::{Hash, Hasher};
            let mut h = std::collections::hash_map::DefaultHasher::new();
            (&p.name, i).hash(&mut h);
            rep.distinct.insert(h.finish());
        }
        for s in p.samples.iter().take(2) {
            rep.sample(json!({"component": p.name, "history": s}));
        }
        for v in &p.violations {
            rep.violation(crate::report::Violation {
                signature: v.signature.clone(),
                what: format!("component {}: {}", p.name, v.what),
                replay: json!({"check": "comp", "component_replay": v.replay}),
            });
        }
        summary.push(json!({"component": p.name, "states": p.states, "transitions": p.transitions, "depth": p.depth, "closed": p.closed, "capped": p.capped, "distinct_outcomes": p.distinct_outcomes, "detail": p.detail}));
    }
    rep.part("e1_components", json!(summary));
}

/// Replay helper for component counterexamples
pub fn replay_comp(v: &serde_json::Value) -> Option<String> {
    if v["replay"]["check"] == "comp" {
        Some(vcomp::replay(&v["replay"]["component_replay"]))
    } else {
        None
    }
}
