pub mod c01;
pub mod c02;
pub mod c03;
pub mod c04;
pub mod c05;
pub mod c07;
pub mod c08;
pub mod c12;
pub mod c13;
pub mod c20;

use crate::report::Report;

/// Merge component-level (E1) results from the /verif/comp library into a report.
/// (Wired in once that crate is integrated.)
pub fn merge_comp(_rep: &mut Report, _property: &str, _thorough: bool, _deadline: std::time::Instant) {}
