//! C05 — a sender never exceeds the limits its peer advertised.

use std::time::Duration;

use proto::{Dir, Side};
use serde_json::json;

use crate::{
    app::{End, Plan, ReadMode, StreamPlan},
    explore::{self, deadline, FATE_ALTS, FATE_ALTS3},
    ledger::flow_violations,
    report::{machinery, Args, Report, Tier},
    scen::{e2_cases, integrity, replay_ecase, ECase, Op, StdPair},
    sim::{PairCfg, CLIENT, SERVER},
};

fn plan(streams: Vec<StreamPlan>) -> Plan {
    Plan { streams, audit: true, read: ReadMode::default(), ..Default::default() }
}

fn sp(dir: Dir, len: usize, chunk: usize) -> StreamPlan {
    StreamPlan { dir, len, chunk, end: End::Finish }
}

pub fn cases(thorough: bool) -> Vec<ECase> {
    let mut v = vec![];
    let lims: Vec<u64> = if thorough { vec![0, 1, 2, 63, 64, 16383, 16384] } else { vec![0, 1, 63, 64, 16383, 16384] };
    let mut add = |name: String, f: &dyn Fn(&mut PairCfg), cp: Plan, spl: Plan, script: Vec<(u64, Op)>, window: (u64, u64)| {
        let mut cfg = PairCfg::default();
        f(&mut cfg);
        cfg.client.name = name.clone();
        v.push(ECase { name, cfg, cp, sp: spl, script, window, max_steps: 6000, horizon: Duration::from_secs(20) });
    };
    for &l in &lims {
        // stream-level limit l, writers go past it
        let n = (l as usize + 2).min(40_000);
        add(format!("stream_window={l}"), &|c| c.server.stream_recv_window = Some(l), plan(vec![sp(Dir::Uni, n, 700), sp(Dir::Bi, n, n.max(1))]), plan(vec![]), vec![], (6, 30));
        // connection-level limit l with three streams competing
        add(format!("conn_window={l}"), &|c| c.server.recv_window = Some(l), plan(vec![sp(Dir::Uni, n, 900), sp(Dir::Uni, n, 333), sp(Dir::Bi, n / 2 + 1, 100)]), plan(vec![]), vec![], (6, 30));
        // both directions: the server sends towards a client with tiny windows
        add(format!("client_windows={l}"), &|c| { c.client.recv_window = Some(l.max(1) * 2); c.client.stream_recv_window = Some(l); }, plan(vec![sp(Dir::Bi, 10, 10)]), Plan { echo_len: Some(n), audit: true, streams: vec![sp(Dir::Uni, n, 500)], ..Default::default() }, vec![], (6, 30));
        // send window (local bound on unacknowledged data)
        add(format!("send_window={l}"), &|c| c.client.send_window = Some(l), plan(vec![sp(Dir::Uni, n.max(3000), 1000)]), plan(vec![]), vec![], (6, 30));
    }
    for &l in &[0u64, 1, 2] {
        let streams: Vec<StreamPlan> = (0..4).map(|i| sp(if i % 2 == 0 { Dir::Uni } else { Dir::Bi }, 300 + i * 50, 200)).collect();
        add(format!("max_streams={l}"), &|c| { c.server.max_bidi = Some(l); c.server.max_uni = Some(l); }, Plan { await_response: true, ..plan(streams.clone()) }, Plan { echo_len: Some(100), ..Default::default() }, vec![], (6, 30));
    }
    // vectored writes (write_chunks with three chunks per call: each chunk fits where the sum may not)
    for (name, f) in [
        ("vectored/stream_window=2000", Box::new(|c: &mut PairCfg| c.server.stream_recv_window = Some(2000)) as Box<dyn Fn(&mut PairCfg)>),
        ("vectored/conn_window=2500", Box::new(|c: &mut PairCfg| c.server.recv_window = Some(2500))),
        ("vectored/send_window=2000", Box::new(|c: &mut PairCfg| c.client.send_window = Some(2000))),
    ] {
        add(name.into(), &*f, Plan { vectored: true, audit: true, ..plan(vec![sp(Dir::Uni, 9000, 2700), sp(Dir::Bi, 5000, 2400)]) }, plan(vec![]), vec![], (6, 30));
    }
    // run-time changes
    let big = plan(vec![sp(Dir::Uni, 30_000, 4000), sp(Dir::Uni, 9_000, 1000)]);
    add("recvwin-shrink@18".into(), &|c| { c.server.recv_window = Some(8000); c.server.stream_recv_window = Some(4000); }, big.clone(), plan(vec![]), vec![(18, Op::SetRecvWindow(SERVER, 1500))], (10, 34));
    add("recvwin-grow@18".into(), &|c| { c.server.recv_window = Some(2000); c.server.stream_recv_window = Some(1000); }, big.clone(), plan(vec![]), vec![(18, Op::SetRecvWindow(SERVER, 20_000))], (10, 34));
    add("sendwin-shrink@16".into(), &|c| c.client.send_window = Some(10_000), big.clone(), plan(vec![]), vec![(16, Op::SetSendWindow(CLIENT, 1200))], (10, 34));
    add("sendwin-grow@16".into(), &|c| c.client.send_window = Some(1200), big.clone(), plan(vec![]), vec![(16, Op::SetSendWindow(CLIENT, 50_000))], (10, 34));
    let many: Vec<StreamPlan> = (0..5).map(|_| sp(Dir::Uni, 400, 400)).collect();
    add("maxstreams-grow@18".into(), &|c| c.server.max_uni = Some(1), plan(many.clone()), plan(vec![]), vec![(18, Op::SetMaxStreams(SERVER, Dir::Uni, 3))], (10, 34));
    add("maxstreams-shrink@14".into(), &|c| c.server.max_uni = Some(4), plan(many), plan(vec![]), vec![(14, Op::SetMaxStreams(SERVER, Dir::Uni, 1))], (10, 34));
    // reset mid-stream under a tight connection window
    add("reset-midstream".into(), &|c| c.server.recv_window = Some(3000), plan(vec![StreamPlan { dir: Dir::Uni, len: 5000, chunk: 800, end: End::Reset { after: 1600, code: 5 } }, sp(Dir::Uni, 4000, 1000)]), plan(vec![]), vec![], (8, 32));
    // send window shared by three streams, one of which is reset while acknowledged ranges may sit behind a gap
    add("sendwin6000-reset".into(), &|c| c.client.send_window = Some(6000), plan(vec![StreamPlan { dir: Dir::Uni, len: 12000, chunk: 1000, end: End::Reset { after: 7000, code: 6 } }, sp(Dir::Uni, 8000, 1000), sp(Dir::Uni, 8000, 1000)]), plan(vec![]), vec![], (6, 30));
    add("sendwin2500-reset-late".into(), &|c| c.client.send_window = Some(2500), plan(vec![StreamPlan { dir: Dir::Uni, len: 9000, chunk: 700, end: End::Reset { after: 4200, code: 6 } }, sp(Dir::Bi, 6000, 500)]), plan(vec![]), vec![], (8, 32));
    // redundant second reset() (what a handle's Drop does after an explicit reset): the stream's
    // outstanding bytes leave the send window once
    add("sendwin6000-reset-twice".into(), &|c| c.client.send_window = Some(6000), Plan { reset_twice: true, ..plan(vec![StreamPlan { dir: Dir::Uni, len: 12000, chunk: 1000, end: End::Reset { after: 3000, code: 6 } }, sp(Dir::Uni, 8000, 1000), sp(Dir::Uni, 8000, 1000)]) }, plan(vec![]), vec![], (6, 30));
    add("sendwin2500-reset-twice".into(), &|c| c.client.send_window = Some(2500), Plan { reset_twice: true, ..plan(vec![StreamPlan { dir: Dir::Uni, len: 9000, chunk: 700, end: End::Reset { after: 1400, code: 6 } }, sp(Dir::Bi, 6000, 500)]) }, plan(vec![]), vec![], (8, 32));
    // ... also after the peer stopped the stream (reset, failed finish, reset again)
    add("sendwin6000-stopped-reset-twice".into(), &|c| c.client.send_window = Some(6000), Plan { reset_twice: true, reset_on_stopped: true, ..plan(vec![sp(Dir::Uni, 12000, 1000), sp(Dir::Uni, 8000, 1000), sp(Dir::Uni, 8000, 1000)]) }, Plan { stop: Some((0, 2000, 3)), ..plan(vec![]) }, vec![], (6, 30));
    // asymmetric per-stream limits: the three initial_max_stream_data_* parameters differ (quinn itself
    // always advertises one value for all three, so the transport parameters are re-encoded on the
    // way; the advertised values only bind the sender, the receiver's real window is larger)
    {
        use crate::checks::c03::{tp_apply, varbytes, TpEdit};
        let mk = |local: u64, remote: u64, uni: u64| -> crate::mtls::ParamsOverride {
            std::sync::Arc::new(move |orig: &[u8]| tp_apply(orig, &TpEdit::Multi(vec![TpEdit::Set(0x05, varbytes(local)), TpEdit::Set(0x06, varbytes(remote)), TpEdit::Set(0x07, varbytes(uni))])))
        };
        for (name, a, b) in [("asym-msd-local-small", (300u64, 2000u64, 700u64), (250u64, 1800u64, 650u64)), ("asym-msd-remote-small", (2000, 300, 700), (1800, 250, 650)), ("asym-msd-uni-small", (2000, 1800, 200), (1900, 1700, 150))] {
            let (so, co) = (mk(a.0, a.1, a.2), mk(b.0, b.1, b.2));
            let streams = vec![sp(Dir::Bi, 2500, 900), sp(Dir::Uni, 2200, 700)];
            add(
                name.into(),
                &move |c| {
                    c.server.stream_recv_window = Some(6000);
                    c.client.stream_recv_window = Some(6000);
                    c.server_params_override = Some(so.clone());
                    c.client_params_override = Some(co.clone());
                },
                Plan { echo_len: Some(2400), ..plan(streams.clone()) },
                Plan { echo_len: Some(2400), audit: true, streams: streams.clone(), ..Default::default() },
                vec![],
                (6, 30),
            );
        }
    }
    // 0-RTT with remembered parameters: after a rejection the new (lower) limits are the credit;
    // after an acceptance the (higher) new ones. 0-RTT packets themselves are judged in C17.
    {
        let remembered_default = crate::checks::c17::remembered(std::time::Instant::now(), &PairCfg::default());
        let six: Vec<StreamPlan> = (0..6).map(|i| sp(if i % 2 == 0 { Dir::Uni } else { Dir::Bi }, 400 + i * 100, 300)).collect();
        let ticket = crate::mtls::Ticket { server_params: remembered_default.clone(), secret: [9; 16] };
        let t2 = ticket.clone();
        add("0rtt-rejected-lower-limits".into(), &move |c| { c.ticket = Some(t2.clone()); c.accept_early = false; c.server.max_uni = Some(2); c.server.max_bidi = Some(1); c.server.recv_window = Some(3000); c.server.stream_recv_window = Some(900); }, Plan { early: true, early_salt: 0x5a, ..plan(six.clone()) }, Plan { echo_len: Some(50), ..Default::default() }, vec![], (0, 24));
        // accepted although the server now offers less than the ticket remembers (the server's
        // mistake): the client must notice and end the connection rather than go on sending under the
        // remembered, larger limits
        let t4 = ticket.clone();
        add("0rtt-accepted-lower-limits".into(), &move |c| { c.ticket = Some(t4.clone()); c.accept_early = true; c.server.max_uni = Some(2); c.server.max_bidi = Some(1); c.server.recv_window = Some(3000); c.server.stream_recv_window = Some(900); }, Plan { early: true, ..plan(vec![sp(Dir::Uni, 20_000, 1000), sp(Dir::Bi, 6000, 700), sp(Dir::Uni, 3000, 500), sp(Dir::Uni, 500, 500)]) }, Plan { echo_len: Some(50), ..Default::default() }, vec![], (0, 24));
        // ... also when what fits into the first flight stays inside the new limits and only the
        // writes after the handshake would exceed them
        let t5 = ticket.clone();
        add("0rtt-accepted-lower-limits-late-excess".into(), &move |c| { c.ticket = Some(t5.clone()); c.accept_early = true; c.server.recv_window = Some(15_000); c.server.stream_recv_window = Some(15_000); }, Plan { early: true, ..plan(vec![sp(Dir::Uni, 60_000, 1000)]) }, Plan::default(), vec![], (0, 24));
        let mut small = PairCfg::default();
        small.server.max_uni = Some(2);
        small.server.max_bidi = Some(1);
        small.server.recv_window = Some(3000);
        small.server.stream_recv_window = Some(900);
        let remembered_small = crate::checks::c17::remembered(std::time::Instant::now(), &small);
        let t3 = crate::mtls::Ticket { server_params: remembered_small, secret: [9; 16] };
        add("0rtt-accepted-higher-limits".into(), &move |c| { c.ticket = Some(t3.clone()); c.accept_early = true; }, Plan { early: true, ..plan(six.clone()) }, Plan { echo_len: Some(50), ..Default::default() }, vec![], (0, 24));
    }
    let _ = Side::Client;
    v
}

fn params(p: &StdPair) -> (Vec<u8>, Vec<u8>) {
    let c = p.keylog.last(proto::Side::Client).map(|s| s.sent_params).unwrap_or_default();
    let s = p.keylog.last(proto::Side::Server).map(|s| s.sent_params).unwrap_or_default();
    (c, s)
}

/// Largest send window the client had at any time of this case
fn max_send_window(c: &ECase) -> u64 {
    let mut w = c.cfg.client.send_window.unwrap_or(u64::MAX);
    for (_, op) in &c.script {
        if let Op::SetSendWindow(n, v) = op {
            if *n == CLIENT {
                w = w.max(*v);
            }
        }
    }
    w
}

fn oracle(p: &StdPair, _done: bool) -> (Vec<(String, String)>, u64) {
    let (cp, sp) = params(p);
    let (mut v, near) = flow_violations(p, &cp, &sp);
    // the case name travels in the client's configuration name
    static WINDOWS: std::sync::OnceLock<std::collections::BTreeMap<String, u64>> = std::sync::OnceLock::new();
    let windows = WINDOWS.get_or_init(|| cases(true).iter().map(|c| (c.name.clone(), max_send_window(c))).collect());
    if let Some(&w) = windows.get(&p.cfg_name) {
        if w != u64::MAX {
            let (sv, _) = crate::ledger::send_window_violations(p, CLIENT, w);
            v.extend(sv);
        }
    }
    for (s, w) in integrity(p) {
        if s == "app-oracle" {
            v.push((format!("api:{}", if w.contains("audit") { "audit" } else { "integrity" }), w));
        }
    }
    (v, near)
}

pub fn main(args: &Args) -> ! {
    let thorough = args.tier == Tier::Thorough;
    let cs = cases(true);
    if args.replay.is_some() {
        replay_ecase(&cs, args, if thorough { &FATE_ALTS } else { &FATE_ALTS3 }, &oracle);
    }
    let cs = cases(thorough);
    explore::quiet_panics();
    let mut rep = Report::new("C05", args, "fault_enumeration");
    let k = if thorough { 3 } else { 2 };
    let dl = deadline(if thorough { 1500 } else { 45 });
    rep.rule = format!("E2 on real endpoints: for each limit configuration (stream / connection / send window and stream-count limits at 0, 1, 2, 63, 64, 16383, 16384; run-time window and stream-limit changes; reset mid-stream) every execution with <=k={k} deviations over the fate alphabet in the window where MAX_* updates travel is run. Wire ledger: credit = peer's transport parameters (independently decoded) + MAX_DATA / MAX_STREAM_DATA / MAX_STREAMS frames in datagrams delivered to the sender; use = STREAM / RESET_STREAM offsets and stream indices decoded from what the sender emitted; invariant use <= credit at every emission. API audit: after each write()/open() the probe's counters must agree with the answer. Non-trivial = trace differs from the case's baseline; distinct = distinct trace hashes.");
    let alts: &[crate::sim::Fate] = if thorough { &FATE_ALTS } else { &FATE_ALTS3 };
    let mut cs = cs;
    if !thorough {
        for c in cs.iter_mut() {
            c.window.1 = c.window.0 + 16;
        }
    }
    let (_, near) = e2_cases(&mut rep, "c05", &cs, k, alts, dl, true, &oracle);
    rep.extra.insert("use_reached_credit_exactly".into(), json!(near));
    if near == 0 {
        machinery("vacuity guard: the ledger never saw use == credit, the limits were not exercised");
    }
    rep.sample(json!({"case":"conn_window=64","deviations":[[12,2]],"meaning":"server advertises a 64-byte connection window; datagram #12 (carrying MAX_DATA) is delayed by 15 ms; the client's STREAM offsets summed over streams must never exceed the largest MAX_DATA delivered so far"}));
    rep.assumptions = vec![
        "a MAX_* frame counts as arrived when the datagram carrying it is delivered to the sender".into(),
        "0-RTT data is judged against remembered parameters in C17".into(),
    ];
    rep.finish()
}
