//! C11 — stream operations follow the QUIC stream state machine.
//! Every operation sequence up to a bound is executed on a real established connection pair
//! and compared, step by step, with a reference model of the two stream halves.

use std::{
    collections::BTreeSet,
    time::{Duration, Instant},
};

use proto::{
    Connection, ConnectionHandle, Dir, Event, FinishError, ReadError, ReadableError, Side,
    StreamEvent, StreamId, VarInt, WriteError,
};
use serde_json::{json, Value};

use crate::{
    app::Plan,
    explore::{self, deadline, e3, guarded},
    report::{machinery, Args, Report, Tier, Violation},
    scen::{cfg_by_name, std_pair_plans, StdPair},
    sim::{App, AppCx, Pair, CLIENT, SERVER},
};

/// Application that only records events
pub struct Recorder {
    pub events: Vec<Event>,
}
impl App for Recorder {
    fn drive(&mut self, cx: &mut AppCx<'_>) -> bool {
        self.events.extend(cx.events.drain(..));
        false
    }
}

#[derive(Clone, Copy, Debug, PartialEq, Eq, Hash, PartialOrd, Ord)]
pub enum Op {
    // sender side (A = initiator) on its sending half
    Write,
    Finish,
    Reset,
    Stopped,
    Prio,
    // receiver side (B)
    Accept,
    Read3,
    ReadAll,
    Stop,
    RcvReset,
    // network
    AB,
    BA,
    // reverse direction of a bidirectional stream: B sends, A receives
    BWrite,
    BFinish,
    BReset,
    ARead,
    AStop,
}

pub const OPS_UNI: [Op; 12] = [Op::Write, Op::Finish, Op::Reset, Op::Stopped, Op::Prio, Op::Accept, Op::Read3, Op::ReadAll, Op::Stop, Op::RcvReset, Op::AB, Op::BA];
pub const OPS_BI: [Op; 17] = [Op::Write, Op::Finish, Op::Reset, Op::Stopped, Op::Prio, Op::Accept, Op::Read3, Op::ReadAll, Op::Stop, Op::RcvReset, Op::AB, Op::BA, Op::BWrite, Op::BFinish, Op::BReset, Op::ARead, Op::AStop];

const RESET_CODE: u32 = 7;
const STOP_CODE: u32 = 9;

// ---------------------------------------------------------------- reference model

#[derive(Clone, Debug, PartialEq, Eq)]
enum SState {
    Ready,
    DataSent,
    ResetSent,
    /// forgotten: finish fully acknowledged or reset acknowledged
    Closed,
}

#[derive(Clone, Debug)]
struct SendHalf {
    exists: bool,
    state: SState,
    stop: Option<u64>,
    written: u64,
    /// stream-level credit (never extended in the small-window variants: the receiver does not read)
    limit: Option<u64>,
    finished_event: u32,
    stopped_event: u32,
}

/// What the sender has put on the wire so far
#[derive(Clone, Debug, Default, PartialEq, Eq)]
struct Sent {
    bytes: u64,
    fin: bool,
    reset: Option<u64>,
}

#[derive(Clone, Debug)]
struct RecvHalf {
    /// the receiver has seen at least one frame of the stream
    seen: bool,
    known: Sent,
    read: u64,
    stopped: bool,
    stop_announced: bool,
    removed: bool,
}

#[derive(Clone, Debug)]
struct Half {
    s: SendHalf,
    r: RecvHalf,
    /// feedback emitted by the receiving side, in emission order, not yet delivered
    fb: Vec<Fb>,
}

#[derive(Clone, Debug)]
enum Fb {
    /// acknowledgement of everything received up to this snapshot
    Ack(Sent),
    StopSending,
}

impl Half {
    fn new() -> Self {
        Self {
            s: SendHalf { exists: false, state: SState::Ready, stop: None, written: 0, limit: None, finished_event: 0, stopped_event: 0 },
            r: RecvHalf { seen: false, known: Sent::default(), read: 0, stopped: false, stop_announced: false, removed: false },
            fb: vec![],
        }
    }
    fn sent(&self) -> Sent {
        // what is on the wire: data up to written (small writes are always sendable), fin once
        // finish() was called, reset once reset() was called
        Sent {
            bytes: self.s.written,
            fin: matches!(self.s.state, SState::DataSent) || (self.s.state == SState::Closed && self.s.finished_event > 0),
            reset: if self.s.state == SState::ResetSent { Some(RESET_CODE as u64) } else { None },
        }
    }
    fn send_terminal(&self) -> bool {
        self.s.exists && self.s.state == SState::Closed
    }
    fn recv_terminal(&self) -> bool {
        self.r.removed
    }
}

#[derive(Debug, Clone, PartialEq, Eq)]
enum Ret {
    Ok,
    OkN(u64),
    Bytes(u64),
    Blocked,
    Fin,
    ResetCode(u64),
    Stopped(u64),
    Closed,
    None,
    SomeId,
    SomeCode(u64),
    /// either of two answers is acceptable
    Either(Box<Ret>, Box<Ret>),
    Skip,
}

fn ret_matches(model: &Ret, real: &Ret) -> bool {
    match model {
        Ret::Either(a, b) => ret_matches(a, real) || ret_matches(b, real),
        Ret::Skip => true,
        m => m == real,
    }
}

struct Model {
    bidi: bool,
    /// forward half: A sends, B receives; reverse half (bidi only): B sends, A receives
    fwd: Half,
    rev: Half,
    accepted: bool,
}

#[derive(Default, Debug, Clone, PartialEq, Eq, PartialOrd, Ord)]
struct Evs {
    a: BTreeSet<String>,
    b: BTreeSet<String>,
}

impl Model {
    fn new(bidi: bool) -> Self {
        let mut m = Self { bidi, fwd: Half::new(), rev: Half::new(), accepted: false };
        m.fwd.s.exists = true; // created by open()
        m
    }

    fn send_op(h: &mut Half, op: Op) -> Ret {
        let s = &mut h.s;
        if !s.exists || s.state == SState::Closed {
            return match op {
                Op::Write | Op::BWrite | Op::Finish | Op::BFinish | Op::Reset | Op::BReset | Op::Stopped | Op::Prio => Ret::Closed,
                _ => Ret::Skip,
            };
        }
        match op {
            Op::Write | Op::BWrite => {
                if s.state != SState::Ready {
                    if s.stop.is_some() { Ret::Either(Box::new(Ret::Closed), Box::new(Ret::Stopped(s.stop.unwrap()))) } else { Ret::Closed }
                } else if let Some(c) = s.stop {
                    Ret::Stopped(c)
                } else {
                    // a stop is reported whatever the credit situation (above); then credit
                    let room = s.limit.map_or(3, |l| l.saturating_sub(s.written).min(3));
                    if room == 0 {
                        Ret::Blocked
                    } else {
                        s.written += room;
                        Ret::OkN(room)
                    }
                }
            }
            Op::Finish | Op::BFinish => {
                if s.state != SState::Ready {
                    if s.stop.is_some() { Ret::Either(Box::new(Ret::Closed), Box::new(Ret::Stopped(s.stop.unwrap()))) } else { Ret::Closed }
                } else if let Some(c) = s.stop {
                    Ret::Stopped(c)
                } else {
                    s.state = SState::DataSent;
                    Ret::Ok
                }
            }
            Op::Reset | Op::BReset => {
                if s.state == SState::ResetSent {
                    Ret::Closed
                } else {
                    s.state = SState::ResetSent;
                    Ret::Ok
                }
            }
            Op::Stopped => match s.stop {
                Some(c) => Ret::SomeCode(c),
                None => Ret::None,
            },
            Op::Prio => Ret::Ok,
            _ => Ret::Skip,
        }
    }

    fn recv_read(h: &mut Half, n: Option<u64>) -> Ret {
        let r = &mut h.r;
        if r.removed || r.stopped {
            return Ret::Closed;
        }
        if let Some(code) = r.known.reset {
            r.removed = true;
            return Ret::ResetCode(code);
        }
        let avail = r.known.bytes - r.read;
        match n {
            Some(n) => {
                if avail > 0 {
                    let k = avail.min(n);
                    r.read += k;
                    Ret::Bytes(k)
                } else if r.known.fin {
                    r.removed = true;
                    Ret::Fin
                } else {
                    Ret::Blocked
                }
            }
            None => {
                // read everything: returns the bytes, and reports the end if it is known
                r.read += avail;
                if r.known.fin {
                    r.removed = true;
                    Ret::Fin
                } else if avail == 0 {
                    Ret::Blocked
                } else {
                    Ret::Bytes(avail)
                }
            }
        }
    }

    fn recv_stop(h: &mut Half) -> Ret {
        let r = &mut h.r;
        if r.removed || r.stopped {
            return Ret::Closed;
        }
        r.stopped = true;
        // STOP_SENDING is announced unless the stream was already reset by the peer
        r.stop_announced = r.known.reset.is_none();
        if r.known.fin || r.known.reset.is_some() {
            r.removed = true;
        }
        if r.stop_announced {
            h.fb.push(Fb::StopSending);
        }
        Ret::Ok
    }

    fn recv_rcvreset(h: &mut Half) -> Ret {
        let r = &mut h.r;
        if r.removed || r.stopped {
            return Ret::Closed;
        }
        match r.known.reset {
            Some(c) => {
                r.removed = true;
                Ret::SomeCode(c)
            }
            None => Ret::None,
        }
    }

    /// Deliver everything the sender of `h` has emitted to the receiver of `h`
    fn deliver_data(h: &mut Half, id: u64, dir: Dir, remote_initiated_at_receiver: bool, evs: &mut BTreeSet<String>, accepted_flag: Option<&mut bool>) {
        let now = h.sent();
        let r = &mut h.r;
        let anything = now.bytes > 0 || now.fin || now.reset.is_some();
        let news = now != r.known;
        if r.removed {
            // frames for a forgotten stream are dropped (but their packets are acknowledged)
            if news {
                r.known = now.clone();
                h.fb.push(Fb::Ack(now));
            }
            return;
        }
        if !r.seen {
            if anything {
                r.seen = true;
                // the first frame of a remotely initiated stream announces it (even if the
                // application already stopped it by id)
                if remote_initiated_at_receiver {
                    evs.insert(format!("Opened({dir:?})"));
                }
                if !r.stopped {
                    evs.insert(format!("Readable({id})"));
                }
            }
        } else if news && !r.stopped {
            evs.insert(format!("Readable({id})"));
        }
        let _ = accepted_flag;
        // once reset, later data is irrelevant
        if r.known.reset.is_none() {
            r.known = now;
        }
        if r.stopped && (r.known.fin || r.known.reset.is_some()) {
            r.removed = true;
        }
        if news {
            let snap = h.r.known.clone();
            h.fb.push(Fb::Ack(snap));
        }
    }

    /// Deliver acknowledgements and STOP_SENDING from the receiver of `h` to its sender
    fn deliver_feedback(h: &mut Half, id: u64, evs: &mut BTreeSet<String>) {
        let items: Vec<Fb> = h.fb.drain(..).collect();
        let s = &mut h.s;
        for it in items {
            if !s.exists || s.state == SState::Closed {
                continue;
            }
            match it {
                Fb::StopSending => {
                    if s.stop.is_none() {
                        s.stop = Some(STOP_CODE as u64);
                        s.stopped_event += 1;
                        evs.insert(format!("Stopped({id},{STOP_CODE})"));
                    }
                }
                Fb::Ack(recvd) => match s.state {
                    SState::DataSent => {
                        if recvd.fin && recvd.bytes == s.written {
                            s.state = SState::Closed;
                            s.finished_event += 1;
                            evs.insert(format!("Finished({id})"));
                        }
                    }
                    SState::ResetSent => {
                        if recvd.reset.is_some() {
                            s.state = SState::Closed;
                        }
                    }
                    _ => {}
                },
            }
        }
    }
}

// ---------------------------------------------------------------- real side

fn sid_u64(id: StreamId) -> u64 {
    VarInt::from(id).into_inner()
}

fn ev_strings(evs: &[Event], out: &mut BTreeSet<String>) {
    for e in evs {
        if let Event::Stream(se) = e {
            let s = match se {
                StreamEvent::Opened { dir } => format!("Opened({dir:?})"),
                StreamEvent::Readable { id } => format!("Readable({})", sid_u64(*id)),
                StreamEvent::Writable { id } => format!("Writable({})", sid_u64(*id)),
                StreamEvent::Finished { id } => format!("Finished({})", sid_u64(*id)),
                StreamEvent::Stopped { id, error_code } => format!("Stopped({},{})", sid_u64(*id), error_code.into_inner()),
                StreamEvent::Available { dir } => format!("Available({dir:?})"),
            };
            out.insert(s);
        }
    }
}

type RPair = Pair<Recorder>;

fn flush(p: &mut RPair, from: usize) {
    let to = 1 - from;
    let src = p.w.nodes[from].addr;
    loop {
        // deliver the oldest flight from `from`
        let mut best: Option<usize> = None;
        for (i, f) in p.w.net.iter().enumerate() {
            if f.src == src && best.map_or(true, |b| (f.at, f.seq) < (p.w.net[b].at, p.w.net[b].seq)) {
                best = Some(i);
            }
        }
        let Some(i) = best else { break };
        let f = p.w.net.remove(i);
        p.w.deliver(f);
    }
    // let the receiver's delayed-ACK timer run
    p.w.t += Duration::from_millis(26);
    let now = p.w.now();
    let chs: Vec<ConnectionHandle> = p.w.nodes[to].conns.keys().copied().collect();
    for ch in chs {
        if let Some(s) = p.w.nodes[to].conns.get_mut(&ch) {
            if s.conn.poll_timeout().map_or(false, |t| t <= now) {
                s.conn.handle_timeout(now);
            }
        }
        p.w.settle_conn(to, ch);
    }
}

fn conn_of(p: &mut RPair, node: usize) -> (&mut Connection, ConnectionHandle) {
    let ch = if node == CLIENT { p.cch } else { p.sch().unwrap() };
    (&mut p.w.nodes[node].conns.get_mut(&ch).unwrap().conn, ch)
}

fn take_events(p: &mut RPair, out: &mut Evs, a_node: usize) {
    for node in [CLIENT, SERVER] {
        let ch = if node == CLIENT { p.cch } else { match p.sch() { Some(c) => c, None => continue } };
        if let Some(s) = p.w.nodes[node].conns.get_mut(&ch) {
            let evs: Vec<Event> = s.app.events.drain(..).collect();
            ev_strings(&evs, if node == a_node { &mut out.a } else { &mut out.b });
        }
    }
}

fn real_read(conn: &mut Connection, id: StreamId, n: Option<u64>) -> Ret {
    let mut rs = conn.recv_stream(id);
    let rd = rs.read(true);
    match rd {
        Err(ReadableError::ClosedStream) => Ret::Closed,
        Err(ReadableError::IllegalOrderedRead) => Ret::Closed,
        Ok(mut chunks) => {
            let mut total = 0u64;
            let mut end = None;
            loop {
                let want = match n {
                    Some(n) => (n - total) as usize,
                    None => usize::MAX,
                };
                if want == 0 {
                    break;
                }
                match chunks.next(want) {
                    Ok(Some(c)) => {
                        total += c.bytes.len() as u64;
                        if n.is_some() {
                            // a single read call of bounded size
                            break;
                        }
                    }
                    Ok(None) => {
                        end = Some(Ret::Fin);
                        break;
                    }
                    Err(ReadError::Blocked) => {
                        end = Some(Ret::Blocked);
                        break;
                    }
                    Err(ReadError::Reset(c)) => {
                        end = Some(Ret::ResetCode(c.into_inner()));
                        break;
                    }
                }
            }
            let _ = chunks.finalize();
            match (n, total, end) {
                (_, 0, Some(e)) => e,
                (_, t, Some(Ret::Fin)) if n.is_none() => {
                    let _ = t;
                    Ret::Fin
                }
                (_, t, _) => Ret::Bytes(t),
            }
        }
    }
}

#[derive(Clone, Debug)]
pub struct Variant {
    pub a_is_client: bool,
    pub bidi: bool,
    /// A previous stream of the same kind lives and dies before the stream under test is
    /// opened, so that the endpoint recycles its per-stream state: 0 = none, 1 = finished, then
    /// stopped by the receiver after the FIN arrived, 2 = stopped by the receiver, then reset by
    /// the sender, 3 = reset by the sender and the reset read, 4 (bidi) = like 1 for the reverse
    /// half as well
    pub prelude: u8,
    /// stream receive window of both peers in bytes (None = large): with a small window and a
    /// receiver that never reads, writes run into the stream flow-control limit
    pub window: Option<u64>,
}

pub struct Out {
    pub viol: Vec<(String, String)>,
    pub sig: u64,
}

pub fn run_seq(base: Instant, v: &Variant, seq: &[Op], verbose: bool) -> Result<Out, String> {
    guarded(|| {
        let mut cfg = cfg_by_name("default");
        cfg.latency = Duration::ZERO;
        if let Some(w) = v.window {
            cfg.client.stream_recv_window = Some(w);
            cfg.server.stream_recv_window = Some(w);
        }
        let mut p: RPair = Pair::new(base, &cfg, Recorder { events: vec![] }, Box::new(|_, _| Recorder { events: vec![] }));
        let mut g = 0;
        while g < 400 {
            g += 1;
            let est = !p.w.nodes[CLIENT].conns[&p.cch].conn.is_handshaking() && p.sch().map_or(false, |c| !p.w.nodes[SERVER].conns[&c].conn.is_handshaking());
            let confirmed = p.w.nodes[CLIENT].conns[&p.cch].app.events.iter().any(|e| matches!(e, Event::HandshakeConfirmed));
            if est && confirmed && p.w.net.is_empty() {
                break;
            }
            if !p.w.step() {
                break;
            }
        }
        // quiesce: a few flushes so that no handshake leftovers are in flight
        for _ in 0..3 {
            flush(&mut p, CLIENT);
            flush(&mut p, SERVER);
        }
        let (a, b) = if v.a_is_client { (CLIENT, SERVER) } else { (SERVER, CLIENT) };
        let dir = if v.bidi { Dir::Bi } else { Dir::Uni };
        for n in [CLIENT, SERVER] {
            let ch = if n == CLIENT { p.cch } else { p.sch().unwrap() };
            p.w.nodes[n].conns.get_mut(&ch).unwrap().app.events.clear();
        }
        if v.prelude != 0 {
            let pid = {
                let (c, _) = conn_of(&mut p, a);
                c.streams().open(dir).expect("open prelude")
            };
            let now = p.w.now();
            let _ = now;
            // A writes 5 bytes
            {
                let (c, _) = conn_of(&mut p, a);
                let _ = c.send_stream(pid).write(&[1, 2, 3, 4, 5]);
                if v.prelude == 1 || v.prelude == 4 {
                    let _ = c.send_stream(pid).finish();
                }
                if v.prelude == 3 {
                    let _ = c.send_stream(pid).reset(VarInt::from_u32(3));
                }
            }
            let (_, cha) = conn_of(&mut p, a);
            p.w.settle_conn(a, cha);
            flush(&mut p, a);
            // B accepts; stops / reads the reset
            {
                let (c, _) = conn_of(&mut p, b);
                let _ = c.streams().accept(dir);
                match v.prelude {
                    1 | 2 | 4 => {
                        let _ = c.recv_stream(pid).stop(VarInt::from_u32(4));
                    }
                    _ => {
                        let mut rs = c.recv_stream(pid);
                        let r = rs.read(true);
                        if let Ok(mut ch) = r {
                            while let Ok(Some(_)) = ch.next(usize::MAX) {}
                            let _ = ch.finalize();
                        };
                    }
                }
                if v.bidi {
                    // the reverse half: B finishes it at once
                    let _ = c.send_stream(pid).write(&[9]);
                    let _ = c.send_stream(pid).finish();
                }
            }
            let (_, chb) = conn_of(&mut p, b);
            p.w.settle_conn(b, chb);
            flush(&mut p, b);
            {
                let (c, _) = conn_of(&mut p, a);
                if v.prelude == 2 {
                    let _ = c.send_stream(pid).reset(VarInt::from_u32(3));
                }
                if v.bidi {
                    if v.prelude == 4 {
                        // A stops the (finished) reverse half without reading it
                        let _ = c.recv_stream(pid).stop(VarInt::from_u32(6));
                    } else {
                        let mut rs = c.recv_stream(pid);
                        let r = rs.read(true);
                        if let Ok(mut ch) = r {
                            while let Ok(Some(_)) = ch.next(usize::MAX) {}
                            let _ = ch.finalize();
                        };
                    }
                }
            }
            p.w.settle_conn(a, cha);
            for _ in 0..3 {
                flush(&mut p, a);
                flush(&mut p, b);
            }
            for n in [CLIENT, SERVER] {
                let ch = if n == CLIENT { p.cch } else { p.sch().unwrap() };
                p.w.nodes[n].conns.get_mut(&ch).unwrap().app.events.clear();
            }
        }
        // open
        let id = {
            let (c, _) = conn_of(&mut p, a);
            c.streams().open(dir).expect("open")
        };
        let idn = sid_u64(id);
        let mut m = Model::new(v.bidi);
        m.fwd.s.limit = v.window;
        m.rev.s.limit = v.window;
        let mut viol = vec![];
        let mut hash = std::collections::hash_map::DefaultHasher::new();
        use std::hash::{Hash, Hasher};
        let base_remote_open = {
            let (c, _) = conn_of(&mut p, b);
            c.streams().remote_open_streams(dir)
        };
        for (i, op) in seq.iter().enumerate() {
            let mut mev = Evs::default();
            let mut rev = Evs::default();
            // ---- model
            let mret = match op {
                Op::Write | Op::Finish | Op::Reset | Op::Stopped | Op::Prio => Model::send_op(&mut m.fwd, *op),
                Op::BWrite | Op::BFinish | Op::BReset => {
                    // the reverse sending half exists at B once B knows the stream
                    if !m.fwd.r.seen && !m.rev.s.exists {
                        Ret::Skip
                    } else {
                        m.rev.s.exists = true;
                        Model::send_op(&mut m.rev, *op)
                    }
                }
                Op::Accept => {
                    if m.fwd.r.seen && !m.accepted {
                        m.accepted = true;
                        Ret::SomeId
                    } else {
                        Ret::None
                    }
                }
                Op::Read3 => Model::recv_read(&mut m.fwd, Some(3)),
                Op::ReadAll => Model::recv_read(&mut m.fwd, None),
                Op::Stop => Model::recv_stop(&mut m.fwd),
                Op::RcvReset => Model::recv_rcvreset(&mut m.fwd),
                Op::ARead => Model::recv_read(&mut m.rev, None),
                Op::AStop => Model::recv_stop(&mut m.rev),
                Op::AB => {
                    // A's data to B, A's feedback about the reverse half to B
                    Model::deliver_data(&mut m.fwd, idn, dir, true, &mut mev.b, None);
                    if v.bidi {
                        // a STOP_SENDING for the reverse direction also makes the stream known to B
                        if !m.fwd.r.seen && m.rev.fb.iter().any(|f| matches!(f, Fb::StopSending)) {
                            m.fwd.r.seen = true;
                            mev.b.insert(format!("Opened({dir:?})"));
                        }
                        // B's sending half of a bidirectional stream exists as soon as B knows the stream
                        if m.fwd.r.seen {
                            m.rev.s.exists = true;
                        }
                        Model::deliver_feedback(&mut m.rev, idn, &mut mev.b);
                    }
                    Ret::Skip
                }
                Op::BA => {
                    Model::deliver_feedback(&mut m.fwd, idn, &mut mev.a);
                    if v.bidi {
                        Model::deliver_data(&mut m.rev, idn, dir, false, &mut mev.a, None);
                    }
                    Ret::Skip
                }
            };
            // ---- real
            let rret = match op {
                Op::Write | Op::BWrite => {
                    let node = if *op == Op::Write { a } else { b };
                    if *op == Op::BWrite && mret == Ret::Skip {
                        Ret::Skip
                    } else {
                        let (c, ch) = conn_of(&mut p, node);
                        let r = match c.send_stream(id).write(&[0xab; 3]) {
                            Ok(n) => Ret::OkN(n as u64),
                            Err(WriteError::Blocked) => Ret::Blocked,
                            Err(WriteError::Stopped(c)) => Ret::Stopped(c.into_inner()),
                            Err(WriteError::ClosedStream) => Ret::Closed,
                        };
                        p.w.settle_conn(node, ch);
                        r
                    }
                }
                Op::Finish | Op::BFinish => {
                    let node = if *op == Op::Finish { a } else { b };
                    if *op == Op::BFinish && mret == Ret::Skip {
                        Ret::Skip
                    } else {
                        let (c, ch) = conn_of(&mut p, node);
                        let r = match c.send_stream(id).finish() {
                            Ok(()) => Ret::Ok,
                            Err(FinishError::Stopped(c)) => Ret::Stopped(c.into_inner()),
                            Err(FinishError::ClosedStream) => Ret::Closed,
                        };
                        p.w.settle_conn(node, ch);
                        r
                    }
                }
                Op::Reset | Op::BReset => {
                    let node = if *op == Op::Reset { a } else { b };
                    if *op == Op::BReset && mret == Ret::Skip {
                        Ret::Skip
                    } else {
                        let (c, ch) = conn_of(&mut p, node);
                        let r = match c.send_stream(id).reset(VarInt::from_u32(RESET_CODE)) {
                            Ok(()) => Ret::Ok,
                            Err(_) => Ret::Closed,
                        };
                        p.w.settle_conn(node, ch);
                        r
                    }
                }
                Op::Stopped => {
                    let (c, _) = conn_of(&mut p, a);
                    match c.send_stream(id).stopped() {
                        Ok(Some(c)) => Ret::SomeCode(c.into_inner()),
                        Ok(None) => Ret::None,
                        Err(_) => Ret::Closed,
                    }
                }
                Op::Prio => {
                    let (c, _) = conn_of(&mut p, a);
                    match c.send_stream(id).set_priority(1) {
                        Ok(()) => Ret::Ok,
                        Err(_) => Ret::Closed,
                    }
                }
                Op::Accept => {
                    let (c, ch) = conn_of(&mut p, b);
                    let r = match c.streams().accept(dir) {
                        Some(x) if x == id => Ret::SomeId,
                        Some(_) => Ret::SomeCode(u64::MAX),
                        None => Ret::None,
                    };
                    p.w.settle_conn(b, ch);
                    r
                }
                Op::Read3 | Op::ReadAll | Op::ARead => {
                    let node = if *op == Op::ARead { a } else { b };
                    let (c, ch) = conn_of(&mut p, node);
                    let r = real_read(c, id, if *op == Op::Read3 { Some(3) } else { None });
                    p.w.settle_conn(node, ch);
                    r
                }
                Op::Stop | Op::AStop => {
                    let node = if *op == Op::AStop { a } else { b };
                    let (c, ch) = conn_of(&mut p, node);
                    let r = match c.recv_stream(id).stop(VarInt::from_u32(STOP_CODE)) {
                        Ok(()) => Ret::Ok,
                        Err(_) => Ret::Closed,
                    };
                    p.w.settle_conn(node, ch);
                    r
                }
                Op::RcvReset => {
                    let (c, ch) = conn_of(&mut p, b);
                    let r = match c.recv_stream(id).received_reset() {
                        Ok(Some(c)) => Ret::SomeCode(c.into_inner()),
                        Ok(None) => Ret::None,
                        Err(_) => Ret::Closed,
                    };
                    p.w.settle_conn(b, ch);
                    r
                }
                Op::AB => {
                    flush(&mut p, a);
                    Ret::Skip
                }
                Op::BA => {
                    flush(&mut p, b);
                    Ret::Skip
                }
            };
            take_events(&mut p, &mut rev, a);
            (format!("{rret:?}"), &rev.a, &rev.b).hash(&mut hash);
            if verbose {
                println!("  #{i} {op:?}: real={rret:?} model={mret:?}  events real A={:?} B={:?}  model A={:?} B={:?}", rev.a, rev.b, mev.a, mev.b);
            }
            // uni streams cannot be read by A / written by B: the API asserts; those ops are not in OPS_UNI
            if !ret_matches(&mret, &rret) {
                viol.push((format!("return-value:{op:?}"), format!("step {i} of {seq:?}: {op:?} returned {rret:?}, the stream state machine says {mret:?}")));
                break;
            }
            // Readable may legitimately be absent when the model predicts it for information
            // the receiver cannot act on yet; it must never be present for an unused stream.
            let strict = |s: &String| !s.starts_with("Readable");
            let (ra, ma): (BTreeSet<_>, BTreeSet<_>) = (rev.a.iter().filter(|s| strict(s)).cloned().collect(), mev.a.iter().filter(|s| strict(s)).cloned().collect());
            let (rb, mb): (BTreeSet<_>, BTreeSet<_>) = (rev.b.iter().filter(|s| strict(s)).cloned().collect(), mev.b.iter().filter(|s| strict(s)).cloned().collect());
            if ra != ma || rb != mb {
                viol.push((format!("events:{op:?}"), format!("step {i} of {seq:?}: after {op:?} events A={:?} B={:?}, the model predicts A={:?} B={:?}", rev.a, rev.b, mev.a, mev.b)));
                break;
            }
            for (real, model, who) in [(&rev.a, &mev.a, "A"), (&rev.b, &mev.b, "B")] {
                for e in real.iter().filter(|s| s.starts_with("Readable")) {
                    if !model.contains(e) {
                        viol.push((format!("spurious-readable:{op:?}"), format!("step {i} of {seq:?}: {who} got {e} although the peer sent nothing new on that stream")));
                    }
                }
            }
            // concurrency accounting at B for the remote stream
            let (c, _) = conn_of(&mut p, b);
            let open_now = c.streams().remote_open_streams(dir) - base_remote_open;
            let fwd_term = m.fwd.recv_terminal();
            let rev_term = !v.bidi || m.rev.send_terminal() || (!m.rev.s.exists && false);
            let expect_open = if !m.fwd.r.seen { 0 } else if fwd_term && rev_term { 0 } else { 1 };
            // a bidirectional stream whose sending half at B was never used stays open until B
            // finishes or resets it
            if open_now != expect_open {
                viol.push(("remote-open-streams".into(), format!("step {i} of {seq:?}: B counts {open_now} open remote streams, model says {expect_open} (recv half terminal={fwd_term}, B's send half terminal={rev_term})")));
                break;
            }
        }
        // settling tail: whatever is still owed (acknowledgements of FINs and resets, MAX_STREAMS)
        // travels now, so that bookkeeping driven by late acknowledgements runs for every sequence;
        // afterwards the count of sending streams is one of the values it can legitimately have
        if viol.is_empty() {
            for _ in 0..2 {
                flush(&mut p, a);
                flush(&mut p, b);
            }
            for node in [a, b] {
                let (c, _) = conn_of(&mut p, node);
                let n = c.verif_probe().streams.send_streams;
                if n > 2 {
                    viol.push(("send-streams-count".into(), format!("after {seq:?} and a settling tail node{node} counts {n} streams that may have unacknowledged data; at most two sending halves ever existed")));
                }
            }
        }
        // ... and once every stream is accepted and every sending half that still exists is reset and
        // the resets are acknowledged, nothing is counted any more
        if viol.is_empty() {
            for node in [a, b] {
                let (c, ch) = conn_of(&mut p, node);
                while c.streams().accept(dir).is_some() {}
                if node == a || v.bidi {
                    let _ = c.send_stream(id).reset(VarInt::from_u32(77));
                }
                p.w.settle_conn(node, ch);
            }
            for _ in 0..3 {
                flush(&mut p, a);
                flush(&mut p, b);
            }
            for node in [a, b] {
                let (c, _) = conn_of(&mut p, node);
                let n = c.verif_probe().streams.send_streams;
                // (streams of the prelude are not touched here: they may account for one)
                if n > (v.prelude != 0) as usize {
                    viol.push(("send-streams-count".into(), format!("after {seq:?}, accepting everything, resetting every sending half of the stream and a settling tail, node{node} still counts {n} streams that may have unacknowledged data")));
                }
            }
        }
        // end-of-run event-count invariants
        if m.fwd.s.finished_event > 1 || m.fwd.s.stopped_event > 1 {
            viol.push(("model-bug".into(), "model emitted an event twice".into()));
        }
        Out { viol, sig: hash.finish() }
    })
}

fn enumerate(ops: &[Op], depth: usize) -> Vec<Vec<Op>> {
    let mut out = vec![];
    let mut idx = vec![0usize; depth];
    loop {
        out.push(idx.iter().map(|i| ops[*i]).collect());
        let mut k = depth;
        loop {
            if k == 0 {
                return out;
            }
            k -= 1;
            idx[k] += 1;
            if idx[k] < ops.len() {
                break;
            }
            idx[k] = 0;
        }
    }
}

pub fn main(args: &Args) -> ! {
    if args.replay.is_some() {
        replay(args);
    }
    explore::quiet_panics();
    let base = Instant::now();
    let mut rep = Report::new("C11", args, "model_checking");
    let thorough = args.tier == Tier::Thorough;
    let dl = deadline(if thorough { 1500 } else { 50 });
    let (du, db) = if thorough { (6, 5) } else { (5, 4) };
    rep.rule = format!("Explicit enumeration of every operation sequence of length {du} (unidirectional stream) / {db} (bidirectional stream) after open(), over the alphabets {:?} / {:?}, for both initiators, executed on a real established connection pair with a zero-latency link whose two directions are flushed only by the explicit network operations AB / BA (so acknowledgements and STOP_SENDING can be withheld). After EVERY operation the real return value must equal the reference model's (write/finish/reset/stopped/set_priority/accept/read/stop/received_reset), the set of StreamEvents emitted must equal the model's (Finished, Stopped, Opened exact; Readable never spurious), and remote_open_streams() must change exactly when both halves of the remote stream are terminal. Variants: a previous stream of the same kind lived and died in one of four ways before (recycled state); a 4-byte stream window with a receiver that never reads (writes run into the flow-control limit: whole, partial, Blocked - and Stopped takes precedence). States = distinct (return value, event) traces; transitions = operations compared.", OPS_UNI, OPS_BI);
    let mut tasks: Vec<(usize, Vec<Op>)> = vec![];
    let mut variants = vec![
        Variant { a_is_client: true, bidi: false, prelude: 0, window: None },
        Variant { a_is_client: false, bidi: false, prelude: 0, window: None },
        Variant { a_is_client: true, bidi: true, prelude: 0, window: None },
        Variant { a_is_client: false, bidi: true, prelude: 0, window: None },
    ];
    // the stream under test is the second of its kind: the first one ended in a way that leaves
    // its recycled state "dirty" (stopped, reset, unread)
    for bidi in [false, true] {
        for a_is_client in [true, false] {
            for prelude in 1..=(if bidi { 4 } else { 3 }) {
                variants.push(Variant { a_is_client, bidi, prelude, window: None });
            }
        }
    }
    // writes that run into the stream flow-control limit: a 4-byte stream window (one whole write,
    // one partial, then none) and a receiver that never reads, so no credit ever comes
    for bidi in [false, true] {
        for a_is_client in [true, false] {
            // (quick tier: unidirectional only; the sending half is the same code in both kinds)
            if thorough || !bidi {
                variants.push(Variant { a_is_client, bidi, prelude: 0, window: Some(4) });
            }
        }
    }
    let ops_uni_nr: Vec<Op> = OPS_UNI.iter().copied().filter(|o| !matches!(o, Op::Read3 | Op::ReadAll)).collect();
    let ops_bi_nr: Vec<Op> = OPS_BI.iter().copied().filter(|o| !matches!(o, Op::Read3 | Op::ReadAll | Op::ARead)).collect();
    for (vi, v) in variants.iter().enumerate() {
        let (ops, mut d): (&[Op], usize) = match (v.bidi, v.window.is_some()) {
            (true, false) => (&OPS_BI, db),
            (false, false) => (&OPS_UNI, du),
            (true, true) => (&ops_bi_nr, db),
            (false, true) => (&ops_uni_nr, du),
        };
        // quick tier: the server-initiated variants run one level shallower
        if !thorough && !v.a_is_client {
            d -= 1;
        }
        if v.prelude != 0 {
            d -= if thorough { 1 } else { 2 };
        }
        for s in enumerate(ops, d) {
            tasks.push((vi, s));
        }
    }
    let total = tasks.len();
    let (res, capped) = e3(tasks, dl, |(vi, s)| run_seq(base, &variants[*vi], s, false));
    rep.exhaustive = !capped;
    let mut sigs = BTreeSet::new();
    for ((vi, s), r) in &res {
        rep.evaluations += 1;
        rep.transitions += s.len() as u64;
        let v = &variants[*vi];
        let rj = json!({"check":"c11","a_is_client":v.a_is_client,"bidi":v.bidi,"prelude":v.prelude,"window":v.window,"seq":s.iter().map(|o| format!("{o:?}")).collect::<Vec<_>>()});
        match r {
            Err(e) => rep.violation(Violation { signature: "panic".into(), what: format!("initiator={} bidi={} previous-stream-life={} seq={s:?}: panic: {e}", if v.a_is_client { "client" } else { "server" }, v.bidi, v.prelude), replay: rj }),
            Ok(o) => {
                sigs.insert((vi, o.sig));
                rep.distinct.insert(o.sig ^ (*vi as u64));
                for (sig, what) in &o.viol {
                    rep.violation(Violation { signature: sig.clone(), what: format!("initiator={} bidi={} previous-stream-life={}: {what}", if v.a_is_client { "client" } else { "server" }, v.bidi, v.prelude), replay: rj.clone() });
                }
            }
        }
    }
    // part 2: event discipline under loss / duplication / reordering of the packets that carry
    // data, FINs, acknowledgements and STOP_SENDING (deviation-bounded, whole connection)
    {
        use crate::app::ReadMode;
        use crate::explore::{FATE_ALTS, FATE_ALTS3};
        use crate::scen::{e2_cases, event_discipline, integrity, plans, ECase, Wl};
        let cases = events_cases(thorough);
        // a delay beyond the probe timeout provokes spurious retransmission, so that the same
        // frame (e.g. STOP_SENDING) reaches the peer in two different packets
        let alts_v = events_alts(thorough);
        let alts: &[crate::sim::Fate] = &alts_v;
        let oracle = |p: &StdPair, done: bool| -> (Vec<(String, String)>, u64) {
            let mut v = event_discipline(p);
            for (s, w) in integrity(p) {
                v.push((format!("integrity:{s}"), w));
            }
            // the terminal notifications must actually come: a finished stream whose data was
            // delivered reports Finished exactly once (the run continues on a reliable network
            // for 600 s of virtual time after the deviations)
            for (s, w) in crate::scen::completion(p) {
                if s == "finished-event" || (!done && s == "write-stalled") {
                    v.push((format!("terminal-event-missing:{s}"), w));
                }
            }
            (v, 0)
        };
        let (n, _) = e2_cases(&mut rep, "c11", &cases, if thorough { 3 } else { 2 }, alts, dl, true, &oracle);
        rep.transitions += n;
    }
    // terminal events under loss on one side: every drop subset of eight consecutive datagrams of the
    // writer (a data packet together with the packet carrying only the FIN, a FIN and its probes) or
    // of the reader: every finished stream still ends with exactly one Finished and the reader sees
    // its end
    {
        use crate::scen::Wl;
        let mut tasks = vec![];
        // (short round trips: a packet sent a moment after the FIN-only one is acknowledged within the
        // loss delay, so that an earlier data packet and the FIN are declared lost in one pass)
        for cfgname in ["default", "lat1", "lat0"] {
            for wl in [Wl::W11, Wl::W9, Wl::W1] {
                for node in [crate::sim::CLIENT, crate::sim::SERVER] {
                    for first in if thorough { vec![3u64, 4, 5, 6, 8] } else { vec![4u64, 6] } {
                        if !thorough && cfgname == "default" && first != 4 {
                            continue;
                        }
                        for mask in 1..(1u64 << 8) {
                            tasks.push((cfgname, wl, node, first, mask));
                        }
                    }
                }
            }
        }
        let planned = tasks.len();
        let base2 = std::time::Instant::now();
        let (res2, capped2) = crate::explore::e3(tasks, dl, |(cfgname, wl, node, first, mask)| crate::checks::c02::run_one_masks(base2, &cfg_by_name(cfgname), *wl, 6, 0, 0, Some((*node, *first, *mask)), &Default::default()));
        rep.exhaustive &= !capped2;
        for ((cfgname, wl, node, first, mask), o) in &res2 {
            rep.evaluations += 1;
            rep.distinct.insert(o.trace);
            if let Some((sig, what)) = o.viol.first() {
                rep.violation(Violation {
                    signature: format!("terminal-under-loss:{sig}"),
                    what: format!("cfg={cfgname} wl={wl:?} drop mask {mask:#b} over the {} datagrams #{first}.. : {what}", if *node == crate::sim::SERVER { "server's" } else { "client's" }),
                    replay: json!({"check":"c02","replay_with":"./check C02 --replay","kind":"mask","cfg":cfgname,"wl":format!("{wl:?}"),"k":6,"mask":0,"node_mask":[node, first, mask]}),
                });
            }
        }
        rep.part("terminal_events_under_one_sided_loss", json!({"K": 8, "planned": planned, "executed": res2.len(), "capped": capped2}));
    }
    rep.states = sigs.len() as u64;
    rep.part("sequences", json!({"variants": variants.len(), "depth_uni": du, "depth_bidi": db, "sequences": total, "executed": res.len(), "capped": capped}));
    rep.sample(json!({"initiator":"client","bidi":false,"seq":["Write","AB","Stop","BA","Write","Finish"],"meaning":"client writes 3 bytes, they are delivered, the server application stops the stream, STOP_SENDING is delivered; the next write and finish must both report Stopped(9) and exactly one Stopped event must have been emitted"}));
    rep.assumptions = vec![
        "loss is not part of this check (C01/C02 own it); the two network operations deliver everything queued in one direction and let the receiver's delayed-ACK timer run".into(),
        "where the property leaves the answer open (write/finish on a half that is both finished and stopped) either answer is accepted".into(),
    ];
    let _ = (std_pair_plans as fn(_, _, _, _) -> StdPair, Plan::default(), Side::Client);
    rep.finish()
}

fn events_alts(thorough: bool) -> Vec<crate::sim::Fate> {
    let mut alts_v: Vec<crate::sim::Fate> = if thorough { crate::explore::FATE_ALTS.to_vec() } else { crate::explore::FATE_ALTS3.to_vec() };
    alts_v.push(crate::sim::Fate::Delay(Duration::from_millis(400)));
    alts_v
}

fn events_cases(thorough: bool) -> Vec<crate::scen::ECase> {
    use crate::app::ReadMode;
    use crate::scen::{plans, ECase, Wl};
    let mut cases = vec![];
    for (name, wl, win) in [("W4", Wl::W4, (14u64, 40u64)), ("W10", Wl::W10, (10, 30)), ("W2", Wl::W2, (10, 34)), ("W9", Wl::W9, (8, 30)), ("W3", Wl::W3, (8, 30)), ("W11", Wl::W11, (6, 30))] {
        let mut cfg = cfg_by_name("default");
        if wl == Wl::W3 {
            cfg.server.max_bidi = Some(1);
        }
        cfg.client.name = format!("events/{name}");
        let (cp, sp) = plans(wl, ReadMode::default());
        let w = if thorough || wl == Wl::W4 || wl == Wl::W10 { win } else { (win.0, win.0 + 16) };
        cases.push(ECase { name: format!("events/{name}"), cfg, cp, sp, script: vec![], window: w, max_steps: 40_000, horizon: Duration::from_secs(600) });
    }
    cases
}

fn replay(args: &Args) -> ! {
    let path = args.replay.as_ref().unwrap();
    {
        let v: Value = serde_json::from_str(&std::fs::read_to_string(path).unwrap_or_default()).unwrap_or_default();
        if v["replay"]["case"].is_string() {
            let thorough = v["replay"]["alts_len"].as_u64() == Some(6);
            let cases = events_cases(true);
            let alts = events_alts(thorough);
            let name = v["replay"]["case"].as_str().unwrap();
            let c = cases.iter().find(|c| c.name == name).unwrap_or_else(|| machinery("unknown case"));
            let devs: crate::explore::Devs = v["replay"]["devs"].as_array().map(|d| d.iter().map(|x| (x[0].as_u64().unwrap(), x[1].as_u64().unwrap() as u16)).collect()).unwrap_or_default();
            let (p, done) = crate::scen::ecase_pair(Instant::now(), c, &devs, &alts, true);
            print!("{}", crate::trace::dump(&p.w));
            println!("done={done} event_discipline={:?} integrity={:?}", crate::scen::event_discipline(&p), crate::scen::integrity(&p));
            std::process::exit(0)
        }
    }
    let v: Value = serde_json::from_str(&std::fs::read_to_string(path).unwrap_or_else(|e| machinery(&format!("{e}")))).unwrap_or_else(|e| machinery(&format!("{e}")));
    let r = &v["replay"];
    let var = Variant { a_is_client: r["a_is_client"].as_bool().unwrap_or(true), bidi: r["bidi"].as_bool().unwrap_or(false), prelude: r["prelude"].as_u64().unwrap_or(0) as u8, window: r["window"].as_u64() };
    let all: Vec<Op> = OPS_BI.to_vec();
    let seq: Vec<Op> = r["seq"].as_array().unwrap().iter().map(|s| *all.iter().find(|o| format!("{o:?}") == s.as_str().unwrap()).unwrap()).collect();
    match run_seq(Instant::now(), &var, &seq, true) {
        Err(e) => println!("PANIC {e}"),
        Ok(o) => println!("violations={:?}", o.viol),
    }
    std::process::exit(0)
}
