//! C04 — only authentic packets are acted on, each at most once.

use std::{
    collections::BTreeMap,
    hash::{Hash, Hasher},
    time::{Duration, Instant},
};

use serde_json::{json, Value};

use crate::{
    app::ReadMode,
    explore::{self, deadline, e3, guarded},
    ledger::{self, emitted_frame_counts, excess_rx},
    mtls,
    report::{machinery, Args, Report, Tier, Violation},
    scen::{cfg_by_name, completion, drive, integrity, std_pair, std_pair_pre, workload_done, Op, StdPair, Wl},
    sim::{addr, Fate, Rec, CLIENT, SERVER},
    wire::{self, PType},
};

const HZ: Duration = Duration::from_secs(600);

fn conn_emit_hash(p: &StdPair) -> Vec<u64> {
    let mut v = vec![];
    for r in &p.w.recs {
        if let Rec::Emit { t, node, ch: Some(ch), data, dst, .. } = r {
            let mut h = std::collections::hash_map::DefaultHasher::new();
            (t, node, ch.0, data, dst).hash(&mut h);
            v.push(h.finish());
        }
    }
    v
}

/// Equal over the common prefix (runs may stop at different points after completion)
fn same_prefix(a: &[u64], b: &[u64]) -> bool {
    let n = a.len().min(b.len());
    a[..n] == b[..n]
}

fn amo_violations(p: &StdPair, out: &mut Vec<(String, String)>) {
    // at-most-once, counted, both directions
    for (rx_node, tx_node, who) in [(SERVER, CLIENT, "server"), (CLIENT, SERVER, "client")] {
        let tx = emitted_frame_counts(&p.w, tx_node);
        let n = &p.w.nodes[rx_node];
        for (_, slot) in n.conns.iter().map(|(c, s)| (*c, s)).chain(n.dead.iter().map(|(c, s)| (*c, s))) {
            let rx = slot.conn.stats().frame_rx;
            for (k, r, t) in excess_rx(&rx, &tx) {
                out.push((
                    format!("processed-more-than-sent:{who}:{k}"),
                    format!("{who} processed {r} {k} frames but the peer put only {t} on the wire"),
                ));
            }
        }
    }
}

#[derive(Clone, Debug)]
struct DupCase {
    cfg: &'static str,
    wl: Wl,
    script: Vec<(u64, Op)>,
    sname: &'static str,
    dups: Vec<(u64, u64)>, // (emission idx, extra delay ms)
}

fn run_dup(base: Instant, c: &DupCase) -> (u64, u64, Vec<(String, String)>) {
    let r = guarded(|| {
        let cfg = cfg_by_name(c.cfg);
        let mut p = std_pair_pre(base, &cfg, c.wl, ReadMode::default(), |w| {
            for (i, ms) in &c.dups {
                w.fates.insert(*i, Fate::Dup(Duration::from_micros(*ms * 1000 + 1)));
            }
        });
        let done = drive(&mut p, &c.script, 60_000, HZ);
        (p, done)
    });
    match r {
        Err(e) => (0, 0, vec![("panic".into(), format!("panic: {e}"))]),
        Ok((p, done)) => {
            let mut v = vec![];
            amo_violations(&p, &mut v);
            for (s, w) in integrity(&p) {
                v.push((format!("integrity:{s}"), w));
            }
            if !done {
                for (s, w) in completion(&p) {
                    v.push((format!("incomplete:{s}"), w));
                }
            }
            (p.w.emitted, p.w.trace_hash(), v)
        }
    }
}

/// Replays at rest: the workload has completed and the network is quiet; 100 ms later every
/// datagram the peer ever sent to a node is delivered to it once more, one at a time. A replayed
/// packet is recognised by its number and must leave the connection exactly as it was: same timers
/// (a replay is not peer activity: idle and keep-alive timers keep their deadlines), same
/// acknowledgement state, nothing sent in response.
fn replay_at_rest(base: Instant, cfgname: &'static str, wl: Wl) -> (u64, Vec<(String, String)>) {
    let r = guarded(|| {
        let cfg = cfg_by_name(cfgname);
        let mut p = std_pair_pre(base, &cfg, wl, ReadMode::default(), |_| {});
        let done = drive(&mut p, &[], 60_000, HZ);
        let mut v = vec![];
        if !done {
            return (0u64, v);
        }
        // let delayed acknowledgements go out
        let until = p.w.t + Duration::from_millis(100);
        let mut g = 0;
        while g < 2000 {
            g += 1;
            match p.w.next_event() {
                Some((at, _)) if at <= until => {
                    p.w.step();
                }
                _ => break,
            }
        }
        p.w.t = p.w.t.max(until);
        let olds: Vec<(usize, u64, Vec<u8>, std::net::SocketAddr, std::net::SocketAddr)> = p.w.recs.iter().filter_map(|r| match r {
            Rec::Emit { node, idx, data, src, dst, ch: Some(_), .. } if *node < 2 => Some((*node, *idx, data.clone(), *src, *dst)),
            _ => None,
        }).collect();
        let mut n = 0u64;
        for (from, idx, data, src, dst) in olds {
            let to = 1 - from;
            let Some(ch) = (if to == CLIENT { Some(p.cch) } else { p.sch() }) else { continue };
            let Some(before) = p.w.nodes[to].conns.get(&ch).map(|s| s.conn.verif_probe()) else { continue };
            if before.state != "established" {
                continue;
            }
            let mark = p.w.recs.len();
            let at = p.w.t;
            let routed = p.w.deliver(crate::sim::Flight { at, seq: 0, idx: u64::MAX, src, dst, ecn: None, data: data.clone(), injected: true });
            // (a datagram whose connection ID has been retired meanwhile no longer reaches the
            // connection; what the endpoint does with it is C09's business)
            if routed != crate::sim::Routed::Conn(ch) {
                continue;
            }
            n += 1;
            let sent = p.w.recs[mark..].iter().filter(|r| matches!(r, Rec::Emit { node, ch: Some(_), .. } if *node == to)).count();
            let Some(mut after) = p.w.nodes[to].conns.get(&ch).map(|s| s.conn.verif_probe()) else { continue };
            // (bytes received on the path count every datagram, replayed or not)
            after.path_total_recvd = before.path_total_recvd;
            if sent != 0 {
                v.push(("replayed-datagram-draws-output".into(), format!("node{to}: datagram #{idx} ({} bytes) delivered a second time 100 ms after the transfer completed made the connection send {sent} datagram(s)", data.len())));
                break;
            }
            if after != before {
                let tb: Vec<_> = before.timers.iter().map(|(n, t)| (*n, t.saturating_duration_since(base))).collect();
                let ta: Vec<_> = after.timers.iter().map(|(n, t)| (*n, t.saturating_duration_since(base))).collect();
                v.push(("replayed-datagram-changes-state".into(), format!("node{to}: datagram #{idx} ({} bytes) delivered a second time 100 ms after the transfer completed changed the connection: timers {tb:?} -> {ta:?}{}", data.len(), if tb == ta { " (other bookkeeping differs)" } else { "" })));
                break;
            }
        }
        (n, v)
    });
    match r {
        Err(e) => (0, vec![("panic".into(), format!("panic: {e}"))]),
        Ok(x) => x,
    }
}

/// Forgeries while closing: after the transfer one side calls close(); during its closing period
/// damaged copies of the peer's genuine datagrams (one bit flipped in the tag, in the middle, in the
/// first byte) reach it from the peer's address. A packet that does not authenticate draws nothing.
fn forgeries_while_closing(base: Instant, cfgname: &'static str, closer: usize) -> (u64, Vec<(String, String)>) {
    let r = guarded(|| {
        let cfg = cfg_by_name(cfgname);
        let mut p = std_pair_pre(base, &cfg, Wl::W2, ReadMode::default(), |_| {});
        let done = drive(&mut p, &[], 60_000, HZ);
        let mut v = vec![];
        if !done {
            return (0u64, v);
        }
        crate::scen::apply_op(&mut p, &Op::Close(closer, 3));
        let olds: Vec<(Vec<u8>, std::net::SocketAddr, std::net::SocketAddr)> = p.w.recs.iter().rev().filter_map(|r| match r {
            Rec::Emit { node, data, src, dst, ch: Some(_), .. } if *node == 1 - closer && data[0] & 0x80 == 0 => Some((data.clone(), *src, *dst)),
            _ => None,
        }).take(6).collect();
        let Some(ch) = (if closer == CLIENT { Some(p.cch) } else { p.sch() }) else { return (0, v) };
        let mut n = 0u64;
        for (data, src, dst) in olds {
            for (pos, mask) in [(data.len() - 1, 1u8), (data.len() / 2, 0x10), (0, 0x04), (data.len() - 9, 0x80)] {
                let mut d = data.clone();
                d[pos] ^= mask;
                let mark = p.w.recs.len();
                let at = p.w.t;
                let routed = p.w.deliver(crate::sim::Flight { at, seq: 0, idx: u64::MAX, src, dst, ecn: None, data: d, injected: true });
                if routed != crate::sim::Routed::Conn(ch) {
                    continue;
                }
                n += 1;
                let sent = p.w.recs[mark..].iter().filter(|r| matches!(r, Rec::Emit { node, ch: Some(_), .. } if *node == closer)).count();
                if sent != 0 {
                    v.push(("forged-datagram-draws-output-while-closing".into(), format!("node{closer} is in its closing period; a copy of a genuine {}-byte datagram with byte {pos} xor {mask:#x} (it cannot authenticate) made the connection send {sent} datagram(s)", data.len())));
                    return (n, v);
                }
                p.w.t += Duration::from_millis(1);
            }
        }
        (n, v)
    });
    match r {
        Err(e) => (0, vec![("panic".into(), format!("panic: {e}"))]),
        Ok(x) => x,
    }
}

/// A run with one injected datagram delivered right after emission index `after` was delivered
#[derive(Clone, Debug)]
struct InjCase {
    cfg: &'static str,
    wl: Wl,
    /// inject when this emission index has been delivered
    after: u64,
    kind: InjKind,
}

#[derive(Clone, Debug)]
enum InjKind {
    /// copy of datagram `after` with byte `pos` (negative = from end) xor `mask`
    Flip { pos: i32, mask: u8 },
    Truncate { len: usize },
    Extend { n: usize },
    None,
}

fn mutate(data: &[u8], k: &InjKind) -> Option<Vec<u8>> {
    let mut d = data.to_vec();
    match k {
        InjKind::Flip { pos, mask } => {
            let i = if *pos >= 0 { *pos as usize } else { d.len().checked_sub((-*pos) as usize)? };
            if i >= d.len() {
                return None;
            }
            d[i] ^= mask;
        }
        InjKind::Truncate { len } => {
            if *len >= d.len() {
                return None;
            }
            d.truncate(*len);
        }
        InjKind::Extend { n } => d.extend(std::iter::repeat(0xa5).take(*n)),
        InjKind::None => return None,
    }
    Some(d)
}

struct InjOut {
    events: u64,
    conn_emit: Vec<u64>,
    established_at_injection: bool,
    viol: Vec<(String, String)>,
    injected: bool,
}

static DUMP: std::sync::atomic::AtomicBool = std::sync::atomic::AtomicBool::new(false);
fn dumping() -> bool {
    DUMP.load(std::sync::atomic::Ordering::Relaxed)
}

fn run_inj(base: Instant, c: &InjCase) -> InjOut {
    let r = guarded(|| {
        let cfg = cfg_by_name(c.cfg);
        let mut p = std_pair(base, &cfg, c.wl, ReadMode::default());
        let mut injected = false;
        let mut est = false;
        loop {
            if !injected && !matches!(c.kind, InjKind::None) {
                // has emission `after` been delivered?
                let delivered = p.w.recs.iter().rev().take(8).any(|r| matches!(r, Rec::Deliver { idx, .. } if *idx == c.after));
                if delivered {
                    let orig = p.w.recs.iter().find_map(|r| match r {
                        Rec::Emit { idx, data, src, dst, .. } if *idx == c.after => Some((data.clone(), *src, *dst)),
                        _ => None,
                    });
                    if let Some((data, src, dst)) = orig {
                        if let Some(m) = mutate(&data, &c.kind) {
                            est = !p.client().conn.is_handshaking()
                                && p.server().map_or(false, |s| !s.conn.is_handshaking());
                            p.w.inject(src, dst, m, Duration::ZERO);
                            injected = true;
                        } else {
                            injected = true; // not applicable
                        }
                    }
                }
            }
            if workload_done(&p) && (injected || matches!(c.kind, InjKind::None)) && !p.w.net.iter().any(|f| f.injected) {
                break;
            }
            if p.w.steps > 60_000 {
                break;
            }
            match p.w.next_event() {
                None => break,
                Some((at, _)) if at > HZ => break,
                _ => {}
            }
            p.w.step();
        }
        (p, injected, est)
    });
    match r {
        Err(e) => InjOut { events: 0, conn_emit: vec![], established_at_injection: false, viol: vec![("panic".into(), format!("panic: {e}"))], injected: true },
        Ok((p, injected, est)) => {
            if dumping() {
                print!("{}", crate::trace::dump(&p.w));
            }
            let mut v = vec![];
            amo_violations(&p, &mut v);
            for (s, w) in integrity(&p) {
                v.push((format!("integrity:{s}"), w));
            }
            if !workload_done(&p) {
                for (s, w) in completion(&p) {
                    v.push((format!("incomplete:{s}"), w));
                }
            }
            InjOut { events: p.w.outcome_hash(), conn_emit: conn_emit_hash(&p), established_at_injection: est, viol: v, injected }
        }
    }
}

/// The datagram with emission index `after` is damaged in transit: the original never arrives, a
/// mutated copy does (at the same instant). Everything else is delivered. The honest peers must
/// recover by retransmission: workload complete, nobody lost, no panic, integrity.
fn run_replace(base: Instant, c: &InjCase) -> InjOut {
    let r = guarded(|| {
        let cfg = cfg_by_name(c.cfg);
        let after = c.after;
        let mut p = crate::scen::std_pair_pre(base, &cfg, c.wl, ReadMode::default(), |w| {
            w.fates.insert(after, Fate::Drop);
        });
        let mut injected = false;
        loop {
            if !injected {
                let orig = p.w.recs.iter().find_map(|r| match r {
                    Rec::Emit { idx, data, src, dst, .. } if *idx == c.after => Some((data.clone(), *src, *dst)),
                    _ => None,
                });
                if let Some((data, src, dst)) = orig {
                    injected = true;
                    if let Some(m) = mutate(&data, &c.kind) {
                        let lat = p.w.latency;
                        p.w.inject(src, dst, m, lat);
                    }
                }
            }
            if workload_done(&p) && injected && !p.w.net.iter().any(|f| f.injected) {
                break;
            }
            if p.w.steps > 60_000 {
                break;
            }
            match p.w.next_event() {
                None => break,
                Some((at, _)) if at > HZ => break,
                _ => {}
            }
            p.w.step();
        }
        (p, injected)
    });
    match r {
        Err(e) => InjOut { events: 0, conn_emit: vec![], established_at_injection: false, viol: vec![("panic".into(), format!("panic: {e}"))], injected: true },
        Ok((p, injected)) => {
            if dumping() {
                print!("{}", crate::trace::dump(&p.w));
            }
            let mut v = vec![];
            for (s, w) in integrity(&p) {
                v.push((format!("integrity:{s}"), w));
            }
            // the one thing a damaged datagram may legitimately turn into: a Version Negotiation
            // packet (version field zeroed) reaching a client that has not accepted any server packet
            let vn_ended = p.client().lost.iter().any(|e| matches!(e, proto::ConnectionError::VersionMismatch))
                && p.client().conn.stats().frame_rx.crypto + p.client().conn.stats().frame_rx.acks == 0;
            if vn_ended {
                // allowed by the property
            } else if !workload_done(&p) {
                for (s, w) in completion(&p) {
                    v.push((format!("no-recovery-from-damaged-datagram:{s}"), format!("{w}; {}", crate::scen::diagnose(&p))));
                }
            } else {
                for (s, w) in completion(&p) {
                    v.push((format!("complete:{s}"), w));
                }
            }
            let servers = p.w.nodes[SERVER].conns.len() + p.w.nodes[SERVER].dead.len();
            if servers > 1 {
                v.push(("damaged-datagram-created-second-connection".into(), format!("the server ended up with {servers} connections for one client attempt")));
            }
            InjOut { events: p.w.outcome_hash(), conn_emit: vec![], established_at_injection: false, viol: v, injected }
        }
    }
}

/// Stateless reset / VN / Retry probes against the client or the server
#[derive(Clone, Debug)]
struct ProbeCase {
    /// false: default configuration, W1; true: connection IDs rotated every 200 ms, 60 kB transfer
    rotating: bool,
    target: usize,
    /// step index at which to inject
    at_step: u64,
    kind: ProbeKind,
}

#[derive(Clone, Debug, PartialEq)]
enum ProbeKind {
    ResetExact,
    ResetBitFlip(usize),
    ResetOtherCid,
    /// token of a connection ID the peer has issued but the target is not using
    ResetSpareCid,
    ResetFromOtherAddr,
    ResetShort, // token alone, too short to be a packet
    VersionNeg { includes_ours: bool },
    RetryValid,
    RetryBadTag(usize),
    RetryTwice,
    /// the server's first datagram is cut down to its Initial packet in transit and a Retry whose tag
    /// verifies against the connection ID the client uses from then on arrives right behind it
    RetryAfterLoneInitial,
    Nothing,
}

fn last_short_dcid(p: &StdPair, from_node: usize) -> Option<Vec<u8>> {
    let to = 1 - from_node;
    let cl = p.w.nodes[to].cid_len;
    for r in p.w.recs.iter().rev() {
        if let Rec::Emit { node, data, ch: Some(_), .. } = r {
            if *node == from_node {
                let (pk, _) = wire::parse_datagram(data, cl);
                if let Some(s) = pk.iter().find(|x| x.ty == PType::Short) {
                    return Some(s.dcid.clone());
                }
            }
        }
    }
    None
}

fn first_client_initial(p: &StdPair) -> Option<wire::WPacket> {
    for r in &p.w.recs {
        if let Rec::Emit { node, data, .. } = r {
            if *node == CLIENT {
                let (pk, _) = wire::parse_datagram(data, p.w.nodes[SERVER].cid_len);
                return pk.into_iter().find(|x| x.ty == PType::Initial);
            }
        }
    }
    None
}

struct ProbeOut {
    lost_target: Vec<String>,
    lost_other: Vec<String>,
    events: u64,
    done: bool,
    retries_seen: u32,
    applicable: bool,
    server_packet_accepted_before: bool,
    /// for reset probes: the token had actually been conveyed to the target
    token_issued: bool,
    viol: Vec<(String, String)>,
}

fn run_probe(base: Instant, c: &ProbeCase) -> ProbeOut {
    let r = guarded(|| {
        let cfg = cfg_by_name(if c.rotating { "cidlife" } else { "default" });
        let mut p = std_pair(base, &cfg, if c.rotating { Wl::W6 } else { Wl::W1 }, ReadMode::default());
        let mut applicable = true;
        let mut accepted_before = false;
        let mut injected = false;
        let mut token_issued = false;
        loop {
            if !injected && p.w.steps >= c.at_step {
                injected = true;
                let target = c.target;
                let peer = 1 - target;
                let peer_addr = p.w.nodes[peer].addr;
                let target_addr = p.w.nodes[target].addr;
                // has the target accepted any packet from its peer yet?
                accepted_before = p.w.slot(target, if target == CLIENT { p.cch } else { p.sch().unwrap_or(p.cch) })
                    .map_or(false, |s| s.conn.stats().frame_rx.crypto + s.conn.stats().frame_rx.acks > 0);
                // the attempt the probe is aimed at is over (connection finished and forgotten)
                if target == CLIENT && !p.w.nodes[CLIENT].conns.contains_key(&p.cch) {
                    applicable = false;
                }
                let peer_seed = p.w.nodes[peer].seed;
                let mut dgram = |tok: [u8; 16], lead: usize| {
                    let mut d = vec![0x41u8; lead];
                    for (i, b) in d.iter_mut().enumerate() {
                        *b = 0x40 | ((i * 7) as u8 & 0x3f);
                    }
                    d.extend_from_slice(&tok);
                    d
                };
                match &c.kind {
                    ProbeKind::Nothing => {}
                    ProbeKind::ResetExact | ProbeKind::ResetBitFlip(_) | ProbeKind::ResetOtherCid | ProbeKind::ResetSpareCid | ProbeKind::ResetFromOtherAddr | ProbeKind::ResetShort => {
                        // token for the CID the target currently uses towards its peer
                        // the connection ID the target is using right now: by sequence number (probe
                        // hook) when it has switched to a later one than it last sent with
                        let in_use_seq = p.w.slot(target, if target == CLIENT { p.cch } else { p.sch().unwrap_or(p.cch) }).map_or(0, |s| s.conn.verif_probe().rem_cid_seq);
                        let by_seq: Option<Vec<u8>> = if in_use_seq == 0 {
                            None
                        } else {
                            let tcl0 = p.w.nodes[target].cid_len;
                            p.w.recs.iter().find_map(|r| match r {
                                Rec::Emit { node, data, fate, .. } if *node == peer && *fate != Fate::Drop => ledger::decode(data, tcl0).into_iter().flat_map(|(_, fr)| fr).find_map(|f| match f {
                                    wire::WFrame::NewConnectionId { seq, cid, .. } if seq == in_use_seq => Some(cid),
                                    _ => None,
                                }),
                                _ => None,
                            })
                        };
                        match by_seq.or_else(|| last_short_dcid(&p, target)) {
                            None => applicable = false,
                            Some(cid) if cid.is_empty() => applicable = false,
                            Some(cid) => {
                                // was the token for this CID conveyed to the target? Either in a
                                // NEW_CONNECTION_ID frame the peer put on the wire, or (client only)
                                // in the server's transport parameters once the handshake completed
                                let tcl = p.w.nodes[target].cid_len;
                                let via_frame = p.w.recs.iter().any(|r| match r {
                                    Rec::Emit { node, data, fate, .. } if *node == peer && *fate != Fate::Drop => ledger::decode(data, tcl).iter().any(|(_, fr)| fr.iter().any(|f| matches!(f, wire::WFrame::NewConnectionId { cid: c2, .. } if *c2 == cid))),
                                    _ => false,
                                });
                                let via_params = target == CLIENT && !p.client().conn.is_handshaking();
                                token_issued = via_frame || via_params;
                                let mut tok = crate::sim::reset_token_for(peer_seed, &cid);
                                let mut src = peer_addr;
                                let mut lead = 30;
                                match &c.kind {
                                    ProbeKind::ResetBitFlip(b) => tok[b / 8] ^= 1 << (b % 8),
                                    ProbeKind::ResetOtherCid => {
                                        let mut other = cid.clone();
                                        other[0] = other[0].wrapping_add(0x40);
                                        tok = crate::sim::reset_token_for(peer_seed, &other);
                                    }
                                    ProbeKind::ResetSpareCid => {
                                        // the connection ID with the highest sequence number the peer put on the
                                        // wire that is not the one in use
                                        let mut spare: Option<(u64, Vec<u8>)> = None;
                                        for r in &p.w.recs {
                                            if let Rec::Emit { node, data, fate, .. } = r {
                                                if *node == peer && *fate != Fate::Drop {
                                                    for (_, fr) in ledger::decode(data, tcl) {
                                                        for f in fr {
                                                            if let wire::WFrame::NewConnectionId { seq, cid: c2, .. } = f {
                                                                if c2 != cid && spare.as_ref().map_or(true, |(s, _)| seq > *s) {
                                                                    spare = Some((seq, c2));
                                                                }
                                                            }
                                                        }
                                                    }
                                                }
                                            }
                                        }
                                        match spare {
                                            Some((_, c2)) => tok = crate::sim::reset_token_for(peer_seed, &c2),
                                            None => applicable = false,
                                        }
                                    }
                                    ProbeKind::ResetFromOtherAddr => src = addr(7),
                                    ProbeKind::ResetShort => lead = 0,
                                    _ => {}
                                }
                                if applicable {
                                    if dumping() {
                                        println!("PROBE: in-use seq {in_use_seq} cid {cid:02x?} token {tok:?} issued={token_issued}");
                                    }
                                    // handed to the target at once: nothing else may be processed between
                                    // reading which CID is in use and the arrival of the probe
                                    let seq = p.w.seq;
                                    p.w.seq += 1;
                                    let at = p.w.t;
                                    p.w.deliver(crate::sim::Flight { at, seq, idx: u64::MAX, src, dst: target_addr, ecn: None, data: dgram(tok, lead), injected: true });
                                }
                            }
                        }
                    }
                    ProbeKind::VersionNeg { includes_ours } => {
                        // VN is only meaningful towards the client
                        match first_client_initial(&p) {
                            None => applicable = false,
                            Some(ini) => {
                                let mut d = vec![0x80u8 | 0x2a];
                                d.extend_from_slice(&[0, 0, 0, 0]);
                                d.push(ini.scid.len() as u8);
                                d.extend_from_slice(&ini.scid);
                                d.push(ini.dcid.len() as u8);
                                d.extend_from_slice(&ini.dcid);
                                d.extend_from_slice(&0x0a1a_2a3au32.to_be_bytes());
                                if *includes_ours {
                                    d.extend_from_slice(&1u32.to_be_bytes());
                                } else {
                                    d.extend_from_slice(&0xff00_0017u32.to_be_bytes());
                                }
                                p.w.inject(peer_addr, target_addr, d, Duration::ZERO);
                            }
                        }
                    }
                    ProbeKind::RetryValid | ProbeKind::RetryBadTag(_) | ProbeKind::RetryTwice => match first_client_initial(&p) {
                        None => applicable = false,
                        Some(ini) => {
                            let build = |scid: &[u8], token: &[u8]| {
                                let mut d = vec![0xf0u8];
                                d.extend_from_slice(&ini.version.to_be_bytes());
                                d.push(ini.scid.len() as u8);
                                d.extend_from_slice(&ini.scid);
                                d.push(scid.len() as u8);
                                d.extend_from_slice(scid);
                                d.extend_from_slice(token);
                                let tag = mtls::retry_tag(&proto::ConnectionId::new(&ini.dcid), &d);
                                d.extend_from_slice(&tag);
                                d
                            };
                            let mut d = build(&[0xee; 8], b"forged-retry-token");
                            if let ProbeKind::RetryBadTag(b) = &c.kind {
                                let n = d.len();
                                d[n - 16 + b / 8] ^= 1 << (b % 8);
                            }
                            p.w.inject(peer_addr, target_addr, d.clone(), Duration::ZERO);
                            if c.kind == ProbeKind::RetryTwice {
                                // the second one verifies against the connection ID the client uses
                                // after having followed the first
                                let mut d2 = vec![0xf0u8];
                                d2.extend_from_slice(&ini.version.to_be_bytes());
                                d2.push(ini.scid.len() as u8);
                                d2.extend_from_slice(&ini.scid);
                                d2.push(8);
                                d2.extend_from_slice(&[0xdd; 8]);
                                d2.extend_from_slice(b"second-forged-token");
                                let tag = mtls::retry_tag(&proto::ConnectionId::new(&[0xee; 8]), &d2);
                                d2.extend_from_slice(&tag);
                                p.w.inject(peer_addr, target_addr, d2, Duration::from_micros(10));
                            }
                        }
                    },
                    ProbeKind::RetryAfterLoneInitial => {
                        let ccl = p.w.nodes[CLIENT].cid_len;
                        let mut found = None;
                        for (i, f) in p.w.net.iter().enumerate() {
                            if f.dst == target_addr && f.src == peer_addr && !f.injected {
                                let (pk, _) = wire::parse_datagram(&f.data, ccl);
                                if pk.len() >= 2 && pk[0].ty == PType::Initial && pk[0].start == 0 {
                                    found = Some((i, pk[0].len, pk[0].scid.clone(), pk[0].dcid.clone(), pk[0].version));
                                    break;
                                }
                            }
                        }
                        match found {
                            None => applicable = false,
                            Some((i, len, srv_cid, cli_cid, version)) => {
                                p.w.net[i].data.truncate(len);
                                let at = p.w.net[i].at;
                                let mut d = vec![0xf0u8];
                                d.extend_from_slice(&version.to_be_bytes());
                                d.push(cli_cid.len() as u8);
                                d.extend_from_slice(&cli_cid);
                                d.push(8);
                                d.extend_from_slice(&[0xee; 8]);
                                d.extend_from_slice(b"forged-retry-token");
                                let tag = mtls::retry_tag(&proto::ConnectionId::new(&srv_cid), &d);
                                d.extend_from_slice(&tag);
                                let after = at.saturating_sub(p.w.t) + Duration::from_micros(1);
                                p.w.inject(peer_addr, target_addr, d, after);
                                // by the time the Retry arrives the lone Initial has been processed
                                accepted_before = true;
                            }
                        }
                    }
                }
            }
            let pending_inj = p.w.net.iter().any(|f| f.injected);
            let any_lost = [CLIENT, SERVER].iter().any(|n| p.w.nodes[*n].conns.values().chain(p.w.nodes[*n].dead.iter().map(|(_, s)| s)).any(|s| !s.lost.is_empty()));
            if injected && !pending_inj && (workload_done(&p) || (any_lost && p.w.nodes.iter().all(|n| n.conns.is_empty()))) {
                break;
            }
            if p.w.steps > 40_000 {
                break;
            }
            match p.w.next_event() {
                None => break,
                Some((at, _)) if at > Duration::from_secs(120) => break,
                _ => {}
            }
            p.w.step();
        }
        // a probe scheduled after the end of the run was never sent
        (p, applicable && injected, accepted_before, token_issued)
    });
    match r {
        Err(e) => ProbeOut { lost_target: vec![], lost_other: vec![], events: 0, done: false, retries_seen: 0, applicable: true, server_packet_accepted_before: false, token_issued: false, viol: vec![("panic".into(), format!("panic: {e}"))] },
        Ok((p, applicable, accepted_before, token_issued)) => {
            if dumping() {
                print!("{}", crate::trace::dump(&p.w));
            }
            let lost = |node: usize| -> Vec<String> {
                let n = &p.w.nodes[node];
                n.conns.values().chain(n.dead.iter().map(|(_, s)| s)).flat_map(|s| s.lost.iter().map(|e| format!("{e:?}"))).collect()
            };
            // how many distinct Initial tokens did the client use (a followed Retry changes the token)
            let mut toks = std::collections::BTreeSet::new();
            for r in &p.w.recs {
                if let Rec::Emit { node, data, .. } = r {
                    if *node == CLIENT {
                        let (pk, _) = wire::parse_datagram(data, p.w.nodes[SERVER].cid_len);
                        for x in pk {
                            if x.ty == PType::Initial {
                                toks.insert(x.token.clone());
                            }
                        }
                    }
                }
            }
            let mut viol = vec![];
            for (s, w) in integrity(&p) {
                viol.push((format!("integrity:{s}"), w));
            }
            ProbeOut {
                lost_target: lost(c.target),
                lost_other: lost(1 - c.target),
                events: p.w.outcome_hash(),
                done: workload_done(&p),
                retries_seen: toks.len().saturating_sub(1) as u32,
                applicable,
                server_packet_accepted_before: accepted_before,
                token_issued,
                viol,
            }
        }
    }
}

/// For C03: the handshake datagrams damaged in transit (original lost, a mutated copy arrives
/// instead, the sender retransmits into whatever state the damaged copy left behind). Returns
/// (cases run, panics as (description, replay)).
pub fn damaged_handshake_panics(base: Instant, thorough: bool, dl: Instant) -> (u64, Vec<(String, Value)>, bool) {
    let mut muts: Vec<InjKind> = vec![];
    for bit in 0..8 {
        muts.push(InjKind::Flip { pos: 0, mask: 1 << bit });
    }
    for pos in [1i32, 4, 5, 6, 14, 15, 23, 24, 30, 60, 200] {
        muts.push(InjKind::Flip { pos, mask: 0x01 });
        muts.push(InjKind::Flip { pos, mask: 0x80 });
    }
    for pos in 1..=16 {
        muts.push(InjKind::Flip { pos: -pos, mask: 0x01 });
    }
    for len in [0usize, 1, 6, 7, 20, 22, 26, 27, 40, 100, 600, 1199] {
        muts.push(InjKind::Truncate { len });
    }
    muts.push(InjKind::Extend { n: 1 });
    let mut cases = vec![];
    for cfg in ["default", "retry", "cid0", "cid20"] {
        for after in 0..(if thorough { 12 } else { 6 }) {
            for m in &muts {
                cases.push(InjCase { cfg, wl: Wl::W1, after, kind: m.clone() });
            }
        }
    }
    let n = cases.len() as u64;
    let (res, capped) = e3(cases, dl, |c| run_replace(base, c));
    let mut out = vec![];
    for (c, o) in &res {
        for (sig, what) in &o.viol {
            if sig == "panic" {
                out.push((
                    format!("cfg={} datagram #{} damaged in transit ({:?}), original lost: {what}", c.cfg, c.after, c.kind),
                    json!({"check":"c04","kind":"replace","cfg":c.cfg,"after":c.after,"mutation":format!("{:?}",c.kind)}),
                ));
            }
        }
    }
    (n, out, capped)
}

/// A client resuming a session remembers the server's transport parameters - among them the
/// stateless reset token of the PREVIOUS connection. That token says nothing about the new
/// connection: a datagram ending in it must not end the new attempt at any point of the handshake.
/// Returns (cases, violations).
pub fn stale_ticket_token_probes(base: Instant, thorough: bool) -> (u64, Vec<Violation>) {
    let mut viol = vec![];
    let mut n = 0u64;
    // (the earlier connection ran against a server instance with other secrets: its CIDs and reset
    // tokens differ from everything the new connection will legitimately learn)
    let mut old = cfg_by_name("default");
    old.seed = 9;
    let params = crate::checks::c17::remembered(base, &old);
    let Some(token) = wire::parse_transport_params(&params).ok().and_then(|t| t.into_iter().find(|(i, _)| *i == 0x02)).map(|(_, v)| v) else {
        crate::report::machinery("the remembered server parameters carry no stateless_reset_token");
    };
    for accept in [true, false] {
        for at in 0..(if thorough { 16u64 } else { 9 }) {
            for first in [0xc3u8, 0xe3, 0xd3, 0x43] {
                for len in [40usize, 80, 1200] {
                    n += 1;
                    let r = guarded(|| {
                        let mut cfg = cfg_by_name("default");
                        cfg.ticket = Some(mtls::Ticket { server_params: params.clone(), secret: [7; 16] });
                        cfg.accept_early = accept;
                        let mut p = std_pair(base, &cfg, Wl::W1, ReadMode::default());
                        let mut injected = false;
                        let mut g = 0;
                        while g < 4000 {
                            g += 1;
                            if !injected && p.w.steps >= at {
                                injected = true;
                                let Some(ini) = first_client_initial(&p) else { break };
                                let mut d = vec![first];
                                if first & 0x80 != 0 {
                                    d.extend_from_slice(&ini.version.to_be_bytes());
                                    d.push(ini.scid.len() as u8);
                                    d.extend_from_slice(&ini.scid);
                                    d.push(0);
                                    if first & 0x30 == 0 {
                                        d.push(0); // Initial: token length
                                    }
                                    // well-formed length field covering the rest of the datagram
                                    let body = len.saturating_sub(d.len() + 2).max(20);
                                    d.push(0x40 | (body >> 8) as u8);
                                    d.push(body as u8);
                                    let end = d.len() + body - 16;
                                    while d.len() < end {
                                        d.push((d.len() * 7) as u8 | 1);
                                    }
                                } else {
                                    d.extend_from_slice(&ini.scid);
                                    while d.len() < len.max(ini.scid.len() + 22) - 16 {
                                        d.push((d.len() * 7) as u8 | 1);
                                    }
                                }
                                d.extend_from_slice(&token);
                                let (src, dst) = (p.w.nodes[SERVER].addr, p.w.nodes[CLIENT].addr);
                                p.w.inject(src, dst, d, Duration::ZERO);
                            }
                            if workload_done(&p) || !p.w.step() {
                                break;
                            }
                        }
                        let lost: Vec<String> = p.client().lost.iter().map(|e| format!("{e:?}")).collect();
                        (lost, workload_done(&p))
                    });
                    let rj = json!({"check":"c04","kind":"stale-ticket-token","accept":accept,"at":at,"first":first,"len":len});
                    match r {
                        Err(e) => viol.push(Violation { signature: "panic".into(), what: format!("stale ticket token probe: panic: {e}"), replay: rj }),
                        Ok((lost, done)) => {
                            if lost.iter().any(|l| l.contains("Reset")) {
                                viol.push(Violation {
                                    signature: "reset-token-of-previous-connection-acted-on:client".into(),
                                    what: format!("a client resuming with a ticket (0-RTT {}) received at step {at} a {len}-byte datagram (first byte {first:#x}) ending in the stateless reset token its server had advertised on the PREVIOUS connection and reported {lost:?}", if accept { "accepted" } else { "rejected" }),
                                    replay: rj,
                                });
                            } else if !done {
                                viol.push(Violation { signature: "stale-ticket-token-probe-broke-handshake:client".into(), what: format!("after the probe at step {at} (first byte {first:#x}, {len} bytes) the workload no longer completes: lost={lost:?}"), replay: rj });
                            }
                        }
                    }
                    if viol.len() >= 4 {
                        return (n, viol);
                    }
                }
            }
        }
    }
    (n, viol)
}

/// Client-side Retry rules (used by C14): forged Retry packets whose integrity tag verifies, at every
/// step index; a Retry is followed at most once and never after a server packet was accepted.
pub fn retry_probe_part(rep: &mut Report, base: Instant, thorough: bool, dl: Instant) {
    let baseline = run_probe(base, &ProbeCase { rotating: false, target: CLIENT, at_step: 0, kind: ProbeKind::Nothing });
    let mut kinds = vec![ProbeKind::RetryValid, ProbeKind::RetryTwice, ProbeKind::RetryAfterLoneInitial];
    for b in 0..128 {
        if thorough || b % 5 == 0 {
            kinds.push(ProbeKind::RetryBadTag(b));
        }
    }
    let steps: Vec<u64> = if thorough { (0..60).collect() } else { (0..14).chain([16, 20, 30, 40]).collect() };
    let mut cases = vec![];
    for &s in &steps {
        for k in &kinds {
            cases.push(ProbeCase { rotating: false, target: CLIENT, at_step: s, kind: k.clone() });
        }
    }
    let n = cases.len();
    let (res, capped) = e3(cases, dl, |c| run_probe(base, c));
    rep.exhaustive &= !capped;
    let (mut followed, mut lone, mut late) = (0u64, 0u64, 0u64);
    for (c, o) in &res {
        rep.evaluations += 1;
        if !o.applicable {
            continue;
        }
        rep.distinct.insert(o.events ^ c.at_step.wrapping_mul(0x9e37_79b9_7f4a_7c15));
        let mut v = o.viol.clone();
        match &c.kind {
            ProbeKind::RetryBadTag(_) => {
                if o.retries_seen > 0 || o.events != baseline.events {
                    v.push(("retry-bad-tag-followed".into(), "a Retry whose integrity tag does not verify changed the client's behaviour".into()));
                }
            }
            _ => {
                if c.kind == ProbeKind::RetryAfterLoneInitial {
                    lone += 1;
                }
                if o.server_packet_accepted_before {
                    late += 1;
                }
                if o.retries_seen > 0 {
                    followed += 1;
                }
                if o.retries_seen > 1 {
                    v.push(("retry-followed-twice".into(), format!("the client followed {} Retry packets", o.retries_seen)));
                }
                if o.server_packet_accepted_before && o.retries_seen > 0 {
                    v.push(("late-retry-followed".into(), "a Retry arriving after a server packet was accepted was followed".into()));
                }
                if o.server_packet_accepted_before && o.events != baseline.events {
                    v.push(("late-retry-changed-outcome".into(), "a Retry arriving after a server packet was accepted changed the outcome".into()));
                }
            }
        }
        for (sig, what) in v {
            rep.violation(Violation {
                signature: format!("{sig}:client"),
                what: format!("step={} probe={:?}: {what}", c.at_step, c.kind),
                replay: json!({"check":"c04","kind":"probe","target":c.target,"step":c.at_step,"probe":format!("{:?}",c.kind),"rotating":false}),
            });
        }
    }
    rep.part("client_retry_probes", json!({"cases": n, "executed": res.len(), "valid_retries_followed": followed, "retry_after_lone_initial_cases": lone, "retries_after_accepted_server_packet": late, "capped": capped}));
    if followed == 0 || lone == 0 || late == 0 {
        machinery("vacuity guard: no valid Retry followed / no lone-Initial case / no late Retry");
    }
}

pub fn main(args: &Args) -> ! {
    if args.replay.is_some() {
        replay(args);
    }
    explore::quiet_panics();
    let base = Instant::now();
    let mut rep = Report::new("C04", args, "fault_enumeration");
    let thorough = args.tier == Tier::Thorough;
    let dl = deadline(if thorough { 1200 } else { 45 });
    rep.rule = "E3 over the real endpoints: (a) every emitted datagram of each baseline re-delivered after each delay of a delay list (and all pairs in thorough) with forced key updates, oracle: per frame type frames processed <= frames decoded on the wire; (a2) after completion and 100 ms of quiet every datagram of the run is delivered once more, one at a time: the receiving connection's timers and bookkeeping (probe) are unchanged and nothing is sent; (a3) during the closing period of either side damaged copies of the peer's genuine datagrams draw nothing; (b) every emitted datagram x every mutation (every bit of the first byte, bit flips in the leading 24 (thorough: 32, all bits) and trailing 16 bytes, truncations around every header boundary, extensions) injected after the original, differential oracle against the uninjected run; (b2) each early datagram damaged in transit (original lost, mutated copy arrives): the peers must recover and complete; (c) stateless-reset, Version Negotiation and Retry probes at every step index; (d) E1: the replay window (`Dedup`) through every insert history over two packet-number alphabets (one dense around jumps of 126..131 and the second window) against the set of numbers seen. Non-trivial = the injected/duplicated datagram was actually delivered; distinct = distinct (kind, index, mutation) tuples by hash of the resulting trace.".into();

    // (a) duplicates
    let scripts: Vec<(&'static str, Vec<(u64, Op)>)> = vec![
        ("none", vec![]),
        ("keyupd-c@18", vec![(18, Op::KeyUpdate(CLIENT))]),
        ("keyupd-s@22", vec![(22, Op::KeyUpdate(SERVER))]),
    ];
    let delays: Vec<u64> = if thorough { vec![0, 5, 15, 40, 300, 2000] } else { vec![0, 15, 300] };
    let mut dup_cases = vec![];
    for cfg in ["default", "retry", "cid0", "cidlife"] {
        for wl in [Wl::W1, Wl::W2] {
            for (sn, sc) in &scripts {
                if !thorough && *sn != "none" && (cfg != "default" || wl != Wl::W1) {
                    continue;
                }
                let b = run_dup(base, &DupCase { cfg, wl, script: sc.clone(), sname: sn, dups: vec![] });
                let n = b.0.min(if thorough { 80 } else { 48 });
                for i in 0..n {
                    for d in &delays {
                        dup_cases.push(DupCase { cfg, wl, script: sc.clone(), sname: sn, dups: vec![(i, *d)] });
                    }
                }
                if thorough && *sn == "none" && cfg == "default" {
                    for i in 0..n.min(40) {
                        for j in (i + 1)..n.min(40) {
                            dup_cases.push(DupCase { cfg, wl, script: sc.clone(), sname: sn, dups: vec![(i, 15), (j, 40)] });
                        }
                    }
                }
            }
        }
    }
    let ndup = dup_cases.len();
    let (res, capped) = e3(dup_cases, dl, |c| run_dup(base, c));
    rep.exhaustive &= !capped;
    for (c, (_, trace, viol)) in &res {
        rep.evaluations += 1;
        rep.distinct.insert(*trace);
        for (sig, what) in viol {
            rep.violation(Violation {
                signature: sig.clone(),
                what: format!("cfg={} wl={:?} script={} duplicated datagrams (emission idx, delay ms)={:?}: {what}", c.cfg, c.wl, c.sname, c.dups),
                replay: json!({"check":"c04","kind":"dup","cfg":c.cfg,"wl":format!("{:?}",c.wl),"script":c.sname,"dups":c.dups}),
            });
        }
    }
    rep.part("duplicates", json!({"cases": ndup, "executed": res.len(), "delays_ms": delays, "capped": capped}));
    {
        let mut replays = 0u64;
        let mut cases = 0u64;
        for cfg in ["default", "idle30s", "keepalive", "cid0", "retry", "cidlife"] {
            for wl in [Wl::W1, Wl::W2, Wl::W8] {
                let (n, viol) = replay_at_rest(base, cfg, wl);
                replays += n;
                cases += 1;
                rep.evaluations += n;
                for (sig, what) in viol {
                    rep.violation(Violation { signature: sig, what: format!("cfg={cfg} wl={wl:?}: {what}"), replay: json!({"check":"c04","kind":"replay_at_rest","cfg":cfg,"wl":format!("{wl:?}")}) });
                }
            }
        }
        if replays == 0 {
            machinery("vacuity guard: no datagram was replayed at rest");
        }
        rep.part("replays_at_rest", json!({"cases": cases, "datagrams_replayed": replays}));
        let mut forged = 0u64;
        for cfg in ["default", "cid0", "keepalive"] {
            for closer in [CLIENT, SERVER] {
                let (n, viol) = forgeries_while_closing(base, cfg, closer);
                forged += n;
                rep.evaluations += n;
                for (sig, what) in viol {
                    rep.violation(Violation { signature: sig, what: format!("cfg={cfg}: {what}"), replay: json!({"check":"c04","kind":"forgeries_while_closing","cfg":cfg,"closer":closer}) });
                }
            }
        }
        if forged == 0 {
            machinery("vacuity guard: no forged datagram reached a closing connection");
        }
        rep.part("forgeries_while_closing", json!({"datagrams_forged": forged}));
    }
    rep.sample(json!({"kind":"dup","cfg":"default","wl":"W1","dups":[[0,15]],"meaning":"the connection-creating Initial (emission #0) is delivered a second time 15 ms after the first copy"}));

    // (b) corruptions, differential
    let mut muts: Vec<InjKind> = vec![];
    // every bit of the first byte (form, fixed bit, spin, reserved, key phase, packet number length / type)
    for bit in 0..8 {
        muts.push(InjKind::Flip { pos: 0, mask: 1 << bit });
    }
    let bits: &[u8] = if thorough { &[0x01, 0x02, 0x04, 0x08, 0x10, 0x20, 0x40, 0x80] } else { &[0x01, 0x80, 0x10] };
    for pos in 1..(if thorough { 32 } else { 24 }) {
        for &bit in bits {
            muts.push(InjKind::Flip { pos, mask: bit });
        }
    }
    for pos in 1..=16 {
        for &bit in if thorough { bits } else { &[0x01u8, 0x80][..] } {
            muts.push(InjKind::Flip { pos: -pos, mask: bit });
        }
    }
    let mut lens: Vec<usize> = vec![0, 1, 5, 9, 10, 20, 21, 22, 24, 25, 26, 27, 28, 29, 30, 40, 100, 600, 1199];
    if thorough {
        lens = (0..=64).chain([100, 600, 1199]).collect();
    }
    for len in lens {
        muts.push(InjKind::Truncate { len });
    }
    muts.push(InjKind::Extend { n: 1 });
    muts.push(InjKind::Extend { n: 16 });
    let mut inj_cases = vec![];
    let mut baselines = BTreeMap::new();
    let inj_cfgs: &[&'static str] = if thorough { &["default", "retry", "cid0", "cid20"] } else { &["default", "retry"] };
    for &cfg in inj_cfgs {
        let b = run_inj(base, &InjCase { cfg, wl: Wl::W1, after: 0, kind: InjKind::None });
        baselines.insert(cfg, (b.events, b.conn_emit.clone()));
        let n = run_dup(base, &DupCase { cfg, wl: Wl::W1, script: vec![], sname: "none", dups: vec![] }).0;
        for after in 0..n.min(if thorough { 60 } else { 30 }) {
            for m in &muts {
                inj_cases.push(InjCase { cfg, wl: Wl::W1, after, kind: m.clone() });
            }
            // thorough: every bit of every byte of the handshake datagrams (coalesced packets put
            // header fields at many offsets); positions past the end are reported as not injected
            if thorough && after < 14 && (cfg == "default" || cfg == "retry") {
                for pos in 32..1452i32 {
                    for &bit in bits {
                        inj_cases.push(InjCase { cfg, wl: Wl::W1, after, kind: InjKind::Flip { pos, mask: bit } });
                    }
                }
            }
        }
    }
    let ninj = inj_cases.len();
    let (res, capped) = e3(inj_cases, dl, |c| run_inj(base, c));
    rep.exhaustive &= !capped;
    let mut strict = 0u64;
    for (c, o) in &res {
        rep.evaluations += 1;
        if !o.injected {
            continue;
        }
        let mut h = std::collections::hash_map::DefaultHasher::new();
        (c.cfg, c.after, format!("{:?}", c.kind)).hash(&mut h);
        rep.distinct.insert(h.finish());
        let (bev, bem) = baselines[c.cfg].clone();
        let mut v = o.viol.clone();
        if o.events != bev {
            v.push(("inauthentic-changed-outcome".into(), "application-visible events differ from the run without the injected datagram".into()));
        }
        if o.established_at_injection {
            strict += 1;
            if !same_prefix(&o.conn_emit, &bem) {
                v.push(("inauthentic-changed-wire".into(), "after the handshake an inauthentic datagram changed what the connections emit".into()));
            }
        }
        for (sig, what) in v {
            rep.violation(Violation {
                signature: sig,
                what: format!("cfg={} mutated copy of datagram #{} ({:?}) injected: {what}", c.cfg, c.after, c.kind),
                replay: json!({"check":"c04","kind":"inj","cfg":c.cfg,"after":c.after,"mutation":format!("{:?}",c.kind)}),
            });
        }
    }
    // (b2) damaged instead of duplicated: the original of each early datagram is lost and only a
    // mutated copy arrives; the peers must recover
    {
        let mut cases2 = vec![];
        for cfg in ["default", "retry", "cid0", "cidlife"] {
            let wide = cfg == "default" || cfg == "retry";
            for after in 0..(if thorough { 40 } else if wide { 24 } else { 12 }) {
                for m in muts.iter().filter(|m| match m {
                    InjKind::Flip { pos, .. } => thorough || wide || *pos == 0 || *pos == -1 || *pos == 1 || *pos == 6,
                    InjKind::Truncate { len } => thorough || wide || [0usize, 20, 26, 600].contains(len),
                    _ => true,
                }) {
                    cases2.push(InjCase { cfg, wl: Wl::W1, after, kind: m.clone() });
                }
            }
        }
        let n2 = cases2.len();
        let (res2, capped2) = e3(cases2, dl, |c| run_replace(base, c));
        rep.exhaustive &= !capped2;
        for (c, o) in &res2 {
            rep.evaluations += 1;
            let mut h = std::collections::hash_map::DefaultHasher::new();
            ("replace", c.cfg, c.after, format!("{:?}", c.kind)).hash(&mut h);
            rep.distinct.insert(h.finish());
            for (sig, what) in &o.viol {
                rep.violation(Violation {
                    signature: sig.clone(),
                    what: format!("cfg={} datagram #{} damaged in transit ({:?}), original lost: {what}", c.cfg, c.after, c.kind),
                    replay: json!({"check":"c04","kind":"replace","cfg":c.cfg,"after":c.after,"mutation":format!("{:?}",c.kind)}),
                });
            }
        }
        rep.part("damaged_in_transit", json!({"cases": n2, "executed": res2.len(), "capped": capped2}));
    }
    rep.part("corruptions", json!({"cases": ninj, "executed": res.len(), "mutations_per_datagram": muts.len(), "strict_wire_comparisons": strict, "capped": capped}));
    rep.sample(json!({"kind":"inj","cfg":"default","after":12,"mutation":"Flip{pos:-3,mask:0x80}","meaning":"a copy of datagram #12 with one bit of its authentication tag flipped is delivered right after the original"}));

    // (c) probes
    let mut kinds = vec![
        ProbeKind::ResetExact,
        ProbeKind::ResetOtherCid,
        ProbeKind::ResetFromOtherAddr,
        ProbeKind::ResetShort,
        ProbeKind::VersionNeg { includes_ours: false },
        ProbeKind::VersionNeg { includes_ours: true },
        ProbeKind::RetryValid,
        ProbeKind::RetryTwice,
        ProbeKind::RetryAfterLoneInitial,
    ];
    for b in 0..128 {
        if thorough || b % 9 == 0 {
            kinds.push(ProbeKind::ResetBitFlip(b));
            kinds.push(ProbeKind::RetryBadTag(b));
        }
    }
    let baseline_plain = run_probe(base, &ProbeCase { rotating: false, target: CLIENT, at_step: 0, kind: ProbeKind::Nothing });
    let baseline_rot = run_probe(base, &ProbeCase { rotating: true, target: CLIENT, at_step: 0, kind: ProbeKind::Nothing });
    let mut probe_cases = vec![];
    let steps: Vec<u64> = if thorough { (0..40).collect() } else { vec![0, 1, 2, 3, 4, 6, 8, 12, 20, 30] };
    for target in [CLIENT, SERVER] {
        for &s in &steps {
            for k in &kinds {
                let client_only = matches!(k, ProbeKind::VersionNeg { .. } | ProbeKind::RetryValid | ProbeKind::RetryBadTag(_) | ProbeKind::RetryTwice | ProbeKind::RetryAfterLoneInitial);
                if client_only && target == SERVER {
                    continue;
                }
                probe_cases.push(ProbeCase { rotating: false, target, at_step: s, kind: k.clone() });
            }
        }
    }
    // the same reset probes while connection IDs are being rotated (NEW_CONNECTION_ID with
    // retire_prior_to): the token that counts is the one of the CID in use at that moment
    let rsteps: Vec<u64> = if thorough { (20..400).step_by(10).collect() } else { vec![40, 90, 130, 170, 210, 260, 320] };
    for target in [CLIENT, SERVER] {
        for &s in &rsteps {
            for k in [ProbeKind::ResetExact, ProbeKind::ResetSpareCid, ProbeKind::ResetOtherCid, ProbeKind::ResetBitFlip(77)] {
                probe_cases.push(ProbeCase { rotating: true, target, at_step: s, kind: k });
            }
        }
    }
    let nprobe = probe_cases.len();
    let (res, capped) = e3(probe_cases, dl, |c| run_probe(base, c));
    rep.exhaustive &= !capped;
    let mut resets_effective = 0u64;
    let mut retries_followed = 0u64;
    let mut vn_effective = 0u64;
    let mut lone_initial = 0u64;
    for (c, o) in &res {
        rep.evaluations += 1;
        if !o.applicable {
            continue;
        }
        if c.kind == ProbeKind::RetryAfterLoneInitial {
            lone_initial += 1;
        }
        let baseline = if c.rotating { &baseline_rot } else { &baseline_plain };
        let mut h = std::collections::hash_map::DefaultHasher::new();
        (c.rotating, c.target, c.at_step, format!("{:?}", c.kind)).hash(&mut h);
        rep.distinct.insert(h.finish());
        let mut v = o.viol.clone();
        let was_reset = o.lost_target.iter().any(|l| l == "Reset");
        match &c.kind {
            ProbeKind::ResetExact if !o.token_issued => {
                if !o.lost_target.is_empty() || !o.lost_other.is_empty() || o.events != baseline.events {
                    v.push(("unissued-reset-token-acted-on".into(), format!("a reset token that had not been conveyed to the target changed the outcome: lost={:?}", o.lost_target)));
                }
            }
            ProbeKind::ResetExact => {
                if was_reset {
                    resets_effective += 1;
                } else {
                    v.push(("exact-reset-token-ignored".into(), format!("a stateless reset with exactly the token issued for the CID in use did not end the connection (lost={:?})", o.lost_target)));
                }
            }
            ProbeKind::ResetBitFlip(_) | ProbeKind::ResetOtherCid | ProbeKind::ResetSpareCid | ProbeKind::ResetFromOtherAddr | ProbeKind::ResetShort => {
                if !o.lost_target.is_empty() || !o.lost_other.is_empty() || o.events != baseline.events {
                    v.push(("wrong-reset-token-acted-on".into(), format!("a datagram that is not a valid stateless reset changed the outcome: lost={:?}/{:?}", o.lost_target, o.lost_other)));
                }
            }
            ProbeKind::VersionNeg { includes_ours } => {
                let ended = o.lost_target.iter().any(|l| l == "VersionMismatch");
                if ended {
                    vn_effective += 1;
                }
                if *includes_ours && (ended || o.events != baseline.events) {
                    v.push(("vn-listing-our-version-acted-on".into(), "a Version Negotiation packet that lists the version in use changed the outcome".into()));
                }
                if !*includes_ours {
                    if o.server_packet_accepted_before && (ended || o.events != baseline.events) {
                        v.push(("late-vn-acted-on".into(), "a Version Negotiation packet arriving after a server packet was accepted changed the outcome".into()));
                    }
                    if !o.server_packet_accepted_before && !ended {
                        v.push(("early-vn-ignored".into(), "a Version Negotiation packet arriving before any server packet did not end the attempt".into()));
                    }
                }
            }
            ProbeKind::RetryBadTag(_) => {
                if o.retries_seen > 0 || o.events != baseline.events {
                    v.push(("retry-bad-tag-followed".into(), "a Retry whose integrity tag does not verify changed the client's behaviour".into()));
                }
            }
            ProbeKind::RetryValid | ProbeKind::RetryTwice | ProbeKind::RetryAfterLoneInitial => {
                if o.retries_seen > 0 {
                    retries_followed += 1;
                }
                if o.retries_seen > 1 {
                    v.push(("retry-followed-twice".into(), format!("the client followed {} Retry packets", o.retries_seen)));
                }
                if o.server_packet_accepted_before && o.retries_seen > 0 {
                    v.push(("late-retry-followed".into(), "a Retry arriving after a server packet was accepted was followed".into()));
                }
                if o.server_packet_accepted_before && o.events != baseline.events {
                    v.push(("late-retry-changed-outcome".into(), "a Retry arriving after a server packet was accepted changed the outcome".into()));
                }
            }
            ProbeKind::Nothing => {}
        }
        for (sig, what) in v {
            rep.violation(Violation {
                signature: format!("{sig}:{}", if c.target == CLIENT { "client" } else { "server" }),
                what: format!("target={} step={} probe={:?} cid-rotation={}: {what}", if c.target == CLIENT { "client" } else { "server" }, c.at_step, c.kind, c.rotating),
                replay: json!({"check":"c04","kind":"probe","target":c.target,"step":c.at_step,"probe":format!("{:?}",c.kind),"rotating":c.rotating}),
            });
        }
    }
    rep.part("probes", json!({"cases": nprobe, "executed": res.len(), "exact_resets_effective": resets_effective, "valid_retries_followed": retries_followed, "vn_effective": vn_effective, "retry_after_lone_initial_cases": lone_initial, "capped": capped}));
    if resets_effective == 0 || retries_followed == 0 || vn_effective == 0 || lone_initial == 0 {
        machinery("vacuity guard: no exact reset / valid Retry / early VN ever took effect — probe construction is wrong");
    }
    // (c2) the reset token remembered from a previous connection (session ticket) is not this connection's
    {
        let (n, vs) = stale_ticket_token_probes(base, thorough);
        rep.evaluations += n;
        for v in vs {
            rep.violation(v);
        }
        rep.part("stale_ticket_reset_token", json!({"cases": n}));
    }
    // (d) the replay window itself (Dedup) against the set of packet numbers seen, E1
    crate::checks::merge_comp(&mut rep, "C04", thorough, dl);
    rep.sample(json!({"kind":"probe","target":"client","step":20,"probe":"ResetBitFlip(9)","meaning":"a 46-byte datagram from the server's address ending in the reset token of the server CID in use with bit 9 flipped"}));
    rep.assumptions = vec![
        "model TLS: a keyed 128-bit tag over (key, packet number, header, payload) stands in for the AEAD; forgery = any change of authenticated bytes".into(),
        "cross-connection splices are covered by C09".into(),
    ];
    let _ = ledger::count_key;
    rep.finish()
}

pub fn replay(args: &Args) -> ! {
    let path = args.replay.as_ref().unwrap();
    let v: Value = serde_json::from_str(&std::fs::read_to_string(path).unwrap_or_else(|e| machinery(&format!("{e}")))).unwrap_or_else(|e| machinery(&format!("{e}")));
    if let Some(out) = crate::checks::replay_comp(&v) {
        println!("{out}");
        std::process::exit(0)
    }
    let r = &v["replay"];
    let base = Instant::now();
    match r["kind"].as_str().unwrap_or("") {
        "dup" => {
            let cfgname: &'static str = Box::leak(r["cfg"].as_str().unwrap().to_string().into_boxed_str());
            let cfg = cfg_by_name(cfgname);
            let wl = crate::scen::wl_from_str(r["wl"].as_str().unwrap());
            let script = match r["script"].as_str().unwrap_or("none") {
                "keyupd-c@18" => vec![(18, Op::KeyUpdate(CLIENT))],
                "keyupd-s@22" => vec![(22, Op::KeyUpdate(SERVER))],
                _ => vec![],
            };
            let mut p = std_pair_pre(base, &cfg, wl, ReadMode::default(), |w| {
                for d in r["dups"].as_array().unwrap() {
                    w.fates.insert(d[0].as_u64().unwrap(), Fate::Dup(Duration::from_micros(d[1].as_u64().unwrap() * 1000 + 1)));
                }
            });
            let done = drive(&mut p, &script, 60_000, HZ);
            print!("{}", crate::trace::dump(&p.w));
            let mut v = vec![];
            amo_violations(&p, &mut v);
            println!("done={done} at-most-once violations={v:?} integrity={:?}", integrity(&p));
            for (node, name) in [(SERVER, "server"), (CLIENT, "client")] {
                let n = &p.w.nodes[node];
                for s in n.conns.values().chain(n.dead.iter().map(|(_, s)| s)) {
                    println!("{name} frame_rx={:?}", s.conn.stats().frame_rx);
                }
                println!("{name} frames on the wire={:?}", emitted_frame_counts(&p.w, node));
            }
        }
        "inj" => {
            DUMP.store(true, std::sync::atomic::Ordering::Relaxed);
            let cfgname: &'static str = Box::leak(r["cfg"].as_str().unwrap().to_string().into_boxed_str());
            let kind = parse_inj(r["mutation"].as_str().unwrap());
            println!("==== baseline ====");
            let b = run_inj(base, &InjCase { cfg: cfgname, wl: Wl::W1, after: 0, kind: InjKind::None });
            println!("==== with injection ====");
            let o = run_inj(base, &InjCase { cfg: cfgname, wl: Wl::W1, after: r["after"].as_u64().unwrap(), kind });
            println!("events equal={} conn_emit equal={} established_at_injection={} viol={:?}", b.events == o.events, same_prefix(&b.conn_emit, &o.conn_emit), o.established_at_injection, o.viol);
        }
        "replace" => {
            DUMP.store(true, std::sync::atomic::Ordering::Relaxed);
            let cfgname: &'static str = Box::leak(r["cfg"].as_str().unwrap().to_string().into_boxed_str());
            let kind = parse_inj(r["mutation"].as_str().unwrap());
            let o = run_replace(base, &InjCase { cfg: cfgname, wl: Wl::W1, after: r["after"].as_u64().unwrap(), kind });
            println!("viol={:?}", o.viol);
        }
        "probe" => {
            DUMP.store(true, std::sync::atomic::Ordering::Relaxed);
            let kind = parse_probe(r["probe"].as_str().unwrap());
            let o = run_probe(base, &ProbeCase { rotating: r["rotating"].as_bool().unwrap_or(false), target: r["target"].as_u64().unwrap() as usize, at_step: r["step"].as_u64().unwrap(), kind });
            println!("lost_target={:?} lost_other={:?} done={} retries_seen={} applicable={} accepted_before={} token_issued={} viol={:?}", o.lost_target, o.lost_other, o.done, o.retries_seen, o.applicable, o.server_packet_accepted_before, o.token_issued, o.viol);
        }
        other => {
            println!("unknown replay kind {other}: {r}");
        }
    }
    std::process::exit(0)
}

fn nums(s: &str) -> Vec<i64> {
    let mut out = vec![];
    let mut cur = String::new();
    for ch in s.chars() {
        if ch.is_ascii_digit() || (ch == '-' && cur.is_empty()) {
            cur.push(ch);
        } else {
            if !cur.is_empty() && cur != "-" {
                out.push(cur.parse().unwrap());
            }
            cur.clear();
        }
    }
    if !cur.is_empty() && cur != "-" {
        out.push(cur.parse().unwrap());
    }
    out
}

fn parse_inj(s: &str) -> InjKind {
    let n = nums(s);
    if s.starts_with("Flip") {
        InjKind::Flip { pos: n[0] as i32, mask: n[1] as u8 }
    } else if s.starts_with("Truncate") {
        InjKind::Truncate { len: n[0] as usize }
    } else if s.starts_with("Extend") {
        InjKind::Extend { n: n[0] as usize }
    } else {
        InjKind::None
    }
}

fn parse_probe(s: &str) -> ProbeKind {
    let n = nums(s);
    match s {
        "ResetExact" => ProbeKind::ResetExact,
        "ResetOtherCid" => ProbeKind::ResetOtherCid,
        "ResetSpareCid" => ProbeKind::ResetSpareCid,
        "ResetFromOtherAddr" => ProbeKind::ResetFromOtherAddr,
        "ResetShort" => ProbeKind::ResetShort,
        "RetryValid" => ProbeKind::RetryValid,
        "RetryTwice" => ProbeKind::RetryTwice,
        "RetryAfterLoneInitial" => ProbeKind::RetryAfterLoneInitial,
        x if x.starts_with("ResetBitFlip") => ProbeKind::ResetBitFlip(n[0] as usize),
        x if x.starts_with("RetryBadTag") => ProbeKind::RetryBadTag(n[0] as usize),
        x if x.starts_with("VersionNeg") => ProbeKind::VersionNeg { includes_ours: x.contains("true") },
        _ => ProbeKind::Nothing,
    }
}
