//! C09 — datagrams reach the right connection; connections are isolated.

use std::{
    collections::BTreeMap,
    sync::Arc,
    time::{Duration, Instant},
};

use proto::{ConnectionHandle, Dir, Side, VarInt};
use serde_json::{json, Value};

use crate::{
    app::{End, Plan, ReadMode, StdApp, StreamPlan},
    explore::{self, deadline, e2, fates_of, guarded, Devs, RunOut, FATE_ALTS, FATE_ALTS3},
    mtls,
    report::{machinery, Args, Report, Tier, Violation},
    scen::cfg_by_name,
    sim::{client_config, server_config, AcceptPolicy, Fate, PairCfg, Rec, Routed, World},
};

const SERVER: usize = 0;
static RESETS: std::sync::atomic::AtomicU64 = std::sync::atomic::AtomicU64::new(0);

#[derive(Clone, Debug)]
pub struct Scn {
    pub name: String,
    pub cid_len: usize,
    pub cid_lifetime_ms: Option<u64>,
    /// (step, connection index) -> local_address_changed on that client connection
    pub addr_changed: Vec<(u64, usize)>,
    /// (step, connection index) -> close that client connection
    pub close: Vec<(u64, usize)>,
    /// open a fourth connection at this step
    pub fourth_at: Option<u64>,
    pub window: (u64, u64),
    /// two client endpoints share the same address tuple towards the server (zero-length CIDs)
    pub same_client_endpoint_twice: bool,
    /// open the fourth connection as soon as the server has forgotten a closed one (handle reuse
    /// while stale datagrams of the old connection are still in flight)
    pub fourth_when_forgotten: bool,
    /// extra fate: delay by this long (stale datagrams outliving their connection)
    pub long_delay_ms: Option<u64>,
    /// the very first datagram of the run (a client's first Initial) is damaged in transit: the
    /// original is lost, a copy with one authenticated bit flipped arrives instead
    pub damaged_first: bool,
    /// the server validates addresses with Retry (every client's second Initial carries the
    /// connection ID the Retry gave it - an empty one when the server uses zero-length CIDs)
    pub retry: bool,
    /// the server's stateless reset for a connection reaches the client 1 ms after that client closed
    /// it (a peer that lost its state): the connection drains early, while its close timer is running
    pub reset_after_close: bool,
    /// the server advertises a preferred address (with a connection ID of its own, conveyed in the
    /// transport parameters only)
    pub preferred: bool,
}

fn plan(len: usize) -> Plan {
    Plan { streams: vec![StreamPlan { dir: Dir::Uni, len, chunk: 1100, end: End::Finish }], read: ReadMode::default(), ..Default::default() }
}

const LENS: [usize; 4] = [5000, 3100, 4200, 2700];

pub struct MW {
    pub w: World<StdApp>,
    /// client connections in creation order: (node, handle)
    pub conns: Vec<(usize, ConnectionHandle)>,
    /// never-reused identity of each of them (handles are reused once a connection is forgotten)
    pub serials: Vec<u64>,
    pub cfg: PairCfg,
    pub keylog: Arc<mtls::KeyLog>,
}

/// The slot of client connection `i`, alive or dead, by its never-reused serial
fn slot_i(m: &MW, i: usize) -> Option<&crate::sim::Slot<StdApp>> {
    let (n, ch) = m.conns[i];
    let ser = m.serials[i];
    m.w.nodes[n].conns.get(&ch).filter(|s| s.serial == ser).or_else(|| m.w.nodes[n].dead.iter().map(|(_, s)| s).find(|s| s.serial == ser))
}

pub fn build(base: Instant, s: &Scn, fates: BTreeMap<u64, Fate>) -> MW {
    let mut cfg = cfg_by_name("default");
    cfg.cid_len = s.cid_len;
    cfg.preferred_address = s.preferred;
    cfg.cid_lifetime = s.cid_lifetime_ms.map(Duration::from_millis);
    let mut w = World::new(base, Box::new(move |_, _| StdApp::new(Side::Server, Plan::default())));
    w.fates = fates;
    w.keep_data = true;
    w.latency = cfg.latency;
    let keylog = Arc::new(mtls::KeyLog::default());
    let sc = server_config(&cfg, keylog.clone(), w.sim_time.clone());
    let srv = w.add_node(1, cfg.cid_len, cfg.cid_lifetime, Some(Arc::new(sc)), |_| {});
    assert_eq!(srv, SERVER);
    if s.retry {
        w.nodes[SERVER].policy = crate::sim::AcceptPolicy::Retry;
    }
    // connections that have drained keep getting their timers serviced, as by a driver that does not
    // drop them at once; whatever they still emit is recorded
    w.linger_dead = s.reset_after_close;
    let x = w.add_node(2, cfg.cid_len, cfg.cid_lifetime, None, |_| {});
    let y = w.add_node(3, cfg.cid_len, cfg.cid_lifetime, None, |_| {});
    let mut conns = vec![];
    let mut serials = vec![];
    // endpoint X opens two connections, endpoint Y one. With zero-length CIDs a client endpoint
    // can only have one connection per remote, so X's second connection moves to a third endpoint.
    let third = if s.cid_len == 0 { Some(w.add_node(4, 0, None, None, |_| {})) } else { None };
    for (i, node) in [x, third.unwrap_or(x), y].into_iter().enumerate() {
        let cc = client_config(&cfg, keylog.clone(), 0xc0 + i as u8);
        let ch = w.connect(node, SERVER, cc, StdApp::new(Side::Client, plan(LENS[i])));
        w.settle_conn(node, ch);
        conns.push((node, ch));
        serials.push(w.nodes[node].conns[&ch].serial);
    }
    MW { w, conns, serials, cfg, keylog }
}

pub struct Out {
    pub points: u64,
    pub trace: u64,
    pub viol: Vec<(String, String)>,
    pub routed_checked: u64,
    pub resets_sent: u64,
}

pub fn run(base: Instant, s: &Scn, devs: &Devs, alts: &[Fate], dump: bool) -> Out {
    let r = guarded(|| {
        let mut fates = fates_of(devs, alts);
        if s.damaged_first {
            fates.insert(0, Fate::Drop);
        }
        let mut m = build(base, s, fates);
        if s.damaged_first {
            let first = m.w.recs.iter().find_map(|r| match r {
                Rec::Emit { idx: 0, data, src, dst, .. } => Some((data.clone(), *src, *dst)),
                _ => None,
            });
            if let Some((mut d, src, dst)) = first {
                let n = d.len();
                d[n - 3] ^= 0x20;
                let lat = m.w.latency;
                m.w.inject(src, dst, d, lat);
            }
        }
        let mut closed: Vec<usize> = vec![];
        let mut fourth_done = false;
        let hz = Duration::from_secs(120);
        loop {
            for (st, ci) in &s.addr_changed {
                if *st == m.w.steps {
                    let (n, ch) = m.conns[*ci];
                    if let Some(sl) = m.w.nodes[n].conns.get_mut(&ch) {
                        sl.conn.local_address_changed();
                    }
                    m.w.settle_conn(n, ch);
                }
            }
            for (st, ci) in &s.close {
                if *st == m.w.steps && !closed.contains(ci) {
                    closed.push(*ci);
                    let (n, ch) = m.conns[*ci];
                    let now = m.w.now();
                    let mut reset: Option<Vec<u8>> = None;
                    let sseed = m.w.nodes[SERVER].seed;
                    if let Some(sl) = m.w.nodes[n].conns.get_mut(&ch) {
                        if s.reset_after_close {
                            let cid = sl.conn.verif_probe().rem_cid;
                            if !cid.is_empty() {
                                let tok = crate::sim::reset_token_for(sseed, &cid);
                                let mut d: Vec<u8> = (0..30).map(|k| 0x40 | ((k * 7) as u8 & 0x3f)).collect();
                                d.extend_from_slice(&tok);
                                reset = Some(d);
                            }
                        }
                        sl.conn.close(now, VarInt::from_u32(5), bytes::Bytes::from_static(b"done"));
                    }
                    m.w.settle_conn(n, ch);
                    if let Some(d) = reset {
                        let (src, dst) = (m.w.nodes[SERVER].addr, m.w.nodes[n].addr);
                        m.w.inject(src, dst, d, Duration::from_millis(1));
                    }
                }
            }
            let forgotten = s.fourth_when_forgotten && !closed.is_empty() && m.w.nodes[SERVER].ep.open_connections() < 3 && !m.w.nodes[SERVER].dead.is_empty();
            if s.fourth_at.is_some() || s.fourth_when_forgotten {
                let f = s.fourth_at.unwrap_or(u64::MAX);
                if !fourth_done && (m.w.steps >= f || forgotten) {
                    fourth_done = true;
                    // (with a reset after the close: on the endpoint whose connection was closed, so that
                    // the new connection takes over the freed handle there)
                    let node = if s.reset_after_close { closed.first().map_or(m.conns[2].0, |ci| m.conns[*ci].0) } else { m.conns[2].0 };
                    let cc = client_config(&m.cfg, m.keylog.clone(), 0xcf);
                    let ch = m.w.connect(node, SERVER, cc, StdApp::new(Side::Client, plan(LENS[3])));
                    m.w.settle_conn(node, ch);
                    m.conns.push((node, ch));
                    m.serials.push(m.w.nodes[node].conns[&ch].serial);
                }
            }
            let all_done = m.conns.iter().enumerate().all(|(i, (n, ch))| {
                closed.contains(&i) || { let _ = (n, ch); slot_i(&m, i).map_or(false, |sl| sl.app.tx_complete() && sl.app.obs.connected) }
            }) && (s.fourth_at.is_none() && !s.fourth_when_forgotten || fourth_done);
            if all_done && m.w.net.is_empty() && s.close.iter().all(|(st, _)| m.w.steps > *st) {
                break;
            }
            if m.w.steps > 40_000 {
                break;
            }
            match m.w.next_event() {
                None => break,
                Some((at, _)) if at > hz => break,
                _ => {}
            }
            m.w.step();
        }
        // ---- forgotten connections: once the server endpoint has drained a connection, none of
        // the connection IDs that connection ever had may route anywhere. One datagram per
        // (connection, destination CID) is presented again.
        let oracle_upto = m.w.recs.len();
        let mut stale = vec![];
        {
            let dead_serials: Vec<u64> = m.w.nodes[SERVER].dead.iter().map(|(_, sl)| sl.serial).collect();
            let scl = m.w.nodes[SERVER].cid_len;
            let mut first_to: BTreeMap<u64, u64> = BTreeMap::new(); // emission idx -> server serial it was handed to
            for r in &m.w.recs {
                if let Rec::Deliver { idx, node, to_serial: Some(ts), .. } = r {
                    if *node == SERVER {
                        first_to.entry(*idx).or_insert(*ts);
                    }
                }
            }
            let mut seen: std::collections::BTreeSet<(u64, Vec<u8>)> = Default::default();
            let mut probes = vec![];
            for r in &m.w.recs {
                if let Rec::Emit { idx, node, src, dst, data, .. } = r {
                    if *node == SERVER || data.is_empty() || *dst != m.w.nodes[SERVER].addr {
                        continue;
                    }
                    let Some(ts) = first_to.get(idx) else { continue };
                    if !dead_serials.contains(ts) {
                        continue;
                    }
                    let (pk, _) = crate::wire::parse_datagram(data, scl);
                    let Some(first) = pk.first() else { continue };
                    // (with zero-length connection IDs the route is the address pair: one probe per
                    // source address the dead connection used)
                    let key = if first.dcid.is_empty() { format!("{src}").into_bytes() } else { first.dcid.clone() };
                    if !seen.insert((*ts, key)) {
                        continue;
                    }
                    probes.push((*ts, first.dcid.clone(), *src, *dst, data.clone()));
                }
            }
            for (ts, dcid, src, dst, data) in probes {
                let mark = m.w.recs.len();
                m.w.inject(src, dst, data, Duration::ZERO);
                let mut g = 0;
                while m.w.net.iter().any(|f| f.injected) && g < 50 {
                    m.w.step();
                    g += 1;
                }
                for r in &m.w.recs[mark..] {
                    // (a replayed Initial legitimately starts a new connection attempt; only delivery
                    // to an existing connection counts)
                    if let Rec::Deliver { injected: true, to_serial: Some(now_to), routed: routed @ Routed::Conn(_), .. } = r {
                        stale.push((ts, dcid.clone(), *now_to, format!("{routed:?}")));
                    }
                }
            }
        }
        // ---- stateless resets belong to connections too: for every client connection still alive,
        // the server's stateless reset for the connection ID that connection uses must reach exactly
        // that connection (whatever happened to its neighbours on the same endpoint meanwhile)
        let pre_lost: Vec<bool> = (0..m.conns.len()).map(|i| slot_i(&m, i).map_or(true, |sl| !sl.app.obs.lost.is_empty())).collect();
        let mut reset_viol = vec![];
        let mut resets_sent = 0u64;
        {
            // let closed connections finish draining at their own endpoint first
            let limit = m.w.t + Duration::from_secs(10);
            let mut g = 0;
            while g < 4000 && closed.iter().any(|ci| m.w.nodes[m.conns[*ci].0].conns.contains_key(&m.conns[*ci].1)) {
                g += 1;
                match m.w.next_event() {
                    Some((at, _)) if at <= limit => {
                        m.w.step();
                    }
                    _ => break,
                }
            }
            let srv_seed = m.w.nodes[SERVER].seed;
            let srv_addr = m.w.nodes[SERVER].addr;
            for i in 0..m.conns.len() {
                let (n, ch) = m.conns[i];
                if closed.contains(&i) || pre_lost[i] {
                    continue;
                }
                let Some(sl) = m.w.nodes[n].conns.get(&ch) else { continue };
                if sl.conn.is_handshaking() || sl.conn.is_closed() {
                    continue;
                }
                let cid = sl.conn.verif_probe().rem_cid;
                if cid.is_empty() {
                    continue;
                }
                let tok = crate::sim::reset_token_for(srv_seed, &cid);
                let mut d: Vec<u8> = (0..30).map(|k| 0x40 | ((k * 7 + i) as u8 & 0x3f)).collect();
                d.extend_from_slice(&tok);
                let dst = m.w.nodes[n].addr;
                let others_before: Vec<usize> = (0..m.conns.len()).filter(|j| *j != i).map(|j| slot_i(&m, j).map_or(0, |s| s.app.obs.lost.len())).collect();
                let seq = m.w.seq;
                m.w.seq += 1;
                let at = m.w.t;
                m.w.deliver(crate::sim::Flight { at, seq, idx: u64::MAX, src: srv_addr, dst, ecn: None, data: d, injected: true });
                resets_sent += 1;
                let got = slot_i(&m, i).map_or(vec![], |s| s.app.obs.lost.iter().map(|e| format!("{e:?}")).collect::<Vec<_>>());
                if !got.iter().any(|l| l.contains("Reset")) {
                    reset_viol.push(("stateless-reset-not-routed".into(), format!("client connection {i} (node{n}, remote CID {cid:02x?}): the server's stateless reset for that CID did not reach it (lost={got:?})")));
                }
                let others_after: Vec<usize> = (0..m.conns.len()).filter(|j| *j != i).map(|j| slot_i(&m, j).map_or(0, |s| s.app.obs.lost.len())).collect();
                if others_before != others_after {
                    reset_viol.push(("stateless-reset-hit-other-connection".into(), format!("the stateless reset for client connection {i} ended another connection")));
                }
            }
        }
        // ---- finally every connection is closed and drained: no connection ID the server's generator
        // ever produced (whether it travelled in a frame or only in the transport parameters) may
        // route anywhere
        {
            let now = m.w.now();
            for n in 0..m.w.nodes.len() {
                let chs: Vec<ConnectionHandle> = m.w.nodes[n].conns.keys().copied().collect();
                for ch in chs {
                    if let Some(sl) = m.w.nodes[n].conns.get_mut(&ch) {
                        sl.conn.close(now, VarInt::from_u32(1), bytes::Bytes::from_static(b"end"));
                    }
                    m.w.settle_conn(n, ch);
                }
            }
            let limit = m.w.t + Duration::from_secs(30);
            let mut g = 0;
            while g < 6000 && m.w.nodes.iter().any(|nd| !nd.conns.is_empty()) {
                g += 1;
                match m.w.next_event() {
                    Some((at, _)) if at <= limit => {
                        m.w.step();
                    }
                    _ => break,
                }
            }
            let cl = m.w.nodes[SERVER].cid_len;
            if cl == 0 && m.w.nodes[SERVER].conns.is_empty() {
                // zero-length connection IDs: the route is the address pair; one short-header datagram
                // from every address a client ever used must reach nobody
                m.w.nodes[SERVER].policy = AcceptPolicy::Ignore;
                let dst = m.w.nodes[SERVER].addr;
                let srcs: std::collections::BTreeSet<std::net::SocketAddr> = m.w.recs.iter().filter_map(|r| match r {
                    Rec::Emit { node, src, dst: d, ch: Some(_), .. } if *node != SERVER && *d == dst => Some(*src),
                    _ => None,
                }).collect();
                for src in srcs {
                    let mut d = vec![0x43u8];
                    d.extend((0..40).map(|i| (i * 11 + 3) as u8));
                    let at = m.w.t;
                    let r = m.w.deliver(crate::sim::Flight { at, seq: 0, idx: u64::MAX, src, dst, ecn: None, data: d, injected: true });
                    if let Routed::Conn(ch) = r {
                        reset_viol.push(("forgotten-address-routes".into(), format!("zero-length connection IDs: after every connection was closed and drained, a datagram from {src} was handed to connection handle {}", ch.0)));
                        break;
                    }
                }
            }
            if cl > 0 && m.w.nodes[SERVER].conns.is_empty() {
                m.w.nodes[SERVER].policy = AcceptPolicy::Ignore;
                let (src, dst) = (m.w.nodes[1].addr, m.w.nodes[SERVER].addr);
                for n in 0..(if cl == 1 { 256u64 } else { 120 }) {
                    let mut g = crate::sim::CounterCid { len: cl, next: n, tag: m.w.nodes[SERVER].seed, lifetime: None };
                    let cid = proto::ConnectionIdGenerator::generate_cid(&mut g);
                    let mut d = vec![0x43u8];
                    d.extend_from_slice(&cid);
                    d.extend((0..30).map(|i| (i * 11 + 3) as u8));
                    let at = m.w.t;
                    let r = m.w.deliver(crate::sim::Flight { at, seq: 0, idx: u64::MAX, src, dst, ecn: None, data: d, injected: true });
                    if let Routed::Conn(ch) = r {
                        reset_viol.push(("forgotten-connection-id-routes".into(), format!("after every connection was closed and drained, a datagram addressed to connection ID {:02x?} (the {n}-th the server generated) was handed to connection handle {}", &cid[..], ch.0)));
                        break;
                    }
                }
            }
        }
        (m, closed, stale, pre_lost, reset_viol, resets_sent, oracle_upto)
    });
    match r {
        Err(e) => Out { points: 0, trace: 0, viol: vec![("panic".into(), format!("panic: {e}"))], routed_checked: 0, resets_sent: 0 },
        Ok((m, closed, stale, pre_lost, reset_viol, resets_sent, oracle_upto)) => {
            if dump {
                print!("{}", crate::trace::dump(&m.w));
            }
            let mut viol = vec![];
            for (ts, dcid, now_to, routed) in &stale {
                viol.push(("forgotten-connection-id-still-routes".into(), format!("connection node0/s{ts} has drained and was forgotten by the server endpoint, yet a datagram addressed to its connection ID {dcid:02x?} is handed to connection node0/s{now_to} ({routed})")));
            }
            // ---- routing oracle over every Endpoint::handle call, on connection identities
            // (node, serial) that are never reused, unlike handles
            let mut emitted: BTreeMap<u64, (usize, Option<u64>, Option<ConnectionHandle>)> = BTreeMap::new();
            let mut peer_of: BTreeMap<(usize, u64), (usize, u64)> = BTreeMap::new();
            let mut to_server: BTreeMap<(usize, usize), ConnectionHandle> = BTreeMap::new();
            let mut server_serial_of: BTreeMap<(usize, usize), u64> = BTreeMap::new();
            let mut checked = 0u64;
            // (the probes after the end of the scenario replay old datagrams on purpose)
            for r in &m.w.recs[..oracle_upto] {
                match r {
                    Rec::Emit { idx, node, serial, ch, .. } => {
                        emitted.insert(*idx, (*node, *serial, *ch));
                    }
                    Rec::Deliver { idx, node, routed, t, to_serial, .. } => {
                        let Some((from, Some(from_serial), Some(from_ch))) = emitted.get(idx).copied() else { continue };
                        checked += 1;
                        let me = (from, from_serial);
                        match (routed, to_serial) {
                            (Routed::New(Some(sch)), Some(ts)) => {
                                if let Some(p) = peer_of.get(&me) {
                                    viol.push(("second-connection-created".into(), format!("at {t:?} a datagram of connection node{from}/s{from_serial} (already paired with {p:?}) created another server connection #{}", sch.0)));
                                } else {
                                    peer_of.insert(me, (*node, *ts));
                                    peer_of.insert((*node, *ts), me);
                                    to_server.insert((from, from_ch.0), *sch);
                                    server_serial_of.insert((from, from_ch.0), *ts);
                                }
                            }
                            (Routed::Conn(x), Some(ts)) => match peer_of.get(&me) {
                                Some(p) if *p == (*node, *ts) => {}
                                Some(p) => viol.push(("misrouted-to-other-connection".into(), format!("at {t:?} a datagram produced by connection node{from}/s{from_serial} (peer {p:?}) was handed to connection node{node}/s{ts} (handle #{})", x.0))),
                                None => viol.push(("misrouted-to-other-connection".into(), format!("at {t:?} a datagram of connection node{from}/s{from_serial}, which has no peer connection yet, was handed to existing connection node{node}/s{ts} (handle #{})", x.0))),
                            },
                            _ => {}
                        }
                    }
                    _ => {}
                }
            }
            // ---- isolation and integrity per connection
            for (i, (n, ch)) in m.conns.iter().enumerate() {
                let Some(sl) = slot_i(&m, i) else { continue };
                for v in &sl.app.obs.violations {
                    viol.push(("app-oracle".into(), format!("client connection {i}: {v}")));
                }
                if closed.contains(&i) {
                    continue;
                }
                if pre_lost[i] {
                    viol.push(("bystander-lost".into(), format!("client connection {i} (never closed by anyone) was lost: {:?}", sl.app.obs.lost)));
                } else if !(sl.app.tx_complete() && sl.app.obs.connected) {
                    viol.push(("bystander-incomplete".into(), format!("client connection {i} did not complete its transfer (connected={}, tx={:?})", sl.app.obs.connected, sl.app.obs.tx.values().map(|t| (t.written, t.finished_events)).collect::<Vec<_>>())));
                }
                // the server side of this connection obtained exactly this connection's bytes
                if let Some(sch) = to_server.get(&(*n, ch.0)) {
                    if let Some(ss) = m.w.slot(SERVER, *sch) {
                        let got: u64 = ss.app.obs.rx.values().map(|r| r.bytes).sum();
                        let fin = ss.app.obs.rx.values().all(|r| r.fin);
                        let same = server_serial_of.get(&(*n, ch.0)) == Some(&ss.serial);
                        if same && (got != LENS[i] as u64 || !fin) {
                            viol.push(("wrong-bytes-at-server".into(), format!("server connection #{} paired with client connection {i} obtained {got} bytes (fin={fin}), that client wrote {}", sch.0, LENS[i])));
                        }
                        for v in &ss.app.obs.violations {
                            viol.push(("app-oracle".into(), format!("server connection #{}: {v}", sch.0)));
                        }
                    }
                }
            }
            if let Some(o) = m.w.post_drain_output.first() {
                viol.push(("drained-connection-still-emits".into(), format!("a connection that had reported Drained (its handle is free for the next connection) produced more output when its timers were serviced: {o} ({} items)", m.w.post_drain_output.len())));
            }
            RESETS.fetch_add(resets_sent, std::sync::atomic::Ordering::Relaxed);
            viol.extend(reset_viol);
            viol.truncate(6);
            Out { points: m.w.emitted, trace: m.w.trace_hash(), viol, routed_checked: checked, resets_sent }
        }
    }
}

pub fn scenarios(thorough: bool) -> Vec<Scn> {
    let mut v = vec![];
    let mk = |name: &str, cid_len: usize| Scn { name: name.into(), cid_len, cid_lifetime_ms: None, addr_changed: vec![], close: vec![], fourth_at: None, window: (0, 30), same_client_endpoint_twice: false, fourth_when_forgotten: false, long_delay_ms: None, damaged_first: false, retry: false, reset_after_close: false, preferred: false };
    for l in [8usize, 0, 1, 4, 20] {
        v.push(mk(&format!("cid{l}"), l));
    }
    let mut s = mk("rotation200ms", 8);
    s.cid_lifetime_ms = Some(200);
    s.window = (6, 36);
    v.push(s);
    let mut s = mk("addr-changed", 8);
    s.addr_changed = vec![(30, 0), (36, 2), (44, 0), (50, 1)];
    s.window = (24, 54);
    v.push(s);
    let mut s = mk("rotation+addr-changed", 8);
    s.cid_lifetime_ms = Some(200);
    s.addr_changed = vec![(32, 0), (40, 1), (60, 0)];
    s.window = (26, 56);
    v.push(s);
    let points: Vec<u64> = if thorough { vec![4, 10, 16, 22, 28, 34, 40, 50, 60, 80] } else { vec![10, 28, 50] };
    for p in points {
        for which in [0usize, 1, 2] {
            if !thorough && which == 2 && p != 28 {
                continue;
            }
            let mut s = mk(&format!("close{which}@{p}+fourth"), 8);
            s.close = vec![(p, which)];
            s.fourth_at = Some(p + 30);
            s.window = (p.saturating_sub(6), p + 24);
            v.push(s);
        }
    }
    // stale datagrams: the first connection switches CIDs, is closed, the server forgets it and a
    // new connection takes over its handle while old datagrams are still in flight (delayed 3 s)
    for cl in [8usize, 4] {
        let mut s = mk(&format!("stale-after-reuse-cid{cl}"), cl);
        s.addr_changed = vec![(26, 0)];
        s.close = vec![(44, 0)];
        s.fourth_when_forgotten = true;
        s.long_delay_ms = Some(3000);
        s.window = (8, 44);
        v.push(s);
    }
    // CIDs are rotated (retired at the peer's limit), then the connection closes, drains and a new
    // one reuses its handle
    for (cl, at) in [(8usize, 150u64), (4, 220)] {
        let mut s = mk(&format!("rotation+close0@{at}+fourth-cid{cl}"), cl);
        s.cid_lifetime_ms = Some(200);
        s.close = vec![(at, 0)];
        s.fourth_at = Some(at + 40);
        s.window = (at.saturating_sub(10), at + 20);
        v.push(s);
    }
    for cl in [8usize, 0, 20] {
        let mut s = mk(&format!("first-initial-damaged-cid{cl}"), cl);
        s.damaged_first = true;
        s.window = (1, 24);
        v.push(s);
    }
    // address validation by Retry for every CID length (with zero-length CIDs the post-Retry
    // Initials of all clients carry the same, empty, destination CID)
    for cl in [0usize, 8, 1, 20] {
        let mut s = mk(&format!("retry-cid{cl}"), cl);
        s.retry = true;
        s.window = (0, 30);
        v.push(s);
    }
    let mut s = mk("retry-cid8-close1@30+fourth", 8);
    s.retry = true;
    s.close = vec![(30, 1)];
    s.fourth_at = Some(60);
    s.window = (24, 54);
    v.push(s);
    // a closing connection is drained early by its peer's stateless reset; a new connection then
    // takes over its handle while the old connection object is still being serviced
    for (which, at) in [(0usize, 28u64), (1, 40)] {
        let mut s = mk(&format!("close{which}@{at}+reset+fourth"), 8);
        s.close = vec![(at, which)];
        s.reset_after_close = true;
        s.fourth_at = Some(at + 8);
        s.window = (at.saturating_sub(4), at + 20);
        v.push(s);
    }
    let mut s = mk("cid0-close1@30", 0);
    s.close = vec![(30, 1)];
    s.window = (26, 40);
    v.push(s);
    let mut s = mk("cid8-preferred-address", 8);
    s.preferred = true;
    v.push(s);
    let mut s = mk("cid8-preferred-address+close1@30+fourth", 8);
    s.preferred = true;
    s.close = vec![(30, 1)];
    s.fourth_at = Some(38);
    s.window = (26, 46);
    v.push(s);
    let mut s = mk("cid4-close+fourth", 4);
    s.close = vec![(20, 0), (26, 1)];
    s.fourth_at = Some(70);
    s.window = (14, 44);
    v.push(s);
    v
}

pub fn main(args: &Args) -> ! {
    if args.replay.is_some() {
        replay(args);
    }
    explore::quiet_panics();
    let base = Instant::now();
    let mut rep = Report::new("C09", args, "fault_enumeration");
    let thorough = args.tier == Tier::Thorough;
    let dl = deadline(if thorough { 1500 } else { 50 });
    let k = 2;
    let alts: &[Fate] = if thorough { &FATE_ALTS } else { &FATE_ALTS3 };
    rep.rule = format!("E2 on one real server endpoint with three (later four) concurrent client connections from two or three client endpoints, each sending a transfer of a different length: every execution with <=k={k} deviations over the fate alphabet {alts:?} in the scenario's window, for CID lengths 0/1/4/8/20, CID rotation every 200 ms, clients calling local_address_changed at several points, connections closed at each listed step with a fourth connection opened afterwards (slab slot and handle reuse). Oracle on EVERY Endpoint::handle call (harness log): the connection handle the datagram is routed to is the one paired with the connection that produced it (pairing learnt from the NewConnection returned for its first Initial), never another one, also after draining and handle reuse; at the end of every execution the server's stateless reset for the connection ID each surviving client connection uses must end exactly that connection; every connection that nobody closed completes, the server side obtains exactly that connection's byte count, and no application sees foreign or corrupted data. A second part checks CID exhaustion with one-byte CIDs. E1: the ring of peer-issued connection IDs (`CidQueue`, from which the destination CID of every outgoing datagram is taken) through every NEW_CONNECTION_ID (sequence, retire_prior_to) / switch history until the canonical state space closes, against a map model: the active CID is never a retired one, no stale CID stays in the ring. Non-trivial = trace differs from the scenario's baseline; distinct = distinct trace hashes.");
    let scs = scenarios(thorough);
    let mut total = 0u64;
    let mut routed = 0u64;
    let mut per = vec![];
    let mut capped_any = false;
    for s in &scs {
        let mut alts_v = alts.to_vec();
        if let Some(ms) = s.long_delay_ms {
            alts_v = vec![Fate::Delay(Duration::from_millis(ms)), Fate::Drop];
        }
        let alts: &[Fate] = &alts_v;
        let kk = if s.long_delay_ms.is_some() { 1 } else { k };
        let r = e2(
            |d: &Devs| {
                let o = run(base, s, d, alts, false);
                RunOut { points: o.points, trace: o.trace, violation: o.viol.first().cloned(), note: o.routed_checked }
            },
            s.window,
            alts.len() as u16,
            kk,
            dl,
        );
        total += r.executions;
        capped_any |= r.capped;
        let b = r.outs[0].1.trace;
        for (d, o) in &r.outs {
            rep.evaluations += 1;
            routed += o.note;
            if o.trace != b {
                rep.distinct.insert(o.trace);
            }
            if let Some((sig, what)) = &o.violation {
                rep.violation(Violation {
                    signature: sig.clone(),
                    what: format!("scenario={} deviations={d:?}: {what}", s.name),
                    replay: json!({"check":"c09","scenario":s.name,"devs":d,"alts_len":alts.len()}),
                });
            }
        }
        per.push(json!({"scenario": s.name, "executions": r.executions, "per_k": r.per_k}));
        if r.capped {
            break;
        }
    }
    rep.exhaustive = !capped_any;
    rep.part("e2_multi_connection", json!({"k": k, "scenarios": scs.len(), "executions": total, "handle_calls_checked": routed, "stateless_resets_probed": RESETS.load(std::sync::atomic::Ordering::Relaxed), "capped": capped_any, "per_scenario": per}));
    if routed == 0 {
        machinery("vacuity guard: no routed delivery was checked");
    }
    // CID exhaustion with one-byte CIDs: connect until the endpoint refuses; no panic, no misrouting
    let ex = guarded(|| {
        let mut cfg = cfg_by_name("default");
        cfg.cid_len = 1;
        let mut w: World<StdApp> = World::new(base, Box::new(move |_, _| StdApp::new(Side::Server, Plan::default())));
        let keylog = Arc::new(mtls::KeyLog::default());
        let sc = server_config(&cfg, keylog.clone(), w.sim_time.clone());
        w.add_node(1, 1, None, Some(Arc::new(sc)), |_| {});
        let c = w.add_node(2, 1, None, None, |_| {});
        let mut opened = 0;
        let mut refused = None;
        for i in 0..300 {
            let cc = client_config(&cfg, keylog.clone(), i as u8);
            let now = w.now();
            let dst = w.nodes[SERVER].addr;
            match w.nodes[c].ep.connect(now, cc, dst, "localhost") {
                Ok(_) => opened += 1,
                Err(e) => {
                    refused = Some(format!("{e:?}"));
                    break;
                }
            }
        }
        (opened, refused)
    });
    rep.evaluations += 1;
    match ex {
        Err(e) => rep.violation(Violation { signature: "panic:cid-exhaustion".into(), what: format!("connecting repeatedly with one-byte CIDs panicked: {e}"), replay: json!({"check":"c09","kind":"exhaustion"}) }),
        Ok((opened, refused)) => {
            rep.part("cid_exhaustion", json!({"cid_len": 1, "connections_opened": opened, "refused_with": refused}));
            if refused.as_deref() != Some("CidsExhausted") {
                rep.violation(Violation { signature: "cid-exhaustion-not-reported".into(), what: format!("with one-byte CIDs {opened} connections were opened and the endpoint answered {refused:?} instead of CidsExhausted"), replay: json!({"check":"c09","kind":"exhaustion"}) });
            }
        }
    }
    // CID churn with one-byte CIDs: a long-lived connection keeps pinging while 45 short
    // connections come and go, so the 256 possible CIDs wrap around
    let churn = guarded(|| {
        let mut cfg = cfg_by_name("default");
        cfg.cid_len = 1;
        cfg.client.keep_alive_ms = Some(40);
        let mut w: World<StdApp> = World::new(base, Box::new(move |_, _| StdApp::new(Side::Server, Plan::default())));
        let keylog = Arc::new(mtls::KeyLog::default());
        let sc = server_config(&cfg, keylog.clone(), w.sim_time.clone());
        w.add_node(1, 1, None, Some(Arc::new(sc)), |_| {});
        let x = w.add_node(2, 1, None, None, |_| {});
        let y = w.add_node(3, 1, None, None, |_| {});
        let cc = client_config(&cfg, keylog.clone(), 0xa0);
        let lch = w.connect(x, SERVER, cc, StdApp::new(Side::Client, Plan::default()));
        w.settle_conn(x, lch);
        let mut short = 0;
        for i in 0..80u32 {
            let mut c2 = cfg.clone();
            c2.client.keep_alive_ms = None;
            let cc = client_config(&c2, keylog.clone(), 0x10 + i as u8);
            let ch = w.connect(y, SERVER, cc, StdApp::new(Side::Client, plan(600)));
            w.settle_conn(y, ch);
            let mut n = 0;
            while n < 400 {
                n += 1;
                let done = w.slot(y, ch).map_or(true, |s| s.app.tx_complete() && s.app.obs.connected);
                if done {
                    break;
                }
                if !w.step() {
                    break;
                }
            }
            let now = w.now();
            if let Some(s) = w.nodes[y].conns.get_mut(&ch) {
                s.conn.close(now, VarInt::from_u32(0), bytes::Bytes::new());
            }
            w.settle_conn(y, ch);
            // let both sides drain
            let mut n = 0;
            while n < 400 && (w.nodes[y].conns.contains_key(&ch) || w.nodes[SERVER].ep.open_connections() > 1) {
                n += 1;
                if !w.step() {
                    break;
                }
            }
            short += 1;
        }
        let long_lost = w.slot(x, lch).map(|s| s.app.obs.lost.clone()).unwrap_or_default();
        // routing oracle
        let mut emitted: BTreeMap<u64, (usize, Option<u64>)> = BTreeMap::new();
        let mut peer_of: BTreeMap<(usize, u64), (usize, u64)> = BTreeMap::new();
        let mut mis = vec![];
        for r in &w.recs {
            match r {
                Rec::Emit { idx, node, serial, .. } => {
                    emitted.insert(*idx, (*node, *serial));
                }
                Rec::Deliver { idx, node, routed, to_serial: Some(ts), t, .. } => {
                    let Some((from, Some(fs))) = emitted.get(idx).copied() else { continue };
                    match routed {
                        Routed::New(Some(_)) => {
                            peer_of.insert((from, fs), (*node, *ts));
                            peer_of.insert((*node, *ts), (from, fs));
                        }
                        Routed::Conn(_) => {
                            if peer_of.get(&(from, fs)).map_or(true, |p| *p != (*node, *ts)) {
                                mis.push(format!("at {t:?} datagram of node{from}/s{fs} handed to node{node}/s{ts}"));
                            }
                        }
                        _ => {}
                    }
                }
                _ => {}
            }
        }
        (short, long_lost, mis, w.trace_hash())
    });
    rep.evaluations += 1;
    match churn {
        Err(e) => rep.violation(Violation { signature: "panic:cid-churn".into(), what: format!("CID churn with one-byte CIDs panicked: {e}"), replay: json!({"check":"c09","kind":"churn"}) }),
        Ok((short, lost, mis, tr)) => {
            rep.distinct.insert(tr);
            rep.part("cid_churn", json!({"short_connections": short, "long_lived_lost": lost, "misrouted": mis.len()}));
            if !mis.is_empty() {
                rep.violation(Violation { signature: "misrouted-to-other-connection".into(), what: format!("one-byte CIDs, 80 short connections beside a long-lived one: {} misrouted datagrams, first: {}", mis.len(), mis[0]), replay: json!({"check":"c09","kind":"churn"}) });
            }
            if !lost.is_empty() {
                rep.violation(Violation { signature: "bystander-lost".into(), what: format!("the long-lived connection was lost during CID churn: {lost:?}"), replay: json!({"check":"c09","kind":"churn"}) });
            }
        }
    }
    // the ring of peer-issued connection IDs every outgoing datagram is addressed from (CidQueue),
    // searched to closure against a map model (E1, merged from /verif/comp)
    {
        let dl2 = crate::explore::deadline(if thorough { 120 } else { 10 });
        crate::checks::merge_comp(&mut rep, "C09", thorough, dl2);
    }
    rep.sample(json!({"scenario":"close0@28+fourth","deviations":[[30,1]],"meaning":"three client connections run against one server; the first is closed after step 28, datagram #30 is duplicated 15 ms later, a fourth connection is opened 30 steps later and reuses the freed handle; every datagram must be routed to the connection paired with its producer"}));
    rep.assumptions = vec![
        "counter-based CID generator (deterministic, never repeats within a run); the built-in hashed/random generators draw from the OS RNG and are not enumerated".into(),
        "with zero-length CIDs each client endpoint holds one connection per remote (the address tuple is the only routing key)".into(),
    ];
    let _ = AcceptPolicy::Accept;
    rep.finish()
}

fn replay(args: &Args) -> ! {
    let path = args.replay.as_ref().unwrap();
    let v: Value = serde_json::from_str(&std::fs::read_to_string(path).unwrap_or_else(|e| machinery(&format!("{e}")))).unwrap_or_else(|e| machinery(&format!("{e}")));
    if let Some(out) = crate::checks::replay_comp(&v) {
        println!("{out}");
        std::process::exit(0)
    }
    let r = &v["replay"];
    let name = r["scenario"].as_str().unwrap_or("");
    let s = scenarios(true).into_iter().find(|s| s.name == name).unwrap_or_else(|| machinery("unknown scenario"));
    let devs: Devs = r["devs"].as_array().map(|d| d.iter().map(|x| (x[0].as_u64().unwrap(), x[1].as_u64().unwrap() as u16)).collect()).unwrap_or_default();
    let mut alts_v: Vec<Fate> = if r["alts_len"].as_u64() == Some(3) { FATE_ALTS3.to_vec() } else { FATE_ALTS.to_vec() };
    if let Some(ms) = s.long_delay_ms {
        alts_v = vec![Fate::Delay(Duration::from_millis(ms)), Fate::Drop];
    }
    let o = run(Instant::now(), &s, &devs, &alts_v, true);
    println!("violations={:?} routed_checked={}", o.viol, o.routed_checked);
    std::process::exit(0)
}
