//! C17 — 0-RTT data is delivered once if accepted and vanishes if rejected.

use std::{
    collections::BTreeMap,
    hash::{Hash, Hasher},
    time::{Duration, Instant},
};

use proto::{Dir, Side};
use serde_json::{json, Value};

use crate::{
    app::{End, Plan, StdApp, StreamPlan},
    explore::{self, deadline, e2, e3, fates_of, guarded, Devs, RunOut, FATE_ALTS, FATE_ALTS3},
    ledger::{cid_len_of, decode},
    mtls::Ticket,
    report::{machinery, Args, Report, Tier, Violation},
    scen::{cfg_by_name, completion, diagnose, drive, integrity, Op, StdPair},
    sim::{AcceptPolicy, Fate, Pair, PairCfg, Rec, TCfg, CLIENT, SERVER},
    wire::{PType, WFrame},
};

const SALT: u8 = 0x5a;

#[derive(Clone, Copy, Debug, PartialEq, Eq, Hash, PartialOrd, Ord)]
pub enum PMode {
    /// remembered parameters equal the new ones
    Same,
    /// the server now offers more than the client remembers
    Grow,
    /// the server now offers less than the client remembers (legal only together with rejection)
    Shrink,
}

#[derive(Clone, Debug)]
pub struct Case {
    pub wl: usize,
    pub accept: bool,
    pub retry: bool,
    /// accept the connection only at this step (early packets sit in the endpoint's buffer)
    pub hold: Option<u64>,
    pub params: PMode,
    pub mask: u64,
    pub devs: Devs,
    pub alts: usize,
}

fn small(t: &mut TCfg) {
    t.max_bidi = Some(2);
    t.max_uni = Some(2);
    t.recv_window = Some(6000);
    t.stream_recv_window = Some(2500);
}

/// (client plan, server plan)
pub fn workload(i: usize) -> (Plan, Plan) {
    let uni = |len, chunk| StreamPlan { dir: Dir::Uni, len, chunk, end: End::Finish };
    let bi = |len, chunk| StreamPlan { dir: Dir::Bi, len, chunk, end: End::Finish };
    let mut c = Plan { early: true, ..Default::default() };
    let mut s = Plan::default();
    match i {
        0 => {
            c.streams = vec![bi(300, 300)];
            s.echo_len = Some(500);
        }
        1 => {
            c.streams = vec![bi(2000, 700), uni(5000, 1700), StreamPlan { dir: Dir::Uni, len: 900, chunk: 300, end: End::Reset { after: 300, code: 41 } }];
            c.datagrams = vec![50, 600];
            s.echo_len = Some(400);
            s.streams = vec![uni(1000, 1000)];
        }
        2 => {
            // more than the initial congestion window and more streams than a small limit
            c.streams = vec![uni(30_000, 4000), bi(100, 100), bi(200, 200), bi(300, 300), uni(10, 10)];
            s.echo_len = Some(50);
        }
        3 => {
            c.streams = vec![uni(0, 1), bi(0, 1), uni(1, 1), uni(7000, 7000)];
            c.datagrams = vec![0, 1, 1100];
            s.echo_len = Some(0);
            s.stop = Some((3, 1000, 77));
        }
        4 => {
            // more datagrams than the initial congestion window lets out before the handshake completes
            c.datagrams = vec![1100; 14];
            c.streams = vec![bi(100, 100)];
            s.echo_len = Some(10);
        }
        5 => {
            // a RESET_STREAM queued while the congestion window is full of early data
            c.streams = vec![uni(30_000, 4000), StreamPlan { dir: Dir::Uni, len: 500, chunk: 500, end: End::Open }, bi(50, 50)];
            c.late_reset = Some((1, 12_000, 9));
            s.echo_len = Some(10);
        }
        _ => machinery("unknown workload"),
    }
    (c, s)
}
pub const N_WL: usize = 6;

fn base_cfg(params: PMode, side_new: bool) -> PairCfg {
    let mut cfg = cfg_by_name("default");
    match (params, side_new) {
        (PMode::Same, _) => {}
        (PMode::Grow, false) | (PMode::Shrink, true) => small(&mut cfg.server),
        _ => {}
    }
    cfg
}

/// Server transport parameters as a server configured like `cfg` sends them (the content of a ticket)
pub fn remembered(base: Instant, cfg: &PairCfg) -> Vec<u8> {
    let mut p: StdPair = crate::scen::std_pair_plans(base, cfg, Plan::default(), Plan::default());
    for _ in 0..200 {
        if p.client().app.obs.connected || !p.w.step() {
            break;
        }
    }
    let s = p.keylog.sessions.lock().unwrap();
    s.iter().find(|r| r.side == Side::Server && !r.my_params.is_empty()).map(|r| r.my_params.clone()).unwrap_or_else(|| machinery("no server parameters logged"))
}

pub fn make_cfg(base: Instant, c: &Case) -> PairCfg {
    let old = base_cfg(c.params, false);
    let mut cfg = base_cfg(c.params, true);
    cfg.ticket = Some(Ticket { server_params: remembered(base, &old), secret: [7; 16] });
    cfg.accept_early = c.accept;
    cfg.retry = c.retry;
    cfg
}

pub struct Out {
    pub viol: Vec<(String, String)>,
    pub trace: u64,
    pub early_stream_bytes_in_0rtt: u64,
    pub accepted: Option<bool>,
    pub points: u64,
}

fn build(base: Instant, c: &Case, cfg: &PairCfg, fresh: bool, keep: bool) -> (StdPair, bool) {
    let (mut cp, sp) = workload(c.wl);
    let mut cfg = cfg.clone();
    if fresh {
        cfg.ticket = None;
        cp.early = false;
    }
    let rejecting = !c.accept;
    if rejecting {
        cp.early_salt = SALT;
    }
    let hold = c.hold;
    let retry = c.retry;
    let fates = if c.devs.is_empty() { BTreeMap::new() } else { fates_of(&c.devs, if c.alts == 3 { &FATE_ALTS3 } else { &FATE_ALTS }) };
    let mask = c.mask;
    let mut p = Pair::new_pre(
        base,
        &cfg,
        StdApp::new(Side::Client, cp),
        Box::new(move |_, _| StdApp::new(Side::Server, sp.clone())),
        |w| {
            w.fates = fates;
            w.drop_mask = mask;
            w.keep_data = keep;
            if hold.is_some() {
                w.nodes[SERVER].policy = if retry { AcceptPolicy::RetryHold } else { AcceptPolicy::Hold };
            }
        },
    );
    let script: Vec<(u64, Op)> = hold.map(|h| vec![(h, Op::AcceptHeld)]).unwrap_or_default();
    let done = drive(&mut p, &script, 40_000, Duration::from_secs(300));
    // let stragglers arrive
    let limit = p.w.t + Duration::from_secs(30);
    let mut n = 0;
    let busy = |p: &StdPair| {
        !p.w.net.is_empty()
            || p.client().conn.verif_probe().in_flight_ack_eliciting > 0
            || p.client().conn.verif_probe().streams.unacked_data > 0 && p.client().app.obs.lost.is_empty()
            || p.server().map_or(false, |s| s.conn.verif_probe().in_flight_ack_eliciting > 0)
    };
    while busy(&p) && n < 3000 {
        match p.w.next_event() {
            Some((at, _)) if at <= limit => {
                p.w.step();
                n += 1;
            }
            _ => break,
        }
    }
    (p, done)
}

/// What a connection looks like at the end, as far as "behaves like a fresh one" is concerned
fn final_shape(p: &StdPair, strict: bool) -> Vec<String> {
    let mut v = vec![];
    let c = p.client();
    let pr = c.conn.verif_probe();
    v.push(format!("client opened stream ids {:?}", c.app.obs.opened_order));
    v.push(format!("client streams opened per direction {:?}", pr.streams.next));
    v.push(format!("client data_sent {}", pr.streams.data_sent));
    v.push(format!("client unacked_data {}", pr.streams.unacked_data));
    v.push(format!("client send streams alive {}", pr.streams.send_streams));
    v.push(format!("client at Connected (peer max_data, peer stream limits, streams opened, data_sent, unacked_data, queued datagrams) {:?}", c.app.obs.at_connected));
    if let Some(s) = p.server() {
        let sp = s.conn.verif_probe();
        v.push(format!("server remote streams opened {:?}", sp.streams.next_remote));
        v.push(format!("server data_recvd {}", sp.streams.data_recvd));

        // (whether a stream the server application means to stop after N bytes is stopped, or read to
        // its end because everything arrived at once, depends on loss and timing: compared only in
        // fault-free runs)
        if strict || s.app.plan.stop.is_none() {
            v.push(format!("server streams seen by app {:?}", s.app.obs.rx.iter().map(|(k, r)| (*k, (!r.stopped_by_us && r.reset.is_none()).then_some(r.bytes), r.fin, r.reset)).collect::<Vec<_>>()));
        }
        if strict {
            v.push(format!("server datagrams seen by app {:?}", s.app.obs.dgrams_rx.iter().map(|d| d.len()).collect::<Vec<_>>()));
        }
    }
    v
}

pub fn run_case(base: Instant, c: &Case, cfg: &PairCfg, fresh_shape: Option<&(Vec<String>, Vec<String>)>) -> Result<Out, String> {
    guarded(|| {
        let (p, done) = build(base, c, cfg, false, true);
        let mut viol: Vec<(String, String)> = vec![];
        let cl = p.client();
        let accepted = cl.app.obs.accepted_0rtt;
        // how much early stream data travelled in 0-RTT packets (vacuity guard)
        let mut early_bytes = 0u64;
        let mut early_after_reject_visible = 0;
        for r in &p.w.recs {
            if let Rec::Emit { node, data, dst, .. } = r {
                if *node != CLIENT {
                    continue;
                }
                for (wp, frames) in decode(data, cid_len_of(&p.w, *dst)) {
                    if wp.ty == PType::ZeroRtt {
                        for f in frames {
                            if let WFrame::Stream { data, .. } = f {
                                early_bytes += data.len() as u64;
                            }
                        }
                    }
                }
            }
        }
        let expect_violation_close = c.accept && c.params == PMode::Shrink;
        if expect_violation_close {
            // the server accepted early data but reduced limits: the client must end the connection
            // with a protocol violation, not carry on
            if cl.app.obs.connected && cl.app.obs.lost.is_empty() && done {
                viol.push(("reduced-limits-accepted".into(), "server accepted 0-RTT while reducing remembered limits and the client carried on".into()));
            }
        } else {
            for (s, w) in integrity(&p) {
                viol.push((format!("integrity:{s}"), w));
            }
            if !done {
                viol.push(("stall".into(), format!("workload did not complete: {:?}; {}", completion(&p).into_iter().take(3).collect::<Vec<_>>(), diagnose(&p))));
            } else {
                for (s, w) in completion(&p) {
                    viol.push((format!("completion:{s}"), w));
                }
            }
            if done && cl.app.obs.lost.is_empty() {
                // loss accounting balances: whatever happened to the 0-RTT packets (acknowledged,
                // discarded on rejection, forgotten on Retry), nothing stays counted in flight
                let pr = cl.conn.verif_probe();
                if p.w.net.is_empty() && pr.streams.unacked_data == 0 && (pr.in_flight_bytes != 0 || pr.in_flight_ack_eliciting != 0) {
                    viol.push(("in-flight-not-zero".into(), format!("everything was delivered and acknowledged, the network is quiet, but the client still counts {} bytes / {} ack-eliciting packets in flight", pr.in_flight_bytes, pr.in_flight_ack_eliciting)));
                }
            }
            if let Some(a) = accepted {
                if a != c.accept {
                    viol.push(("accepted-flag".into(), format!("accepted_0rtt() = {a}, server decision was {}", c.accept)));
                }
            }
            if let Some(s) = p.server() {
                if !c.accept {
                    // nothing sent early may be visible: early datagrams carry the salt in the tag
                    for d in &s.app.obs.dgrams_rx {
                        if d.len() >= 2 && d[0] == SALT {
                            early_after_reject_visible += 1;
                        }
                    }
                    if early_after_reject_visible > 0 {
                        viol.push(("early-datagram-visible-after-rejection".into(), format!("{early_after_reject_visible} datagrams handed to send() before the rejection reached the server application")));
                    }
                }
            }
            if !c.accept && done && cl.app.obs.started_early {
                // behaves exactly like a fresh connection
                if let Some((fs_strict, fs_loose)) = fresh_shape {
                    let strict = c.mask == 0 && c.devs.is_empty() && c.hold.is_none();
                    let mine = final_shape(&p, strict);
                    let fs = if strict { fs_strict } else { fs_loose };
                    for (a, b) in mine.iter().zip(fs.iter()) {
                        if a != b {
                            viol.push(("not-like-fresh".into(), format!("after rejection: {a}; fresh connection with the same workload: {b}")));
                            break;
                        }
                    }
                }
            }
        }
        let mut h = std::collections::hash_map::DefaultHasher::new();
        (p.w.trace_hash(), accepted, done).hash(&mut h);
        Out { viol, trace: h.finish(), early_stream_bytes_in_0rtt: early_bytes, accepted, points: p.w.emitted }
    })
}

fn case_json(c: &Case) -> Value {
    json!({"check":"c17","wl":c.wl,"accept":c.accept,"retry":c.retry,"hold":c.hold,"params":format!("{:?}",c.params),"mask":c.mask,"devs":c.devs,"alts":c.alts})
}

fn case_from(v: &Value) -> Case {
    Case {
        wl: v["wl"].as_u64().unwrap_or(0) as usize,
        accept: v["accept"].as_bool().unwrap_or(true),
        retry: v["retry"].as_bool().unwrap_or(false),
        hold: v["hold"].as_u64(),
        params: match v["params"].as_str().unwrap_or("") { "Grow" => PMode::Grow, "Shrink" => PMode::Shrink, _ => PMode::Same },
        mask: v["mask"].as_u64().unwrap_or(0),
        devs: v["devs"].as_array().map(|d| d.iter().map(|x| (x[0].as_u64().unwrap(), x[1].as_u64().unwrap() as u16)).collect()).unwrap_or_default(),
        alts: v["alts"].as_u64().unwrap_or(5) as usize,
    }
}

fn fresh_shape_for(base: Instant, c: &Case, cfg: &PairCfg) -> Option<(Vec<String>, Vec<String>)> {
    if c.accept {
        return None;
    }
    // the reference: no ticket, same server configuration, same workload started after the
    // handshake, no faults, immediate accept
    let f = Case { mask: 0, devs: vec![], hold: None, ..c.clone() };
    guarded(|| {
        let (p, done) = build(base, &f, cfg, true, false);
        done.then(|| (final_shape(&p, true), final_shape(&p, false)))
    })
    .ok()
    .flatten()
}

pub fn main(args: &Args) -> ! {
    let thorough = args.tier == Tier::Thorough;
    let base = Instant::now();
    if let Some(path) = &args.replay {
        let v: Value = serde_json::from_str(&std::fs::read_to_string(path).unwrap_or_default()).unwrap_or_default();
        let c = case_from(&v["replay"]);
        let cfg = make_cfg(base, &c);
        let fs = fresh_shape_for(base, &c, &cfg);
        let (p, done) = build(base, &c, &cfg, false, true);
        print!("{}", crate::trace::dump(&p.w));
        println!("case {c:?}\ndone={done}");
        println!("client obs: {:?}", p.client().app.obs);
        if let Some(s) = p.server() {
            println!("server obs: {:?}", s.app.obs);
        }
        println!("shape: {:#?}\nfresh: {:#?}", final_shape(&p, true), fs.as_ref().map(|f| &f.0));
        match run_case(base, &c, &cfg, fs.as_ref()) {
            Ok(o) => println!("violations: {:#?}", o.viol),
            Err(e) => println!("PANIC {e}"),
        }
        println!("{}", diagnose(&p));
        std::process::exit(0);
    }
    explore::quiet_panics();
    let mut rep = Report::new("C17", args, "fault_enumeration");
    let dl = deadline(if thorough { 1500 } else { 50 });
    let k_mask: u32 = if thorough { 10 } else { 7 };
    rep.rule = format!("A client holding a session ticket (model TLS, remembered server transport parameters taken from a real earlier handshake) starts its workload before the handshake completes. E3: for every early workload (streams of both directions, finishes, a reset, a stop, empty streams, datagrams, 30 kB exceeding the initial window and more streams than a small limit) x server accepts / rejects early data x Retry or not x accept immediately / only at a later step (early packets wait in the endpoint buffer) x remembered parameters equal / smaller / larger than the new ones, EVERY drop subset of the first K={k_mask} datagrams of both directions is run; E2: every <=k dup/delay/drop deviation in the first datagrams. Oracles: accepted => the server application obtains every early byte exactly once, in order, unaltered, and the workload completes (in-app integrity oracle + completion); rejected => no byte or datagram written early reaches the server application (early writes are salted so they are distinguishable), every early stream answers ClosedStream afterwards, accepted_0rtt() tells the truth, and once the restarted workload completes the connection's stream ids, per-direction counters, data_sent, unacknowledged bytes, peer limits and everything the server application saw equal those of a fresh ticket-less connection running the same workload; accepted with reduced limits => the client ends the connection with PROTOCOL_VIOLATION. The quinn crate's side (into_0rtt, ZeroRttRejected from stale early handles, a retry stream reusing the rejected stream's id, delivery of exactly the retried / the early data) is explored as two scenarios under the deterministic executor of harness-async with <=k schedule deviations and merged here. Non-trivial = executions whose trace differs from the fault-free one of their configuration; distinct = distinct trace hashes.");
    // case list
    let mut cfgs: Vec<Case> = vec![];
    for wl in 0..N_WL {
        for accept in [true, false] {
            for retry in [false, true] {
                for hold in [None, Some(6u64), Some(14)] {
                    for params in [PMode::Same, PMode::Grow, PMode::Shrink] {
                        if !thorough && hold == Some(14) && wl != 1 {
                            continue;
                        }
                        cfgs.push(Case { wl, accept, retry, hold, params, mask: 0, devs: vec![], alts: 3 });
                    }
                }
            }
        }
    }
    // per configuration: cfg with ticket, fresh reference shape
    let (prep, _) = e3(cfgs.clone(), dl, |c| {
        let cfg = make_cfg(base, c);
        let fs = fresh_shape_for(base, c, &cfg);
        Ok::<_, String>((cfg, fs))
    });
    let mut tasks: Vec<(usize, Case)> = vec![];
    let prepared: Vec<(Case, PairCfg, Option<(Vec<String>, Vec<String>)>)> = prep.into_iter().map(|(c, r)| { let (cfg, fs) = r.unwrap(); (c, cfg, fs) }).collect();
    for (i, (c, _, fs)) in prepared.iter().enumerate() {
        if !c.accept && fs.is_none() {
            machinery(&format!("fresh reference run did not complete for {c:?}"));
        }
        let nmask: u64 = if !thorough && (c.hold.is_some() || c.params == PMode::Grow) { 1 << (k_mask - 2) } else { 1 << k_mask };
        for mask in 0..nmask {
            tasks.push((i, Case { mask, ..c.clone() }));
        }
    }
    let n_tasks = tasks.len();
    let (res, capped) = e3(tasks, dl, |(i, c)| run_case(base, c, &prepared[*i].1, prepared[*i].2.as_ref()));
    rep.exhaustive &= !capped;
    let mut early_total = 0u64;
    let mut base_trace: BTreeMap<usize, u64> = BTreeMap::new();
    for ((i, c), r) in &res {
        if c.mask == 0 {
            if let Ok(o) = r {
                base_trace.insert(*i, o.trace);
            }
        }
    }
    let mut accepted_runs = 0u64;
    let mut rejected_runs = 0u64;
    for ((i, c), r) in &res {
        rep.evaluations += 1;
        match r {
            Err(e) => rep.violation(Violation { signature: "panic".into(), what: format!("{c:?}: panic: {e}"), replay: case_json(c) }),
            Ok(o) => {
                early_total += o.early_stream_bytes_in_0rtt;
                match o.accepted {
                    Some(true) => accepted_runs += 1,
                    Some(false) => rejected_runs += 1,
                    None => {}
                }
                if Some(&o.trace) != base_trace.get(i) {
                    rep.distinct.insert(o.trace);
                }
                for (sig, what) in &o.viol {
                    rep.violation(Violation { signature: sig.clone(), what: format!("workload {} accept={} retry={} hold={:?} params={:?} drop mask {:#b}: {what}", c.wl, c.accept, c.retry, c.hold, c.params, c.mask), replay: case_json(c) });
                }
            }
        }
    }
    rep.part("drop_masks", json!({"K": k_mask, "configurations": prepared.len(), "planned": n_tasks, "executed": res.len(), "capped": capped, "stream_bytes_sent_in_0rtt_packets": early_total, "runs_reporting_accepted": accepted_runs, "runs_reporting_rejected": rejected_runs}));
    if early_total == 0 || accepted_runs == 0 || rejected_runs == 0 {
        machinery("vacuity guard: no 0-RTT data was ever sent, or no run was accepted / rejected");
    }
    // E2: dup / delay / drop deviations
    let k = if thorough { 3 } else { 2 };
    let alts: &[Fate] = if thorough { &FATE_ALTS } else { &FATE_ALTS3 };
    let mut e2_execs = 0u64;
    let mut e2_capped = false;
    let mut per_case = vec![];
    for (c, cfg, fs) in prepared.iter() {
        if c.hold == Some(14) || c.params == PMode::Grow || (!thorough && (c.wl == 2 || c.wl == 0)) {
            continue;
        }
        let r = e2(
            |d: &Devs| {
                let cc = Case { devs: d.clone(), alts: alts.len(), ..c.clone() };
                match run_case(base, &cc, cfg, fs.as_ref()) {
                    Ok(o) => RunOut { points: o.points, trace: o.trace, violation: o.viol.into_iter().next(), note: 0 },
                    Err(e) => RunOut { points: 0, trace: 0, violation: Some(("panic".into(), format!("panic: {e}"))), note: 0 },
                }
            },
            (0, if thorough { 16 } else { 10 }),
            alts.len() as u16,
            k,
            dl,
        );
        e2_execs += r.executions;
        e2_capped |= r.capped;
        let b = r.outs[0].1.trace;
        for (d, o) in &r.outs {
            rep.evaluations += 1;
            if o.trace != b {
                rep.distinct.insert(o.trace);
            }
            if let Some((sig, what)) = &o.violation {
                let cc = Case { devs: d.clone(), alts: alts.len(), ..c.clone() };
                rep.violation(Violation { signature: sig.clone(), what: format!("workload {} accept={} retry={} hold={:?} params={:?} deviations {d:?}: {what}", c.wl, c.accept, c.retry, c.hold, c.params), replay: case_json(&cc) });
            }
        }
        per_case.push(json!({"wl": c.wl, "accept": c.accept, "retry": c.retry, "hold": c.hold, "params": format!("{:?}", c.params), "executions": r.executions, "k_completed": r.k_completed}));
        if r.capped {
            break;
        }
    }
    rep.exhaustive &= !e2_capped;
    rep.part("e2", json!({"k": k, "alts": format!("{alts:?}"), "executions": e2_execs, "capped": e2_capped, "per_case": per_case}));
    // the async layer's part: Connecting::into_0rtt, ZeroRttRejected on stale early handles, a fresh
    // stream reusing the id of a rejected one - explored under the E4 executor (harness-async)
    match std::env::var("VERIF_VA_BIN") {
        Err(_) => machinery("VERIF_VA_BIN not set: ./check C17 builds harness-async and passes its path"),
        Ok(bin) => {
            let out = std::process::Command::new(&bin).arg("c17").arg("--tier").arg(if thorough { "thorough" } else { "quick" }).output();
            let out = out.unwrap_or_else(|e| machinery(&format!("cannot run {bin}: {e}")));
            let text = String::from_utf8_lossy(&out.stdout);
            let v: Value = text.lines().rev().find_map(|l| serde_json::from_str(l).ok()).unwrap_or_else(|| machinery(&format!("no result from {bin} c17: {}", String::from_utf8_lossy(&out.stderr))));
            let n = v["executions"].as_u64().unwrap_or(0);
            if n == 0 {
                machinery("the async 0-RTT part explored nothing");
            }
            rep.evaluations += n;
            rep.exhaustive &= !v["capped"].as_bool().unwrap_or(true);
            for viol in v["violations"].as_array().cloned().unwrap_or_default() {
                rep.violation(Violation {
                    signature: format!("async:{}", viol["signature"].as_str().unwrap_or("?")),
                    what: format!("quinn crate under the deterministic executor: {}", viol["what"].as_str().unwrap_or("?")),
                    replay: json!({"check":"c18","async_replay": viol["replay"], "note": "replay with ./check C18 --replay on a file holding {\"replay\": <async_replay>}"}),
                });
            }
            rep.part("async_layer", v);
        }
    }
    rep.sample(json!({"wl":1,"accept":false,"retry":true,"hold":6,"params":"Shrink","mask":"0b101","meaning":"client with a ticket remembering generous limits writes three streams and two datagrams in 0-RTT packets; the server answers with Retry, the application accepts the connection only at step 6, rejects early data and offers smaller limits; datagrams #0 and #2 are lost. Nothing written early may reach the server application and the restarted workload must complete within the new limits, ending in the same state as a fresh connection"}));
    rep.assumptions = vec![
        "model TLS: the server accepts or rejects early data by configuration; any ticket secret is honoured".into(),
        "on rejection the client application restarts its workload from scratch, as the API documentation prescribes".into(),
        "the fresh reference connection runs fault-free; runs with faults are compared with it only on loss-independent facts (ids, counters, limits, application-visible data)".into(),
    ];
    rep.finish()
}
