//! C02 — progress under fair loss (bounded liveness): every drop subset of the first K
//! datagrams, network reliable afterwards; plus E2 over dup/delay fates.

use std::time::{Duration, Instant};

use serde_json::json;

use crate::{
    app::ReadMode,
    explore::{self, deadline, e2, e3, fates_of, guarded, Devs, RunOut, FATE_ALTS},
    report::{Args, Report, Violation},
    scen::{self, cfg_list, completion, diagnose, integrity, std_pair_pre, workload_done, Wl},
    sim::PairCfg,
};

pub struct Case {
    pub cfg: PairCfg,
    pub wl: Wl,
    pub k: u32,
}

pub fn horizon(k: u32) -> Duration {
    Duration::from_secs((k as u64 + 4) * (1u64 << k.min(16)) + 60)
}

pub struct Out {
    pub points: u64,
    pub trace: u64,
    pub viol: Vec<(String, String)>,
    pub vtime: Duration,
}

pub fn run_one(base: Instant, cfg: &PairCfg, wl: Wl, k: u32, mask: u64, fates: &std::collections::BTreeMap<u64, crate::sim::Fate>) -> Out {
    run_one_at(base, cfg, wl, k, mask, 0, fates)
}

/// `mask` applies to the datagrams with emission indices `mask_base..mask_base+64`
pub fn run_one_at(base: Instant, cfg: &PairCfg, wl: Wl, k: u32, mask: u64, mask_base: u64, fates: &std::collections::BTreeMap<u64, crate::sim::Fate>) -> Out {
    run_one_masks(base, cfg, wl, k, mask, mask_base, None, fates)
}

/// `node_mask` = (node, first per-node emission index, mask): drops among the datagrams of one side only
pub fn run_one_masks(base: Instant, cfg: &PairCfg, wl: Wl, k: u32, mask: u64, mask_base: u64, node_mask: Option<(usize, u64, u64)>, fates: &std::collections::BTreeMap<u64, crate::sim::Fate>) -> Out {
    let r = guarded(|| {
        let mut p = std_pair_pre(base, cfg, wl, ReadMode::default(), |w| {
            w.node_mask = node_mask;
            w.drop_mask = mask;
            w.mask_base = mask_base;
            w.fates = fates.clone();
            w.keep_data = false;
        });
        let hz = horizon(k);
        loop {
            if workload_done(&p) {
                break;
            }
            if p.w.steps >= 60_000 {
                break;
            }
            match p.w.next_event() {
                None => break,
                Some((at, _)) if at > hz => break,
                _ => {}
            }
            p.w.step();
        }
        p
    });
    match r {
        Err(panic) => Out { points: 0, trace: 0, viol: vec![("panic".into(), format!("panic: {panic}"))], vtime: Duration::ZERO },
        Ok(p) => {
            let mut viol = vec![];
            if !workload_done(&p) {
                let mut c = completion(&p);
                if c.is_empty() {
                    c.push(("incomplete".into(), "workload not complete at horizon".into()));
                }
                let d = diagnose(&p);
                for (s, w) in c {
                    viol.push((format!("stall:{s}"), format!("{w}; t={:?} steps={} {d}", p.w.t, p.w.steps)));
                }
            } else {
                for (s, w) in completion(&p) {
                    viol.push((format!("complete:{s}"), w));
                }
            }
            for (s, w) in integrity(&p) {
                viol.push((format!("integrity:{s}"), w));
            }
            Out { points: p.w.emitted, trace: p.w.trace_hash(), viol, vtime: p.w.t }
        }
    }
}

fn replay(args: &Args, path: &std::path::Path) -> ! {
    let v: serde_json::Value = serde_json::from_str(&std::fs::read_to_string(path).unwrap_or_else(|e| crate::report::machinery(&format!("{e}")))).unwrap_or_else(|e| crate::report::machinery(&format!("{e}")));
    let r = &v["replay"];
    let cfgs = cfg_list(true);
    let cfg = cfgs.iter().find(|c| c.client.name == r["cfg"].as_str().unwrap_or("")).unwrap_or_else(|| crate::report::machinery("unknown cfg"));
    let wl = crate::scen::wl_from_str(r["wl"].as_str().unwrap_or("W1"));
    let base = Instant::now();
    let k = r["k"].as_u64().unwrap_or(4) as u32;
    let mask = r["mask"].as_u64().unwrap_or(0);
    let mask_base = r["mask_base"].as_u64().unwrap_or(0);
    let mut fates = Default::default();
    if let Some(d) = r["devs"].as_array() {
        let devs: Devs = d.iter().map(|x| (x[0].as_u64().unwrap(), x[1].as_u64().unwrap() as u16)).collect();
        fates = fates_of(&devs, &FATE_ALTS);
    }
    let node_mask = r["node_mask"].as_array().map(|a| (a[0].as_u64().unwrap() as usize, a[1].as_u64().unwrap(), a[2].as_u64().unwrap()));
    let mut p = std_pair_pre(base, cfg, wl, ReadMode::default(), |w| {
        w.node_mask = node_mask;
        w.drop_mask = mask;
        w.mask_base = mask_base;
        w.fates = fates;
    });
    let hz = horizon(k);
    loop {
        if workload_done(&p) || p.w.steps >= 60_000 { break; }
        match p.w.next_event() { None => break, Some((at, _)) if at > hz => break, _ => {} }
        p.w.step();
    }
    print!("{}", crate::trace::dump(&p.w));
    println!("done={} completion={:?} integrity={:?}", workload_done(&p), completion(&p), integrity(&p));
    println!("{}", diagnose(&p));
    let _ = args;
    std::process::exit(0)
}

pub fn main(args: &Args) -> ! {
    if let Some(p) = &args.replay {
        replay(args, p);
    }
    explore::quiet_panics();
    let base = Instant::now();
    let mut rep = Report::new("C02", args, "fault_enumeration");
    let thorough = args.tier == crate::report::Tier::Thorough;
    let k: u32 = if thorough { 13 } else { 9 };
    // idle-timeout configurations get a shorter loss prefix (K=3) so that the loss run stays
    // well below the timeout; longer runs would time out legitimately
    let all_cfgs = cfg_list(thorough);
    let idle_cfgs: Vec<_> = all_cfgs.iter().filter(|c| c.client.idle_ms.is_some()).cloned().collect();
    let cfgs: Vec<_> = all_cfgs.into_iter().filter(|c| c.client.idle_ms.is_none()).collect();
    let wls: Vec<Wl> = if thorough { vec![Wl::W1, Wl::W3, Wl::W6, Wl::W2, Wl::W11] } else { vec![Wl::W1, Wl::W3, Wl::W6, Wl::W11] };
    let dl = deadline(if thorough { 1500 } else { 45 });
    rep.rule = format!(
        "E3: for each (configuration, workload) every one of the 2^K drop masks over the first K={k} datagrams emitted by either side (network reliable afterwards, idle timeout off) is executed on the real endpoints; E2: all executions with <=2 dup/delay/drop deviations in the first 24 datagrams for a covering sub-list. An execution is non-trivial when its observable trace hash differs from the fault-free baseline of its (cfg, workload); distinct = distinct trace hashes among those."
    );
    // E3: drop masks
    let mut tasks = vec![];
    for (ci, _) in cfgs.iter().enumerate() {
        for &wl in &wls {
            // W6 with default windows is just a bulk transfer: still useful; W3 needs stream limit
            for mask in 0..(1u64 << k) {
                tasks.push((ci, wl, mask));
            }
        }
    }
    let total = tasks.len();
    // idle configurations: K=3
    let mut idle_viol = vec![];
    for c in &idle_cfgs {
        for &wl in &wls {
            for mask in 0..8u64 {
                let o = run_one(base, c, wl, 3, mask, &Default::default());
                rep.evaluations += 1;
                rep.distinct.insert(o.trace);
                for (sig, what) in o.viol {
                    idle_viol.push((c.client.name.clone(), wl, mask, sig, what));
                }
            }
        }
    }
    for (cn, wl, mask, sig, what) in idle_viol {
        rep.violation(Violation {
            signature: format!("{sig}:{cn}"),
            what: format!("cfg={cn} wl={wl:?} dropmask={mask:#b}: {what}"),
            replay: json!({"check":"c02","kind":"mask","cfg":cn,"wl":format!("{wl:?}"),"k":3,"mask":mask}),
        });
    }
    let (res, capped) = e3(tasks, dl, |&(ci, wl, mask)| run_one(base, &cfgs[ci], wl, k, mask, &Default::default()));
    if capped {
        rep.exhaustive = false;
    }
    let mut baselines = std::collections::BTreeMap::new();
    for ((ci, wl, mask), o) in &res {
        if *mask == 0 {
            baselines.insert((*ci, *wl), o.trace);
        }
    }
    let mut maxv = Duration::ZERO;
    for ((ci, wl, mask), o) in &res {
        rep.evaluations += 1;
        maxv = maxv.max(o.vtime);
        if baselines.get(&(*ci, *wl)) != Some(&o.trace) {
            rep.distinct.insert(o.trace);
        }
        for (sig, what) in &o.viol {
            rep.violation(Violation {
                signature: format!("{sig}:{}", cfgs[*ci].client.name),
                what: format!("cfg={} wl={wl:?} dropmask={mask:#b}: {what}", cfgs[*ci].client.name),
                replay: json!({"check":"c02","kind":"mask","cfg":cfgs[*ci].client.name,"wl":format!("{wl:?}"),"k":k,"mask":mask}),
            });
        }
    }
    rep.part("drop_masks", json!({"K": k, "configs": cfgs.len(), "workloads": wls.len(), "planned": total, "executed": res.len(), "capped": capped, "max_virtual_time_s": maxv.as_secs_f64()}));
    rep.sample(json!({"cfg": cfgs[0].client.name, "wl":"W1", "dropmask":"0b101", "meaning":"datagrams #0 and #2 (emission order, both directions) dropped, everything else delivered after the link latency"}));
    // E3b: every drop subset of K datagrams in the middle of the transfer (starting at the first
    // datagram after the handshake flight), so that losses of data, FIN-only, reset and
    // acknowledgement packets combine
    {
        let km: u32 = if thorough { 12 } else { 10 };
        let mut tasks = vec![];
        for name in ["nopace", "default", "gso1"] {
            let Some(ci) = cfgs.iter().position(|c| c.client.name == name) else { continue };
            for wl in [Wl::W11, Wl::W2, Wl::W4] {
                if !thorough && name != "nopace" && wl != Wl::W11 {
                    continue;
                }
                for mask in 0..(1u64 << km) {
                    tasks.push((ci, wl, mask, 5u64));
                }
            }
        }
        // flow-control-limited transfers: the sender depends on every MAX_DATA / MAX_STREAM_DATA /
        // MAX_STREAMS the receiver issues, so losses of credit frames and of their retransmissions
        // combine (several window positions: credit frames recur throughout the transfer)
        for name in ["connwin1500", "tinywin", "win63", "streams1"] {
            let Some(ci) = cfgs.iter().position(|c| c.client.name == name) else { continue };
            for wl in [Wl::W1, Wl::W2] {
                if !thorough && wl != Wl::W1 && name != "streams1" {
                    continue;
                }
                for first in if thorough { vec![5u64, 9, 13, 17, 21] } else { vec![6u64, 12] } {
                    for mask in 0..(1u64 << km.min(10)) {
                        tasks.push((ci, wl, mask, first));
                    }
                }
            }
        }
        let planned = tasks.len();
        let (res, capped) = e3(tasks, dl, |(ci, wl, mask, first)| run_one_at(base, &cfgs[*ci], *wl, 6, *mask, *first, &Default::default()));
        rep.exhaustive &= !capped;
        let mut basehash: std::collections::BTreeMap<(usize, String), u64> = Default::default();
        for ((ci, wl, mask, _), o) in &res {
            if *mask == 0 {
                basehash.insert((*ci, format!("{wl:?}")), o.trace);
            }
        }
        for ((ci, wl, mask, first), o) in &res {
            rep.evaluations += 1;
            if Some(&o.trace) != basehash.get(&(*ci, format!("{wl:?}"))) {
                rep.distinct.insert(o.trace);
            }
            if let Some((sig, what)) = o.viol.first() {
                rep.violation(Violation {
                    signature: format!("{sig}:{}", cfgs[*ci].client.name),
                    what: format!("cfg={} wl={wl:?} drop mask {mask:#b} over datagrams #{first}..: {what}", cfgs[*ci].client.name),
                    replay: json!({"check":"c02","kind":"mask","cfg":cfgs[*ci].client.name,"wl":format!("{wl:?}"),"k":6,"mask":mask,"mask_base":first}),
                });
            }
        }
        rep.part("mid_transfer_drop_masks", json!({"K": km, "first_datagram": "5 (6/12 and 5..21 for the flow-control-limited configurations)", "planned": planned, "executed": res.len(), "capped": capped}));
    }
    // E3b2: losses among the datagrams of ONE side only (ten consecutive datagrams of that side span
    // about twice as much of the run): a credit frame and its retransmissions, a FIN and its probes
    {
        let mut tasks = vec![];
        for name in ["connwin1500", "tinywin", "win63", "streams1", "default"] {
            let Some(ci) = cfgs.iter().position(|c| c.client.name == name) else { continue };
            for wl in [Wl::W1, Wl::W2] {
                if !thorough && wl != Wl::W1 {
                    continue;
                }
                for node in [crate::sim::SERVER, crate::sim::CLIENT] {
                    for first in if thorough { vec![2u64, 4, 8, 12] } else { vec![4u64] } {
                        for mask in 1..(1u64 << 10) {
                            tasks.push((ci, wl, node, first, mask));
                        }
                    }
                }
            }
        }
        let planned = tasks.len();
        let (res, capped) = e3(tasks, dl, |(ci, wl, node, first, mask)| run_one_masks(base, &cfgs[*ci], *wl, 6, 0, 0, Some((*node, *first, *mask)), &Default::default()));
        rep.exhaustive &= !capped;
        for ((ci, wl, node, first, mask), o) in &res {
            rep.evaluations += 1;
            rep.distinct.insert(o.trace);
            if let Some((sig, what)) = o.viol.first() {
                rep.violation(Violation {
                    signature: format!("{sig}:{}", cfgs[*ci].client.name),
                    what: format!("cfg={} wl={wl:?} drop mask {mask:#b} over the {} datagrams #{first}.. : {what}", cfgs[*ci].client.name, if *node == crate::sim::SERVER { "server's" } else { "client's" }),
                    replay: json!({"check":"c02","kind":"mask","cfg":cfgs[*ci].client.name,"wl":format!("{wl:?}"),"k":6,"mask":0,"node_mask":[node, first, mask]}),
                });
            }
        }
        rep.part("one_sided_drop_masks", json!({"K": 10, "planned": planned, "executed": res.len(), "capped": capped}));
    }
    // E3b3: an API call that changes connection state at any moment of a transfer (key update by
    // either side - also by the side that has nothing to send -, ping, path change notification,
    // window changes) must not stall it
    {
        use crate::scen::Op;
        let ops: Vec<(&'static str, Op)> = vec![
            ("keyupd-server", Op::KeyUpdate(crate::sim::SERVER)),
            ("keyupd-client", Op::KeyUpdate(crate::sim::CLIENT)),
            ("ping-server", Op::Ping(crate::sim::SERVER)),
            ("ping-client", Op::Ping(crate::sim::CLIENT)),
            ("path-changed-client", Op::PathChanged(crate::sim::CLIENT)),
            ("path-changed-server", Op::PathChanged(crate::sim::SERVER)),
            ("recvwin-server-1500", Op::SetRecvWindow(crate::sim::SERVER, 1500)),
            ("sendwin-client-1500", Op::SetSendWindow(crate::sim::CLIENT, 1500)),
        ];
        let mut tasks = vec![];
        for cfgname in ["default", "nopace", "ackfreq"] {
            let Some(ci) = cfgs.iter().position(|c| c.client.name == cfgname) else { continue };
            for wl in [Wl::W6, Wl::W8, Wl::W2] {
                if !thorough && cfgname != "default" && wl != Wl::W6 {
                    continue;
                }
                for (oi, _) in ops.iter().enumerate() {
                    for at in (6..(if thorough { 120 } else { 70 })).step_by(if thorough { 1 } else { 2 }) {
                        tasks.push((ci, wl, oi, at as u64));
                        if ops[oi].0.starts_with("keyupd") {
                            // twice in a row (the second one while the first is unconfirmed)
                            tasks.push((ci, wl, oi + 100, at as u64));
                        }
                    }
                }
            }
        }
        let planned = tasks.len();
        let (res, capped) = e3(tasks, dl, |(ci, wl, oi, at)| {
            let r = guarded(|| {
                let mut p = std_pair_pre(base, &cfgs[*ci], *wl, ReadMode::default(), |w| w.keep_data = false);
                let op = ops[*oi % 100].1.clone();
                let mut script = vec![(*at, op.clone())];
                if *oi >= 100 {
                    script.push((*at + 3, op));
                }
                let done = crate::scen::drive(&mut p, &script, 60_000, Duration::from_secs(120));
                let mut v = vec![];
                if !done {
                    let d = diagnose(&p);
                    for (s, w) in completion(&p) {
                        v.push((format!("stall-after-api-call:{s}"), format!("{w}; t={:?} {d}", p.w.t)));
                    }
                }
                for (s, w) in integrity(&p) {
                    v.push((format!("integrity:{s}"), w));
                }
                (p.w.trace_hash(), v)
            });
            r
        });
        rep.exhaustive &= !capped;
        for ((ci, wl, oi, at), r) in &res {
            rep.evaluations += 1;
            let name = format!("{}{}", ops[*oi % 100].0, if *oi >= 100 { " x2" } else { "" });
            let rj = json!({"check":"c02","kind":"api","cfg":cfgs[*ci].client.name,"wl":format!("{wl:?}"),"op":name,"at":at});
            match r {
                Err(e) => rep.violation(Violation { signature: "panic".into(), what: format!("cfg={} wl={wl:?} {name} at step {at}: panic: {e}", cfgs[*ci].client.name), replay: rj }),
                Ok((tr, v)) => {
                    rep.distinct.insert(*tr);
                    if let Some((sig, what)) = v.first() {
                        rep.violation(Violation { signature: format!("{sig}:{}", cfgs[*ci].client.name), what: format!("cfg={} wl={wl:?} {name} at step {at}: {what}", cfgs[*ci].client.name), replay: rj });
                    }
                }
            }
        }
        rep.part("api_calls_mid_transfer", json!({"planned": planned, "executed": res.len(), "operations": ops.iter().map(|o| o.0).collect::<Vec<_>>(), "capped": capped}));
        // ... and on a connection that has gone quiet: one side updates its keys and stays silent, then
        // the other side (which cannot know yet) speaks with the old keys: that must be answered
        let mut quiet = 0u64;
        for cfgname in ["default", "ackfreq", "cid0"] {
            let Some(ci) = cfgs.iter().position(|c| c.client.name == cfgname) else { continue };
            for updater in [crate::sim::SERVER, crate::sim::CLIENT] {
                for gap_ms in [1u64, 30, 400] {
                    for twice in [false, true] {
                        quiet += 1;
                        rep.evaluations += 1;
                        let r = guarded(|| {
                            let mut p = std_pair_pre(base, &cfgs[ci], Wl::W1, ReadMode::default(), |w| w.keep_data = false);
                            let _ = crate::scen::drive(&mut p, &[], 20_000, Duration::from_secs(60));
                            // quiescence
                            let mut g = 0;
                            while g < 2000 && !p.w.net.is_empty() {
                                g += 1;
                                p.w.step();
                            }
                            let t0 = p.w.t + Duration::from_millis(300);
                            while p.w.next_event().map_or(false, |(at, _)| at <= t0) {
                                p.w.step();
                            }
                            p.w.t = p.w.t.max(t0);
                            crate::scen::apply_op(&mut p, &Op::KeyUpdate(updater));
                            if twice {
                                crate::scen::apply_op(&mut p, &Op::KeyUpdate(updater));
                            }
                            let t1 = p.w.t + Duration::from_millis(gap_ms);
                            while p.w.next_event().map_or(false, |(at, _)| at <= t1) {
                                p.w.step();
                            }
                            p.w.t = p.w.t.max(t1);
                            let other = 1 - updater;
                            crate::scen::apply_op(&mut p, &Op::Ping(other));
                            let t2 = p.w.t + Duration::from_secs(8);
                            let mut g = 0;
                            while g < 4000 && p.w.next_event().map_or(false, |(at, _)| at <= t2) {
                                g += 1;
                                p.w.step();
                            }
                            let ch = if other == crate::sim::CLIENT { Some(p.cch) } else { p.sch() };
                            let pr = ch.and_then(|ch| p.w.nodes[other].conns.get(&ch).map(|s| s.conn.verif_probe()));
                            (pr.map(|pr| (pr.in_flight_ack_eliciting, pr.pto_count)), diagnose(&p))
                        });
                        let who = if updater == crate::sim::SERVER { "server" } else { "client" };
                        let rj = json!({"check":"c02","kind":"quiet-keyupdate","cfg":cfgname,"updater":who,"gap_ms":gap_ms,"twice":twice});
                        match r {
                            Err(e) => rep.violation(Violation { signature: "panic".into(), what: format!("quiet key update by the {who}: panic: {e}"), replay: rj }),
                            Ok((Some((inflight, pto)), d)) if inflight > 0 || pto > 0 => rep.violation(Violation {
                                signature: format!("ping-after-quiet-key-update-unanswered:{cfgname}"),
                                what: format!("cfg={cfgname}: the {who} updated its keys on a quiet connection{}, {gap_ms} ms later the peer sent a PING with the keys it knows: 8 s later {inflight} ack-eliciting packets are still unacknowledged (pto_count {pto}); {d}", if twice { " twice" } else { "" }),
                                replay: rj,
                            }),
                            _ => {}
                        }
                    }
                }
            }
        }
        rep.part("key_update_on_quiet_connection", json!({"cases": quiet}));
    }
    // E3c: an impatient driver. Besides servicing events, the driver polls both connections every
    // `interval` of virtual time (a busy-polling event loop); rate-limited and window-limited senders
    // must make the same progress as under the exact driver
    {
        let mut tasks = vec![];
        for (name, rate) in [("pacing2k", Some(2_000u64)), ("pacing20k", Some(20_000)), ("cubic", None)] {
            for interval_us in [50u64, 100, 1000] {
                for wl in [Wl::W1, Wl::W11] {
                    if !thorough && wl == Wl::W11 && interval_us != 100 {
                        continue;
                    }
                    tasks.push((name, rate, interval_us, wl));
                }
            }
        }
        let planned = tasks.len();
        let (res, capped) = e3(tasks, dl, |&(name, rate, interval_us, wl)| {
            guarded(|| {
                let mut cfg = crate::scen::cfg_by_name("default");
                cfg.client.pacing_cap = rate;
                cfg.client.name = name.into();
                let mut p = std_pair_pre(base, &cfg, wl, ReadMode::default(), |w| w.keep_data = false);
                let interval = Duration::from_micros(interval_us);
                let hz = Duration::from_secs(40);
                let mut polls = 0u64;
                loop {
                    if workload_done(&p) || p.w.t > hz || polls > 2_000_000 {
                        break;
                    }
                    match p.w.next_event() {
                        Some((at, _)) if at <= p.w.t + interval => {
                            p.w.step();
                        }
                        _ => {
                            p.w.t += interval;
                            polls += 1;
                            crate::scen::apply_op(&mut p, &crate::scen::Op::SpuriousSettle(crate::sim::CLIENT));
                            crate::scen::apply_op(&mut p, &crate::scen::Op::SpuriousSettle(crate::sim::SERVER));
                        }
                    }
                }
                let mut v = vec![];
                if !workload_done(&p) {
                    let d = diagnose(&p);
                    for (s, w) in completion(&p) {
                        v.push((format!("stall-under-busy-polling:{s}"), format!("{w}; after {polls} extra polls, t={:?} {d}", p.w.t)));
                    }
                }
                for (s, w) in integrity(&p) {
                    v.push((format!("integrity:{s}"), w));
                }
                (p.w.trace_hash(), v, polls)
            })
        });
        rep.exhaustive &= !capped;
        let mut total_polls = 0u64;
        for ((name, _, interval_us, wl), r) in &res {
            rep.evaluations += 1;
            let rj = json!({"check":"c02","kind":"busy","cfg":name,"interval_us":interval_us,"wl":format!("{wl:?}")});
            match r {
                Err(e) => rep.violation(Violation { signature: "panic".into(), what: format!("busy driver {name} every {interval_us} us {wl:?}: panic: {e}"), replay: rj }),
                Ok((tr, v, polls)) => {
                    rep.distinct.insert(*tr);
                    total_polls += polls;
                    for (sig, what) in v {
                        rep.violation(Violation { signature: format!("{sig}:{name}"), what: format!("sender {name}, driver polling every {interval_us} us, {wl:?}: {what}"), replay: rj.clone() });
                    }
                }
            }
        }
        rep.part("busy_polling_driver", json!({"planned": planned, "executed": res.len(), "extra_polls": total_polls, "capped": capped}));
    }
    // E2: dup/delay/drop deviations
    let mut e2cfgs: Vec<usize> = if thorough { (0..cfgs.len()).collect() } else { vec![0, 4, 11, 13, 20].into_iter().filter(|i| *i < cfgs.len()).collect() };
    // un-paced sending: what the application writes leaves at once, so later operations (a deferred
    // finish) travel in packets of their own
    if let Some(i) = cfgs.iter().position(|c| c.client.name == "nopace") {
        if !e2cfgs.contains(&i) {
            e2cfgs.push(i);
        }
    }
    let kdev = if thorough { 3 } else { 2 };
    let mut e2execs = 0u64;
    let mut e2capped = false;
    for &ci in &e2cfgs {
        for &wl in &[Wl::W1, Wl::W3, Wl::W11] {
            let cfg = &cfgs[ci];
            let r = e2(
                |d: &Devs| {
                    let o = run_one(base, cfg, wl, 4, 0, &fates_of(d, &FATE_ALTS));
                    RunOut { points: o.points, trace: o.trace, violation: o.viol.first().cloned(), note: 0 }
                },
                (0, 24),
                FATE_ALTS.len() as u16,
                kdev,
                dl,
            );
            e2execs += r.executions;
            e2capped |= r.capped;
            let basehash = r.outs[0].1.trace;
            for (d, o) in &r.outs {
                rep.evaluations += 1;
                if o.trace != basehash {
                    rep.distinct.insert(o.trace);
                }
                if let Some((sig, what)) = &o.violation {
                    rep.violation(Violation {
                        signature: format!("{sig}:{}", cfg.client.name),
                        what: format!("cfg={} wl={wl:?} deviations={d:?}: {what}", cfg.client.name),
                        replay: json!({"check":"c02","kind":"devs","cfg":cfg.client.name,"wl":format!("{wl:?}"),"devs":d}),
                    });
                }
            }
        }
    }
    if e2capped {
        rep.exhaustive = false;
    }
    rep.part("fate_deviations", json!({"k": kdev, "window":[0,24], "alts": format!("{:?}", FATE_ALTS), "configs": e2cfgs.len(), "executions": e2execs, "capped": e2capped}));
    rep.sample(json!({"cfg": cfgs[0].client.name, "wl":"W1", "deviations":[[3,0],[7,2]], "meaning":"datagram #3 dropped, datagram #7 delayed by 15 ms (alternative indices into the fate list)"}));
    rep.assumptions = vec![
        "bounded liveness: losses only among the first K datagrams / within the deviation window; reliable network afterwards".into(),
        "model TLS (mtls) replaces rustls; key availability order mirrors TLS 1.3".into(),
        "timers serviced exactly at their deadline; idle timeout disabled in these configurations".into(),
    ];
    let _ = scen::Wl::W0;
    rep.finish()
}
