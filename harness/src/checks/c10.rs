//! C10 — wire encodings round-trip and decoders are total (enumeration lives in /verif/codec).

use serde_json::{json, Value};

use crate::{
    explore::deadline,
    report::{machinery, Args, Report, Tier, Violation},
};

pub fn main(args: &Args) -> ! {
    if let Some(path) = &args.replay {
        let v: Value = serde_json::from_str(&std::fs::read_to_string(path).unwrap_or_else(|e| machinery(&format!("{e}")))).unwrap_or_else(|e| machinery(&format!("{e}")));
        println!("{}", vcodec::replay(&v["replay"]));
        std::process::exit(0)
    }
    vcodec::install_silent_panic_hook();
    let mut rep = Report::new("C10", args, "exploration");
    let thorough = args.tier == Tier::Thorough;
    let dl = deadline(if thorough { 1500 } else { 50 });
    rep.rule = "Complete enumeration of finite codec domains against independent reference codecs written from the RFC text: every value of the 1/2-byte (quick) and 4-byte (thorough) varint ranges and windows around every power of two of the 8-byte range; packet numbers in windows around every encoding-size boundary x receiver expectations inside and outside the protocol window (RFC 9000 A.3 reference); every header form x CID lengths 0..=20 x token lengths x packet-number sizes x versions incl. coalesced pairs/triples; every frame type over the product of boundary values per field (real encoder -> independent decoder and real decoder); transport parameters one-at-a-time and full product; connection IDs, tokens, hashed CID generator; totality: all byte strings up to 2/3 bytes and every single-byte mutation and truncation of the valid corpus into every decoder (no panic). Non-trivial/distinct = distinct encodings produced (64-bit hash set; arithmetic for the contiguous varint ranges).".into();
    let parts = vcodec::run_all(thorough, dl);
    let mut summary = vec![];
    let mut informational: Vec<Value> = vec![];
    for p in parts {
        rep.evaluations += p.evaluations;
        rep.exhaustive &= p.exhaustive;
        for i in 0..p.distinct_nontrivial.min(2_000_000) {
            use std::hash::{Hash, Hasher};
            let mut h = std::collections::hash_map::DefaultHasher::new();
            (&p.name, i).hash(&mut h);
            rep.distinct.insert(h.finish());
        }
        for s in p.samples.iter().take(2) {
            rep.sample(json!({"part": p.name, "case": s}));
        }
        for v in &p.violations {
            // "adjacent:" signatures are encoder-budget / strictness observations that the codec
            // library reports but that lie outside what C10 states (round trip of what the
            // library produces; decoders total). They are recorded, not judged.
            if v.signature.starts_with("adjacent:") {
                informational.push(json!({"signature": v.signature, "what": v.what.chars().take(300).collect::<String>()}));
                continue;
            }
            rep.violation(Violation { signature: v.signature.clone(), what: format!("{}: {}", p.name, v.what), replay: v.replay.clone() });
        }
        summary.push(json!({"part": p.name, "evaluations": p.evaluations, "distinct_nontrivial": p.distinct_nontrivial, "exhaustive": p.exhaustive, "detail": p.detail}));
    }
    rep.part("codec_parts", json!(summary));
    rep.part("outside_property_informational", json!(informational));
    rep.assumptions = vec![
        "8-byte varint range covered only around powers of two and 2^62-1".into(),
        "reference codecs written from RFC 9000 / 9221 / ack-frequency draft text are the oracle".into(),
    ];
    rep.finish()
}
