//! C08 — every connection terminates cleanly and exactly once.

use std::{
    collections::BTreeMap,
    hash::{Hash, Hasher},
    time::{Duration, Instant},
};

use proto::ConnectionHandle;
use serde_json::{json, Value};

use crate::{
    app::ReadMode,
    explore::{self, deadline, e3, guarded},
    ledger,
    report::{machinery, Args, Report, Tier, Violation},
    scen::{apply_op, cfg_by_name, integrity, std_pair_pre, wl_from_str, Op, StdPair, Wl},
    sim::{Ctl, PairCfg, Rec, CLIENT, SERVER},
    wire::WFrame,
};

#[derive(Clone, Debug, Default)]
struct Life {
    closed_at: Option<Duration>,
    pto3: Duration,
    drained_at: Option<Duration>,
    was_validated: bool,
}

#[derive(Clone, Debug, PartialEq)]
enum Kind {
    ClientClose,
    ServerClose,
    BothClose,
    /// The named node stops emitting (crash / blackhole) — the other must time out
    Blackhole(usize),
    None,
}

#[derive(Clone, Debug)]
struct Case {
    cfg: String,
    wl: Wl,
    at_step: u64,
    kind: Kind,
    /// drop mask over the datagrams emitted after the close
    mask: u64,
    dup_close: bool,
    /// an exact stateless reset reaches the closing side this many ms after its close()
    /// (the peer lost its state, e.g. restarted)
    reset_ms: Option<u64>,
    /// the application that learns of the peer's close (ConnectionLost) calls close() itself this
    /// many ms later, as many applications do in their cleanup path
    late_close_ms: Option<u64>,
    /// with `Kind::Blackhole(n)`: the other side's application calls close() this many ms after n went
    /// silent (probe timeouts have fired unanswered by then)
    close_after_silence_ms: Option<u64>,
}

fn cfgs() -> Vec<PairCfg> {
    let mut v = vec![];
    let mut c = cfg_by_name("default");
    c.client.name = "plain".into();
    v.push(c);
    // window-limited sender with a lot queued
    // the client changes its address twice during the transfer (two path validations, the peers
    // move on to fresh connection IDs and reset tokens each time)
    let mut c = cfg_by_name("default");
    c.client.name = "migrate2".into();
    v.push(c);
    let mut c = cfg_by_name("default");
    c.client.name = "cwnd3".into();
    c.client.controller = Ctl::Fixed(3 * 1200);
    v.push(c);
    let mut c = cfg_by_name("default");
    c.client.name = "pacing".into();
    c.client.pacing_cap = Some(20_000);
    v.push(c);
    let mut c = cfg_by_name("default");
    c.client.name = "tinywin".into();
    c.server.recv_window = Some(1200);
    c.server.stream_recv_window = Some(600);
    v.push(c);
    let mut c = cfg_by_name("default");
    c.client.name = "idle1s".into();
    c.client.idle_ms = Some(1000);
    c.server.idle_ms = Some(3000);
    v.push(c);
    let mut c = cfg_by_name("default");
    c.client.name = "idle1s+ka".into();
    c.client.idle_ms = Some(1000);
    c.server.idle_ms = Some(1000);
    c.client.keep_alive_ms = Some(300);
    v.push(c);
    let mut c = cfg_by_name("default");
    c.client.name = "cid0".into();
    c.cid_len = 0;
    v.push(c);
    // a server flight of several datagrams: the handshake spends several round trips in states where
    // one side holds Handshake keys but no 1-RTT keys yet
    let mut c = cfg_by_name("default");
    c.client.name = "cert10k".into();
    c.cert_len = 10_000;
    v.push(c);
    // the server advertises a preferred address: one more connection ID per connection, issued in the
    // transport parameters
    let mut c = cfg_by_name("default");
    c.client.name = "preferred-addr".into();
    c.preferred_address = true;
    v.push(c);
    // a resumed session: the ticket remembers a server that allowed 500 ms of silence; the server the
    // client reaches now allows 3 s (the client itself 5 s): 3 s is what counts
    let mut c = cfg_by_name("default");
    c.client.name = "resumed-idle".into();
    c.client.idle_ms = Some(5000);
    c.server.idle_ms = Some(3000);
    static REMEMBERED: std::sync::OnceLock<Vec<u8>> = std::sync::OnceLock::new();
    let params = REMEMBERED
        .get_or_init(|| {
            let mut old = cfg_by_name("default");
            old.client.idle_ms = Some(5000);
            old.server.idle_ms = Some(500);
            crate::checks::c17::remembered(Instant::now(), &old)
        })
        .clone();
    c.ticket = Some(crate::mtls::Ticket { server_params: params, secret: [7; 16] });
    v.push(c);
    v
}

fn cfg_named(n: &str) -> PairCfg {
    cfgs().into_iter().find(|c| c.client.name == n).unwrap_or_else(|| machinery(&format!("unknown cfg {n}")))
}

struct Out {
    steps: u64,
    trace: u64,
    viol: Vec<(String, String)>,
    close_emitted: bool,
}

fn observe(p: &StdPair, lives: &mut BTreeMap<(usize, usize), Life>) {
    for node in [SERVER, CLIENT] {
        for (ch, s) in &p.w.nodes[node].conns {
            let l = lives.entry((node, ch.0)).or_default();
            if l.closed_at.is_none() && s.conn.is_closed() {
                let pr = s.conn.verif_probe();
                l.closed_at = Some(p.w.t);
                l.pto3 = 3 * pr.spaces[pr.highest_space].pto;
                l.was_validated = pr.path_validated;
            }
            if l.drained_at.is_none() && s.conn.is_drained() {
                l.drained_at = Some(p.w.t);
            }
        }
        for (ch, s) in &p.w.nodes[node].dead {
            let l = lives.entry((node, ch.0)).or_default();
            if l.closed_at.is_none() {
                l.closed_at = Some(p.w.t);
            }
            if l.drained_at.is_none() && s.conn.is_drained() {
                l.drained_at = Some(p.w.t);
            }
        }
    }
}

fn has_close(p: &StdPair, node: usize, at: Duration) -> bool {
    let peer_cl = p.w.nodes[1 - node].cid_len;
    p.w.recs.iter().any(|r| match r {
        Rec::Emit { t, node: n, data, ch: Some(_), .. } if *t == at && *n == node => {
            ledger::decode(data, peer_cl).iter().any(|(_, fr)| fr.iter().any(|f| matches!(f, WFrame::Close { .. })))
        }
        _ => false,
    })
}

fn run_case(base: Instant, c: &Case, dump: bool) -> Out {
    let r = guarded(|| {
        let cfg = cfg_named(&c.cfg);
        let mut p = std_pair_pre(base, &cfg, c.wl, ReadMode::default(), |w| {
            w.keep_data = true;
            w.linger_dead = true;
        });
        let mut lives: BTreeMap<(usize, usize), Life> = BTreeMap::new();
        let mut closed_at: Option<Duration> = None;
        let mut lost_seen: [Option<Duration>; 2] = [None, None];
        let mut late_closed = [false; 2];
        let mut silence_closed = false;
        // where in the record log a draining connection's application called close()
        let mut draining_close: [Option<usize>; 2] = [None, None];
        let mut close_emitted = true;
        let mut amp_exempt = false;
        let mut last_rx: [Duration; 2] = [Duration::ZERO; 2];
        let horizon = Duration::from_secs(40);
        let mut rebinds_done = 0;
        loop {
            if c.cfg == "migrate2" {
                for (k, (st, a)) in [(16u64, 9usize), (34, 10)].iter().enumerate() {
                    if rebinds_done == k && p.w.steps >= *st {
                        rebinds_done += 1;
                        apply_op(&mut p, &Op::Rebind(CLIENT, crate::sim::addr(*a)));
                        apply_op(&mut p, &Op::LocalAddrChanged(CLIENT));
                    }
                }
            }
            let server_needed = matches!(c.kind, Kind::ServerClose | Kind::BothClose);
            let mut applicable_now = !server_needed || p.sch().map_or(false, |ch| p.w.nodes[SERVER].conns.contains_key(&ch));
            // a connection that is already over (idle timeout in the short-timeout configurations)
            // cannot be closed any more: such a case point is not applicable
            if matches!(c.kind, Kind::ClientClose | Kind::BothClose) && p.w.nodes[CLIENT].conns.get(&p.cch).map_or(true, |s| s.conn.is_closed()) {
                applicable_now = false;
            }
            if server_needed && p.sch().and_then(|ch| p.w.nodes[SERVER].conns.get(&ch)).map_or(true, |s| s.conn.is_closed()) {
                applicable_now = false;
            }
            if closed_at.is_none() && p.w.steps >= c.at_step && c.kind != Kind::None && applicable_now {
                closed_at = Some(p.w.t);
                let e0 = p.w.emitted;
                match &c.kind {
                    Kind::ClientClose => apply_op(&mut p, &Op::Close(CLIENT, 42)),
                    Kind::ServerClose => apply_op(&mut p, &Op::Close(SERVER, 42)),
                    Kind::BothClose => {
                        apply_op(&mut p, &Op::Close(CLIENT, 42));
                        apply_op(&mut p, &Op::Close(SERVER, 43));
                    }
                    Kind::Blackhole(n) => apply_op(&mut p, &Op::Blackhole(*n)),
                    Kind::None => {}
                }
                // faults on the datagrams emitted from now on
                p.w.mask_base = e0;
                p.w.drop_mask = c.mask;
                if c.dup_close {
                    p.w.fates.insert(e0, crate::sim::Fate::Dup(Duration::from_millis(3)));
                }
                // the close packets were emitted inside apply_op's settle before the mask was
                // set; re-apply the mask to those by removing dropped ones from the network
                let dropped: Vec<u64> = (0..64).filter(|b| (c.mask >> b) & 1 == 1).map(|b| e0 + b).collect();
                p.w.net.retain(|f| !dropped.contains(&f.idx));
                if c.dup_close {
                    let first: Vec<_> = p.w.net.iter().filter(|f| f.idx == e0).cloned().collect();
                    for mut f in first {
                        f.at += Duration::from_millis(3);
                        f.seq = p.w.seq;
                        p.w.seq += 1;
                        p.w.net.push(f);
                    }
                }
                if let Some(ms) = c.reset_ms {
                    let target = if c.kind == Kind::ServerClose { SERVER } else { CLIENT };
                    if let Some(d) = crate::scen::exact_stateless_reset(&p, target) {
                        let (src, dst) = (p.w.nodes[1 - target].addr, p.w.nodes[target].addr);
                        p.w.inject(src, dst, d, Duration::from_millis(ms));
                    }
                }
                // prompt-close oracle
                for (node, k) in [(CLIENT, Kind::ClientClose), (SERVER, Kind::ServerClose)] {
                    if c.kind == k || c.kind == Kind::BothClose {
                        let exists = if node == CLIENT { true } else { p.sch().is_some() };
                        if !exists {
                            continue;
                        }
                        // a server that has not validated the client's address may be blocked by
                        // the anti-amplification limit: legitimate exception
                        let ch = if node == CLIENT { p.cch } else { p.sch().unwrap() };
                        if let Some(s) = p.w.slot(node, ch) {
                            let pr = s.conn.verif_probe();
                            if node == SERVER && !pr.path_validated && pr.path_total_sent >= 3 * pr.path_total_recvd {
                                amp_exempt = true;
                                continue;
                            }
                            if !s.conn.is_closed() {
                                continue;
                            }
                        }
                        if !has_close(&p, node, p.w.t) {
                            close_emitted = false;
                        }
                    }
                }
            }
            observe(&p, &mut lives);
            if let (Some(ms), Kind::Blackhole(n), Some(t0)) = (c.close_after_silence_ms, &c.kind, closed_at) {
                let other = 1 - *n;
                if !silence_closed && p.w.t >= t0 + Duration::from_millis(ms) {
                    silence_closed = true;
                    apply_op(&mut p, &Op::Close(other, 55));
                }
            }
            if let Some(ms) = c.late_close_ms {
                for node in [CLIENT, SERVER] {
                    let chs: Vec<proto::ConnectionHandle> = p.w.nodes[node].conns.keys().copied().collect();
                    for ch in chs {
                        let Some(sl) = p.w.nodes[node].conns.get(&ch) else { continue };
                        if sl.lost.is_empty() || late_closed[node] {
                            continue;
                        }
                        let t0 = *lost_seen[node].get_or_insert(p.w.t);
                        if p.w.t >= t0 + Duration::from_millis(ms) {
                            late_closed[node] = true;
                            if sl.conn.verif_probe().state == "draining" {
                                draining_close[node] = Some(p.w.recs.len());
                            }
                            apply_op(&mut p, &Op::Close(node, 77));
                        }
                    }
                }
            }
            for r in p.w.recs.iter().rev().take(4) {
                if let Rec::Deliver { node, t, routed: crate::sim::Routed::Conn(_), .. } = r {
                    if *node < 2 {
                        last_rx[*node] = last_rx[*node].max(*t);
                    }
                }
            }
            if p.w.steps > 30_000 {
                break;
            }
            match p.w.next_event() {
                None => break,
                Some((at, _)) if at > horizon => break,
                _ => {}
            }
            p.w.step();
        }
        observe(&p, &mut lives);
        (p, lives, closed_at, close_emitted, amp_exempt, last_rx, draining_close)
    });
    match r {
        Err(e) => Out { steps: 0, trace: 0, viol: vec![("panic".into(), format!("panic: {e}"))], close_emitted: false },
        Ok((mut p, lives, closed_at, close_emitted, _amp, last_rx, draining_close)) => {
            if dump {
                print!("{}", crate::trace::dump(&p.w));
                println!("lives={lives:?} closed_at={closed_at:?}");
            }
            let mut v: Vec<(String, String)> = vec![];
            // a draining endpoint sends nothing (RFC 9000 10.2.2), whatever its application calls
            for node in [CLIENT, SERVER] {
                if let Some(pos) = draining_close[node] {
                    if let Some(Rec::Emit { t, data, .. }) = p.w.recs[pos..].iter().find(|r| matches!(r, Rec::Emit { node: n, ch: Some(_), .. } if *n == node)) {
                        v.push(("sent-while-draining".into(), format!("node{node} had received the peer's close (draining); its application then called close() and the connection sent a {}-byte datagram at {t:?}", data.len())));
                    }
                }
            }
            let cfg = cfg_named(&c.cfg);
            let local_closer = |node: usize| match c.kind {
                Kind::ClientClose => node == CLIENT,
                Kind::ServerClose => node == SERVER,
                Kind::BothClose => true,
                _ => false,
            };
            let no_loss = c.mask == 0 && !matches!(c.kind, Kind::Blackhole(_));
            for node in [SERVER, CLIENT] {
                let who = if node == CLIENT { "client" } else { "server" };
                let n = &p.w.nodes[node];
                for (ch, s) in n.conns.iter().map(|(c, s)| (*c, s)).chain(n.dead.iter().map(|(c, s)| (*c, s))) {
                    let life = lives.get(&(node, ch.0)).cloned().unwrap_or_default();
                    // (1) reported at most once, never to the local closer (unless the peer closed first)
                    if s.lost.len() > 1 {
                        v.push((format!("lost-reported-twice:{who}"), format!("{who} got ConnectionLost {} times: {:?}", s.lost.len(), s.lost)));
                    }
                    if local_closer(node) && c.kind != Kind::BothClose && !s.lost.is_empty() && closed_at.map_or(false, |t| life.closed_at == Some(t)) {
                        // the reason's kind is part of the signature, so that a known finding about one
                        // reason does not hide a report with another
                        let kind: String = s.lost.first().map(|l| format!("{l:?}").chars().take_while(|c| c.is_alphanumeric()).collect()).unwrap_or_default();
                        v.push((format!("local-close-reported:{who}:{kind}"), format!("{who} closed locally but got ConnectionLost {:?}", s.lost)));
                    }
                    if s.app.obs.events_after_lost > 0 {
                        v.push((format!("events-after-lost:{who}"), format!("{who} received {} events after ConnectionLost", s.app.obs.events_after_lost)));
                    }
                    // reason seen by the peer of a local closer on a lossless path
                    if !local_closer(node) && local_closer(1 - node) && no_loss {
                        let code = if node == SERVER { 42 } else { 42 };
                        let ok = s.lost.iter().any(|e| {
                            let d = format!("{e:?}");
                            (d.contains("ApplicationClosed") && d.contains(&format!("error_code: {code}")) && d.contains("bye"))
                                || (d.contains("ConnectionClosed") && d.contains("APPLICATION_ERROR"))
                        });
                        // (a peer whose own connection had ended before the close cannot learn of it)
                        let timed_out = s.lost.iter().any(|e| format!("{e:?}").contains("TimedOut"));
                        let peer_was_alive = match (life.closed_at, closed_at) {
                            (Some(t), Some(c)) => !(timed_out && t <= c + p.w.latency + Duration::from_millis(5)),
                            // the close never took place (not applicable at any step)
                            (_, None) => false,
                            _ => true,
                        };
                        if !ok && close_emitted && peer_was_alive {
                            v.push((format!("peer-did-not-learn-close:{who}"), format!("{who} should have seen the peer's close(42, \"bye\") over a lossless path, saw {:?} (state closed_at={:?})", s.lost, life.closed_at)));
                        }
                    }
                    // (3) drained within 3 PTO of closing; exactly one Drained
                    if let Some(tc) = life.closed_at {
                        match life.drained_at {
                            Some(td) => {
                                if td > tc + life.pto3 + Duration::from_millis(2) {
                                    v.push((format!("drained-late:{who}"), format!("{who} closed at {tc:?}, drained at {td:?}, 3*PTO={:?}", life.pto3)));
                                }
                            }
                            None => {
                                if p.w.t > tc + life.pto3 + Duration::from_millis(2) {
                                    v.push((format!("never-drained:{who}"), format!("{who} closed at {tc:?} and is not drained at {:?}, 3*PTO={:?}", p.w.t, life.pto3)));
                                }
                            }
                        }
                        if life.drained_at.is_some() && s.drained_events != 1 {
                            v.push((format!("drained-event-count:{who}"), format!("{who} emitted {} Drained endpoint events", s.drained_events)));
                        }
                    }
                    // (5) idle timeout bounds when the peer was black-holed
                    if let Kind::Blackhole(dead) = c.kind {
                        if node != dead {
                            let idle = match (cfg.client.idle_ms, cfg.server.idle_ms) {
                                (Some(a), Some(b)) => Some(a.min(b)),
                                (Some(a), None) | (None, Some(a)) => Some(a),
                                (None, None) => None,
                            };
                            let timed_out = s.lost.iter().any(|e| matches!(e, proto::ConnectionError::TimedOut));
                            if let Some(idle) = idle {
                                let idle = Duration::from_millis(idle as u64);
                                if timed_out {
                                    let td = life.drained_at.unwrap_or(p.w.t);
                                    // (before the handshake completes the peer's timeout is not known yet;
                                    // a resuming client goes by what it remembers)
                                    if s.app.obs.connected && td + Duration::from_millis(1) < last_rx[node] + idle {
                                        v.push((format!("idle-too-early:{who}"), format!("{who} timed out at {td:?}, last packet received at {:?}, idle timeout {idle:?}", last_rx[node])));
                                    }
                                } else if s.lost.is_empty() && p.w.t > last_rx[node] + 8 * idle + Duration::from_secs(20) {
                                    v.push((format!("idle-never:{who}"), format!("{who} never timed out although the peer has been silent since {:?} (idle {idle:?}, now {:?})", last_rx[node], p.w.t)));
                                }
                            } else if timed_out {
                                v.push((format!("idle-without-timeout:{who}"), format!("{who} timed out although no idle timeout is negotiated")));
                            }
                        }
                    }
                }
            }
            // an application's close (its own code and reason, frame type 0x1d) may only travel in
            // 1-RTT / 0-RTT packets; in Initial and Handshake packets the generic transport-level close
            // stands in for it (RFC 9000 10.2.3)
            {
                let mut reported = false;
                for r in &p.w.recs {
                    if let Rec::Emit { node, data, dst, t, idx, .. } = r {
                        if *node > 1 || reported {
                            continue;
                        }
                        let peer_cl = crate::ledger::cid_len_of(&p.w, *dst);
                        for (pk, frames) in crate::ledger::decode(data, peer_cl) {
                            if matches!(pk.ty, crate::wire::PType::Initial | crate::wire::PType::Handshake) && frames.iter().any(|f| matches!(f, WFrame::Close { app: true, .. })) {
                                reported = true;
                                v.push(("application-close-in-handshake-packet".into(), format!("node{node} at {t:?}: datagram #{idx} carries the application's CONNECTION_CLOSE (0x1d) in a {:?} packet", pk.ty)));
                            }
                        }
                    }
                }
            }
            if !close_emitted {
                v.push((
                    "close-not-announced-at-once".into(),
                    format!("close() at step {} (t={closed_at:?}) emitted no CONNECTION_CLOSE in the same settle step", c.at_step),
                ));
            }
            // (4) after draining: endpoint forgot the connection, and its identifiers do not route
            if let Some(o) = p.w.post_drain_output.first() {
                v.push(("activity-after-drained".into(), format!("a connection that had emitted its final Drained notification still produced: {o} ({} items)", p.w.post_drain_output.len())));
            }
            let all_drained = [SERVER, CLIENT].iter().all(|n| p.w.nodes[*n].conns.is_empty());
            if all_drained && c.kind != Kind::None {
                for node in [SERVER, CLIENT] {
                    let who = if node == CLIENT { "client" } else { "server" };
                    if p.w.nodes[node].ep.open_connections() != 0 {
                        v.push((format!("endpoint-remembers:{who}"), format!("{who} endpoint still counts {} open connections after Drained", p.w.nodes[node].ep.open_connections())));
                    }
                }
                // replay every datagram the client ever sent: none may be routed to a connection
                let olds: Vec<(Vec<u8>, std::net::SocketAddr, std::net::SocketAddr)> = p.w.recs.iter().filter_map(|r| match r {
                    Rec::Emit { node, data, src, dst, ch: Some(_), .. } if *node == CLIENT && data.len() < 1200 => Some((data.clone(), *src, *dst)),
                    _ => None,
                }).collect();
                let pol = p.w.nodes[SERVER].policy;
                p.w.nodes[SERVER].policy = crate::sim::AcceptPolicy::Ignore;
                for (d, src, dst) in olds.into_iter().take(40) {
                    let r = p.w.deliver(crate::sim::Flight { at: p.w.t, seq: 0, idx: u64::MAX, src, dst, ecn: None, data: d, injected: true });
                    if let crate::sim::Routed::Conn(ch) = r {
                        v.push(("stale-cid-routes".into(), format!("a datagram of the drained connection was routed to connection handle {}", ch.0)));
                        break;
                    }
                }
                // every connection ID either endpoint's generator ever produced (whether or not it
                // was put on the wire in a frame: the preferred-address CID travels in the transport
                // parameters) is forgotten too: a short-header datagram addressed to it reaches nobody
                'cids: for target in [SERVER, CLIENT] {
                    let cl = p.w.nodes[target].cid_len;
                    if cl == 0 {
                        continue;
                    }
                    let (src, dst) = (p.w.nodes[1 - target].addr, p.w.nodes[target].addr);
                    for n in 0..24u64 {
                        let mut g = crate::sim::CounterCid { len: cl, next: n, tag: p.w.nodes[target].seed, lifetime: None };
                        let cid = proto::ConnectionIdGenerator::generate_cid(&mut g);
                        let mut d = vec![0x43u8];
                        d.extend_from_slice(&cid);
                        d.extend((0..30).map(|i| (i * 11 + 3) as u8));
                        let r = p.w.deliver(crate::sim::Flight { at: p.w.t, seq: 0, idx: u64::MAX, src, dst, ecn: None, data: d, injected: true });
                        if let crate::sim::Routed::Conn(ch) = r {
                            v.push(("forgotten-connection-id-routes".into(), format!("after both connections drained, a datagram addressed to connection ID {:02x?} (the {n}-th this endpoint generated) was handed to connection handle {} at node{target}", &cid[..], ch.0)));
                            break 'cids;
                        }
                    }
                }
                // ... and neither may anything that looks like a stateless reset for it: every reset
                // token either side ever issued (one per connection ID on the wire, plus the one in
                // the server's transport parameters), presented from every address the peer ever used
                let mut addrs: [std::collections::BTreeSet<std::net::SocketAddr>; 2] = Default::default();
                let mut cids: [Vec<Vec<u8>>; 2] = Default::default();
                for r in &p.w.recs {
                    if let Rec::Emit { node, data, src, dst, ch: Some(_), .. } = r {
                        if *node > 1 {
                            continue;
                        }
                        addrs[*node].insert(*src);
                        let peer_cl = crate::ledger::cid_len_of(&p.w, *dst);
                        for (pk, frames) in crate::ledger::decode(data, peer_cl) {
                            if pk.ty != crate::wire::PType::Short && !pk.scid.is_empty() && !cids[*node].contains(&pk.scid) {
                                cids[*node].push(pk.scid.clone());
                            }
                            for f in frames {
                                if let crate::wire::WFrame::NewConnectionId { cid, .. } = f {
                                    if !cids[*node].contains(&cid) {
                                        cids[*node].push(cid);
                                    }
                                }
                            }
                        }
                    }
                }
                'outer: for target in [SERVER, CLIENT] {
                    let peer = 1 - target;
                    let seed = p.w.nodes[peer].seed;
                    let dst = p.w.nodes[target].addr;
                    for src in addrs[peer].clone() {
                        for cid in cids[peer].clone() {
                            let tok = crate::sim::reset_token_for(seed, &cid);
                            let mut d: Vec<u8> = (0..30).map(|i| 0x40 | ((i * 7) as u8 & 0x3f)).collect();
                            d.extend_from_slice(&tok);
                            let r = p.w.deliver(crate::sim::Flight { at: p.w.t, seq: 0, idx: u64::MAX, src, dst, ecn: None, data: d, injected: true });
                            if let crate::sim::Routed::Conn(ch) = r {
                                v.push(("stale-reset-token-routes".into(), format!("after both connections drained, a stateless reset for connection ID {cid:02x?} presented to node{target} from {src} was routed to connection handle {}", ch.0)));
                                break 'outer;
                            }
                        }
                    }
                }
                p.w.nodes[SERVER].policy = pol;
            }
            for (s, w) in integrity(&p) {
                v.push((format!("integrity:{s}"), w));
            }
            Out { steps: p.w.steps, trace: p.w.trace_hash(), viol: v, close_emitted }
        }
    }
}

/// A side that has been quiet sends an ack-eliciting packet `delta` before its idle deadline; the
/// answer arrives after that deadline. Sending restarts the idle timer (RFC 9000 10.1), so nobody
/// may time out while this exchange repeats. Returns violations.
fn run_late_sender(base: Instant, idle_ms: u32, lat_ms: u64, delta_ms: u64, who: usize, keep_alive: Option<u64>, dump: bool) -> Result<(Vec<(String, String)>, u64), String> {
    guarded(|| {
        let mut cfg = cfg_by_name("default");
        cfg.client.idle_ms = Some(idle_ms);
        cfg.server.idle_ms = Some(idle_ms);
        cfg.latency = Duration::from_millis(lat_ms);
        if let Some(k) = keep_alive {
            // keep-alive on the OTHER side only, slower than the idle period: it must not matter
            if who == CLIENT { cfg.server.keep_alive_ms = Some(k) } else { cfg.client.keep_alive_ms = Some(k) }
        }
        let mut p = std_pair_pre(base, &cfg, Wl::W0, ReadMode::default(), |_| {});
        let mut viol = vec![];
        // handshake and its aftermath (MTU probes, NEW_CONNECTION_ID exchanges) settle
        let mut g = 0;
        while g < 5000 {
            g += 1;
            let quiet = p.w.net.is_empty() && p.client().app.obs.handshake_confirmed;
            let idle_only = [CLIENT, SERVER].iter().all(|n| p.w.nodes[*n].conns.values().all(|s| s.conn.verif_probe().timers.iter().all(|(name, _)| *name == "Idle" || *name == "KeepAlive" || *name == "PushNewCid")));
            if quiet && idle_only {
                break;
            }
            if !p.w.step() {
                break;
            }
        }
        let ch = |p: &StdPair, n: usize| if n == CLIENT { Some(p.cch) } else { p.sch() };
        let mut rounds = 0u64;
        let mut not_applicable = false;
        for round in 0..3 {
            // the peer speaks first, so that its own idle deadline (restarted by our acknowledgement)
            // lies after ours and the late PING reaches it in time
            apply_op(&mut p, &Op::Ping(1 - who));
            let settle_until = p.w.t + Duration::from_millis(2 * lat_ms + 40);
            while let Some((at, _)) = p.w.next_event() {
                if at > settle_until {
                    break;
                }
                p.w.step();
            }
            let Some(c) = ch(&p, who) else { break };
            let Some(deadline) = p.w.slot(who, c).and_then(|s| s.conn.verif_probe().timers.iter().find(|(n, _)| *n == "Idle").map(|(_, t)| t.saturating_duration_since(p.w.base))) else { break };
            let target = deadline.saturating_sub(Duration::from_millis(delta_ms));
            if target <= p.w.t {
                break;
            }
            // run whatever is due before the target instant, then act exactly at it
            while let Some((at, _)) = p.w.next_event() {
                if at > target {
                    break;
                }
                p.w.step();
            }
            p.w.t = target;
            apply_op(&mut p, &Op::Ping(who));
            rounds += 1;
            // until well after the old deadline
            let until = deadline + Duration::from_millis(4 * lat_ms + 60);
            while let Some((at, _)) = p.w.next_event() {
                if at > until {
                    break;
                }
                p.w.step();
            }
            let lost_of = |p: &StdPair, node: usize| -> Vec<String> { p.w.nodes[node].conns.values().chain(p.w.nodes[node].dead.iter().map(|(_, s)| s)).flat_map(|s| s.lost.iter().map(|e| format!("{e:?}"))).collect() };
            let (mine, theirs) = (lost_of(&p, who), lost_of(&p, 1 - who));
            // if the PING reached the peer only after the peer's own deadline, the peer rightly timed
            // out (and we are reset): not a case for this oracle. What may not happen is that the
            // sender itself times out although it has just restarted its timer by sending.
            if mine.iter().any(|l| l == "TimedOut") {
                viol.push(("sender-timed-out-after-restarting-idle-timer".into(), format!("round {round}: node{who} sent a PING {delta_ms} ms before its idle deadline ({deadline:?}), which restarts the timer, and timed out anyway (peer: {theirs:?})")));
            } else if !mine.is_empty() || !theirs.is_empty() {
                not_applicable = true;
            }
            if !viol.is_empty() || not_applicable {
                break;
            }
        }
        if dump {
            print!("{}", crate::trace::dump(&p.w));
        }
        (viol, rounds)
    })
}

pub fn main(args: &Args) -> ! {
    if args.replay.is_some() {
        replay(args);
    }
    explore::quiet_panics();
    let base = Instant::now();
    let mut rep = Report::new("C08", args, "fault_enumeration");
    let thorough = args.tier == Tier::Thorough;
    let dl = deadline(if thorough { 1200 } else { 45 });
    rep.rule = "E3 over close/crash points: for each (configuration, workload) the baseline is run once to count its steps; then for EVERY step index j of it and each kind in {client close, server close, both close, client black-holed, server black-holed} and each drop mask over the first M datagrams emitted after the close (plus duplication of the first close packet, plus an exact stateless reset reaching the closing side 1 ms / 40 ms after its close, as from a peer that lost its state) a complete execution is run on the real endpoints and the termination oracles are evaluated. Late senders: for idle timeouts 1 s / 3 s x one-way latencies 10/100/200 ms x either side, a quiet connection's side sends a PING 5..350 ms before its idle deadline (three rounds; the answer arrives after the old deadline): nobody may time out. Non-trivial = the run differs from the baseline by trace hash; distinct = distinct trace hashes.".into();
    let wls: Vec<(String, Wl)> = vec![("W1".into(), Wl::W1), ("W6".into(), Wl::W6), ("W2".into(), Wl::W2), ("W0".into(), Wl::W0)];
    let mbits = if thorough { 6 } else { 3 };
    let mut cases = vec![];
    let mut baselines = BTreeMap::new();
    for cfg in cfgs() {
        for (wn, wl) in &wls {
            let heavy = cfg.client.name == "plain" || cfg.client.name == "cwnd3";
            if !thorough && !heavy && *wl != Wl::W6 {
                continue;
            }
            if !thorough && heavy && *wl == Wl::W2 {
                continue;
            }
            let b = run_case(base, &Case { cfg: cfg.client.name.clone(), wl: *wl, at_step: 0, kind: Kind::None, mask: 0, dup_close: false, reset_ms: None, late_close_ms: None, close_after_silence_ms: None }, false);
            baselines.insert((cfg.client.name.clone(), wn.clone()), b.trace);
            let nsteps = b.steps.min(if thorough { 200 } else { 90 });
            let stride = if thorough || nsteps < 50 { 1 } else { 2 };
            for j in (0..nsteps).step_by(stride) {
                for kind in [Kind::ClientClose, Kind::ServerClose, Kind::BothClose] {
                    for mask in 0..(1u64 << mbits) {
                        if !heavy && mask != 0 && mask != 1 {
                            continue;
                        }
                        cases.push(Case { cfg: cfg.client.name.clone(), wl: *wl, at_step: j, kind: kind.clone(), mask, dup_close: false, reset_ms: None, late_close_ms: None, close_after_silence_ms: None });
                    }
                    cases.push(Case { cfg: cfg.client.name.clone(), wl: *wl, at_step: j, kind: kind.clone(), mask: 0, dup_close: true, reset_ms: None, late_close_ms: None, close_after_silence_ms: None });
                    if kind != Kind::BothClose && heavy {
                        for ms in [0u64, 40] {
                            cases.push(Case { cfg: cfg.client.name.clone(), wl: *wl, at_step: j, kind: kind.clone(), mask: 0, dup_close: false, reset_ms: None, late_close_ms: Some(ms), close_after_silence_ms: None });
                        }
                    }
                    if kind != Kind::BothClose && heavy {
                        for ms in [1u64, 40] {
                            cases.push(Case { cfg: cfg.client.name.clone(), wl: *wl, at_step: j, kind: kind.clone(), mask: 0, dup_close: false, reset_ms: Some(ms), late_close_ms: None, close_after_silence_ms: None });
                            cases.push(Case { cfg: cfg.client.name.clone(), wl: *wl, at_step: j, kind: kind.clone(), mask: 1, dup_close: false, reset_ms: Some(ms), late_close_ms: None, close_after_silence_ms: None });
                        }
                    }
                }
                if cfg.client.idle_ms.is_some() || cfg.client.name == "plain" {
                    for n in [CLIENT, SERVER] {
                        cases.push(Case { cfg: cfg.client.name.clone(), wl: *wl, at_step: j, kind: Kind::Blackhole(n), mask: 0, dup_close: false, reset_ms: None, late_close_ms: None, close_after_silence_ms: None });
                        if cfg.client.name == "plain" && j % 4 == 0 {
                            for ms in [700u64, 3000] {
                                cases.push(Case { cfg: cfg.client.name.clone(), wl: *wl, at_step: j, kind: Kind::Blackhole(n), mask: 0, dup_close: false, reset_ms: None, late_close_ms: None, close_after_silence_ms: Some(ms) });
                            }
                        }
                    }
                }
            }
        }
    }
    // the client closes before its first flight has left: the only datagram the server ever sees is an
    // Initial carrying CONNECTION_CLOSE. Whatever the server creates for it must be gone within 3 PTO
    {
        let mut n = 0u64;
        for cfg in cfgs() {
            for hold in [false, true] {
                n += 1;
                rep.evaluations += 1;
                let r = explore::guarded(|| {
                    let mut p = std_pair_pre(base, &cfg, Wl::W1, ReadMode::default(), |w| {
                        w.connect_unsettled = true;
                        if hold {
                            w.nodes[SERVER].policy = crate::sim::AcceptPolicy::Hold;
                        }
                    });
                    let now = p.w.now();
                    let ch = p.cch;
                    if let Some(s) = p.w.nodes[CLIENT].conns.get_mut(&ch) {
                        s.conn.close(now, proto::VarInt::from_u32(7), bytes::Bytes::from_static(b"early"));
                    }
                    p.w.settle_conn(CLIENT, ch);
                    let mut g = 0;
                    while g < 2000 && p.w.t < Duration::from_secs(8) {
                        g += 1;
                        if hold && p.w.steps == 3 {
                            apply_op(&mut p, &Op::AcceptHeld);
                        }
                        if !p.w.step() {
                            break;
                        }
                    }
                    if hold {
                        apply_op(&mut p, &Op::AcceptHeld);
                        let until = p.w.t + Duration::from_secs(8);
                        let mut g = 0;
                        while g < 2000 {
                            g += 1;
                            match p.w.next_event() {
                                Some((at, _)) if at <= until => {
                                    p.w.step();
                                }
                                _ => break,
                            }
                        }
                    }
                    let alive: Vec<String> = p.w.nodes[SERVER].conns.values().filter(|s| !s.conn.is_drained()).map(|s| format!("{} (timers {:?})", s.conn.verif_probe().state, s.conn.verif_probe().timers.iter().map(|t| t.0).collect::<Vec<_>>())).collect();
                    (alive, p.w.nodes[SERVER].ep.open_connections(), p.w.t)
                });
                let rj = json!({"check":"c08","kind":"close_before_first_flight","cfg":cfg.client.name,"hold":hold});
                match r {
                    Err(e) => rep.violation(Violation { signature: "panic".into(), what: format!("cfg={} close before the first flight: panic: {e}", cfg.client.name), replay: rj }),
                    Ok((alive, open, t)) => {
                        if !alive.is_empty() || open != 0 {
                            rep.violation(Violation { signature: "never-drained:server:close-in-first-initial".into(), what: format!("cfg={} accept {}: the client closed before sending anything, its only datagram is an Initial carrying CONNECTION_CLOSE; {t:?} later the server still has {open} open connection(s): {alive:?}", cfg.client.name, if hold { "held by the application for a while" } else { "at once" }), replay: rj });
                        }
                    }
                }
            }
        }
        rep.part("close_before_first_flight", json!({"cases": n}));
    }
    let total = cases.len();
    let (res, capped) = e3(cases, dl, |c| run_case(base, c, false));
    rep.exhaustive = !capped;
    let mut prompt_checked = 0u64;
    for (c, o) in &res {
        rep.evaluations += 1;
        if baselines.get(&(c.cfg.clone(), format!("{:?}", c.wl))) != Some(&o.trace) {
            rep.distinct.insert(o.trace);
        }
        if o.close_emitted {
            prompt_checked += 1;
        }
        for (sig, what) in &o.viol {
            let sig2 = if sig == "close-not-announced-at-once" || sig.starts_with("peer-did-not-learn-close") {
                format!("{sig}:{}", c.cfg)
            } else {
                sig.clone()
            };
            rep.violation(Violation {
                signature: sig2,
                what: format!("cfg={} wl={:?} kind={:?} step={} mask={:#b} dup_close={} stateless-reset-after={:?}ms close()-after-ConnectionLost={:?}ms close()-after-silence={:?}ms: {what}", c.cfg, c.wl, c.kind, c.at_step, c.mask, c.dup_close, c.reset_ms, c.late_close_ms, c.close_after_silence_ms),
                replay: json!({"check":"c08","cfg":c.cfg,"wl":format!("{:?}",c.wl),"kind":format!("{:?}",c.kind),"step":c.at_step,"mask":c.mask,"dup_close":c.dup_close,"reset_ms":c.reset_ms,"late_close_ms":c.late_close_ms,"close_after_silence_ms":c.close_after_silence_ms}),
            });
        }
    }
    // keep-alive: a connection that keeps exchanging keep-alives never times out
    let ka = guarded(|| {
        let cfg = cfg_named("idle1s+ka");
        let mut p = std_pair_pre(base, &cfg, Wl::W1, ReadMode::default(), |_| {});
        while p.w.steps < 5000 {
            match p.w.next_event() {
                Some((at, _)) if at <= Duration::from_secs(12) => {
                    p.w.step();
                }
                _ => break,
            }
        }
        let lost: Vec<String> = [CLIENT, SERVER].iter().flat_map(|n| p.w.nodes[*n].conns.values().chain(p.w.nodes[*n].dead.iter().map(|(_, s)| s)).flat_map(|s| s.lost.iter().map(|e| format!("{e:?}"))).collect::<Vec<_>>()).collect();
        (lost, p.w.t, p.w.steps)
    });
    rep.evaluations += 1;
    match ka {
        Ok((lost, t, steps)) => {
            if !lost.is_empty() {
                rep.violation(Violation { signature: "keepalive-timed-out".into(), what: format!("with keep-alive 300 ms and idle timeout 1 s the connection was lost within {t:?}: {lost:?}"), replay: json!({"check":"c08","cfg":"idle1s+ka","kind":"keepalive"}) });
            }
            // late senders: an ack-eliciting packet sent shortly before the idle deadline restarts the timer
    {
        let mut tasks = vec![];
        for idle in [1000u32, 3000] {
            for lat in [10u64, 100, 200] {
                for delta in [5u64, 20, 90, 180, 350] {
                    for who in [CLIENT, SERVER] {
                        for ka in [None, Some(idle as u64 * 2)] {
                            if (delta as u32) < idle / 2 {
                                tasks.push((idle, lat, delta, who, ka));
                            }
                        }
                    }
                }
            }
        }
        let planned = tasks.len();
        let (res, capped) = e3(tasks, dl, |&(idle, lat, delta, who, ka)| run_late_sender(base, idle, lat, delta, who, ka, false));
        rep.exhaustive &= !capped;
        let mut rounds_total = 0u64;
        for ((idle, lat, delta, who, ka), r) in &res {
            rep.evaluations += 1;
            let rj = json!({"check":"c08","kind":"late-sender","idle_ms":idle,"lat_ms":lat,"delta_ms":delta,"who":who,"keep_alive_other":ka});
            match r {
                Err(e) => rep.violation(Violation { signature: "panic".into(), what: format!("late sender idle={idle} lat={lat} delta={delta}: panic: {e}"), replay: rj }),
                Ok((v, rounds)) => {
                    rounds_total += rounds;
                    let mut h = std::collections::hash_map::DefaultHasher::new();
                    ("late", idle, lat, delta, who, ka).hash(&mut h);
                    rep.distinct.insert(h.finish());
                    for (sig, what) in v {
                        rep.violation(Violation { signature: sig.clone(), what: format!("idle timeout {idle} ms, one-way latency {lat} ms: {what}"), replay: rj.clone() });
                    }
                }
            }
        }
        rep.part("late_senders", json!({"planned": planned, "executed": res.len(), "rounds": rounds_total, "capped": capped}));
        if rounds_total == 0 {
            machinery("vacuity guard: no late-sender round was ever played");
        }
    }
    rep.part("keepalive", json!({"virtual_time_s": t.as_secs_f64(), "steps": steps, "lost": lost}));
        }
        Err(e) => rep.violation(Violation { signature: "panic".into(), what: e, replay: json!({"check":"c08","kind":"keepalive"}) }),
    }
    rep.part("close_points", json!({"cases": total, "executed": res.len(), "mask_bits": mbits, "capped": capped, "prompt_close_observed": prompt_checked}));
    rep.sample(json!({"cfg":"cwnd3","wl":"W6","kind":"ClientClose","step":40,"mask":0,"meaning":"the client application calls close(42,\"bye\") right after step 40 of the run, while its congestion window (3 datagrams) is full and 60 kB are queued"}));
    rep.assumptions = vec![
        "3*PTO bound evaluated with the PTO of the highest packet space read through the probe at the moment the connection closed, plus 2 ms timer granularity".into(),
        "a server whose peer address is unvalidated and whose anti-amplification budget is exhausted is exempt from the prompt-close oracle".into(),
        "stateless reset and protocol-violation induced closes are exercised in C04 / C03".into(),
    ];
    let _ = (wl_from_str, ConnectionHandle(0));
    rep.finish()
}

fn parse_kind(s: &str) -> Kind {
    match s {
        "ClientClose" => Kind::ClientClose,
        "ServerClose" => Kind::ServerClose,
        "BothClose" => Kind::BothClose,
        "Blackhole(0)" => Kind::Blackhole(0),
        "Blackhole(1)" => Kind::Blackhole(1),
        _ => Kind::None,
    }
}

fn replay(args: &Args) -> ! {
    let path = args.replay.as_ref().unwrap();
    let v: Value = serde_json::from_str(&std::fs::read_to_string(path).unwrap_or_else(|e| machinery(&format!("{e}")))).unwrap_or_else(|e| machinery(&format!("{e}")));
    let r = &v["replay"];
    if r["kind"].as_str() == Some("late-sender") {
        let g = |k: &str| r[k].as_u64().unwrap_or(0);
        let out = run_late_sender(Instant::now(), g("idle_ms") as u32, g("lat_ms"), g("delta_ms"), g("who") as usize, r["keep_alive_other"].as_u64(), true);
        println!("{out:?}");
        std::process::exit(0);
    }
    let c = Case {
        cfg: r["cfg"].as_str().unwrap_or("plain").to_string(),
        wl: wl_from_str(r["wl"].as_str().unwrap_or("W1")),
        at_step: r["step"].as_u64().unwrap_or(0),
        kind: parse_kind(r["kind"].as_str().unwrap_or("")),
        mask: r["mask"].as_u64().unwrap_or(0),
        dup_close: r["dup_close"].as_bool().unwrap_or(false),
        reset_ms: r["reset_ms"].as_u64(),
        late_close_ms: r["late_close_ms"].as_u64(),
        close_after_silence_ms: r["close_after_silence_ms"].as_u64(),
    };
    let o = run_case(Instant::now(), &c, true);
    println!("violations: {:?}", o.viol);
    let mut h = std::collections::hash_map::DefaultHasher::new();
    o.trace.hash(&mut h);
    std::process::exit(0)
}
