//! C01 — stream data reliable, ordered, exactly once. E2 over per-datagram fates on whole
//! connections (the component-level E1 searches live in /verif/comp and are merged in here).

use std::time::{Duration, Instant};

use serde_json::json;

use crate::{
    app::ReadMode,
    explore::{self, deadline, e2, fates_of, guarded, Devs, RunOut, FATE_ALTS, FATE_ALTS3},
    report::{Args, Report, Tier, Violation},
    scen::{self, cfg_by_name, completion, diagnose, drive, integrity, std_pair_pre, Op, Wl},
    sim::{PairCfg, CLIENT, SERVER},
};

#[derive(Clone)]
pub struct Case {
    pub cfg: PairCfg,
    pub wl: Wl,
    pub read: ReadMode,
    pub script: Vec<(u64, Op)>,
    pub window: (u64, u64),
    pub name: String,
}

fn read_modes() -> Vec<(&'static str, ReadMode)> {
    vec![
        ("ordered", ReadMode::default()),
        ("ordered7", ReadMode { ordered: true, max_len: 7, switch_unordered_after: None }),
        ("unordered", ReadMode { ordered: false, max_len: usize::MAX, switch_unordered_after: None }),
        ("ord-then-unord", ReadMode { ordered: true, max_len: 100, switch_unordered_after: Some(700) }),
    ]
}

pub fn cases(thorough: bool) -> Vec<Case> {
    let mut v = vec![];
    let cfgs: Vec<&str> = if thorough {
        vec!["default", "lat0", "lat200", "tinywin", "win63", "sendwin2000", "gso1", "ackfreq", "mtu1452", "mtudoff", "cid0", "newreno", "pacing50k", "padmtu", "cidlife", "retry", "bbr", "streams1", "nopace"]
    } else {
        vec!["default", "tinywin", "sendwin2000", "gso1", "ackfreq", "mtu1452", "lat0"]
    };
    let wls = [Wl::W1, Wl::W2, Wl::W4, Wl::W8, Wl::W9, Wl::W11];
    let windows: [(&str, (u64, u64)); 2] = [("start", (0, 26)), ("mid", (14, 40))];
    let rms = read_modes();
    let mut i = 0usize;
    for c in &cfgs {
        for wl in wls {
            // covering design: each (cfg, wl) gets one read mode and one window in rotation in
            // the quick tier, all of them in thorough
            for (ri, (rn, rm)) in rms.iter().enumerate() {
                for (wi, (wn, win)) in windows.iter().enumerate() {
                    if !thorough && (ri + wi * 2 + i) % 2 != 0 {
                        continue;
                    }
                    v.push(Case {
                        cfg: cfg_by_name(c),
                        wl,
                        read: *rm,
                        script: vec![],
                        window: *win,
                        name: format!("{c}/{wl:?}/{rn}/{wn}"),
                    });
                }
            }
            i += 1;
        }
    }
    // stream slots are scarce and one stream is abandoned: whatever the endpoint recycles for the
    // streams that follow must start clean
    for (c, win) in [("streams1", (8u64, 30u64)), ("default", (8, 30))] {
        let mut cfg = cfg_by_name(c);
        if c == "default" {
            cfg.server.max_uni = Some(2);
            cfg.server.max_bidi = Some(1);
            cfg.client.name = "streams2".into();
        }
        v.push(Case { cfg, wl: Wl::W12, read: ReadMode::default(), script: vec![], window: win, name: format!("{}/W12/ordered/abandoned-stream", if c == "default" { "streams2" } else { c }) });
    }
    // every datagram padded to the MTU estimate while that estimate is above 1200: loss probes and
    // other size-clamped datagrams carry length-less STREAM frames next to the padding
    for wl in [Wl::W6, Wl::W2, Wl::W1] {
        for (wn, win) in [("start", (0u64, 26u64)), ("mid", (14, 40))] {
            if !thorough && wl != Wl::W6 && wn == "start" {
                continue;
            }
            let mut cfg = cfg_by_name("padmtu");
            cfg.client.initial_mtu = 1452;
            cfg.server.initial_mtu = 1452;
            cfg.client.name = "padmtu1452".into();
            v.push(Case { cfg, wl, read: ReadMode::default(), script: vec![], window: win, name: format!("padmtu1452/{wl:?}/ordered/{wn}") });
        }
    }
    // auxiliary operations as part of the scenario: key updates, link MTU changes, window changes
    let aux: Vec<(&str, Vec<(u64, Op)>)> = vec![
        ("keyupd-c@20", vec![(20, Op::KeyUpdate(CLIENT))]),
        ("keyupd-s@24", vec![(24, Op::KeyUpdate(SERVER))]),
        ("keyupd-both", vec![(22, Op::KeyUpdate(CLIENT)), (22, Op::KeyUpdate(SERVER))]),
        ("linkmtu1300@30", vec![(30, Op::LinkMtu(1300))]),
        ("recvwin-shrink@22", vec![(22, Op::SetRecvWindow(SERVER, 2000))]),
        ("sendwin-shrink@20", vec![(20, Op::SetSendWindow(CLIENT, 1500))]),
    ];
    for (an, script) in aux {
        for wl in [Wl::W2, Wl::W6] {
            if !thorough && wl == Wl::W6 && !an.starts_with("keyupd-c") && !an.starts_with("recvwin") {
                continue;
            }
            v.push(Case {
                cfg: cfg_by_name(if an.starts_with("linkmtu") { "mtu1452" } else { "default" }),
                wl,
                read: ReadMode::default(),
                script: script.clone(),
                window: (14, 40),
                name: format!("default/{wl:?}/ordered/mid/{an}"),
            });
        }
    }
    v
}

pub struct Out {
    pub points: u64,
    pub trace: u64,
    pub viol: Vec<(String, String)>,
}

pub fn run_case(base: Instant, c: &Case, devs: &Devs, alts: &[crate::sim::Fate]) -> Out {
    let r = guarded(|| {
        let mut p = std_pair_pre(base, &c.cfg, c.wl, c.read, |w| {
            w.fates = fates_of(devs, alts);
            w.keep_data = false;
        });
        let done = drive(&mut p, &c.script, 80_000, Duration::from_secs(900));
        (p, done)
    });
    match r {
        Err(panic) => Out { points: 0, trace: 0, viol: vec![("panic".into(), format!("panic: {panic}"))] },
        Ok((p, done)) => {
            let mut viol = vec![];
            for (s, w) in integrity(&p) {
                viol.push((format!("integrity:{s}"), w));
            }
            if !done {
                let d = diagnose(&p);
                // discriminate one known way to stall (F37): with pad_to_mtu, padded ACK-only packets
                // count as bytes in flight but nobody acknowledges them; once they fill the window
                // and something ack-eliciting is queued, nothing - not even ACKs - leaves any more
                let ack_only_deadlock = c.cfg.client.pad_to_mtu
                    && [crate::sim::CLIENT, crate::sim::SERVER].iter().any(|n| {
                        p.w.nodes[*n].conns.values().any(|s| {
                            let pr = s.conn.verif_probe();
                            pr.in_flight_ack_eliciting == 0 && pr.in_flight_bytes > 0 && pr.in_flight_bytes + s.conn.current_mtu() as u64 >= pr.cwnd
                        })
                    });
                for (s, w) in completion(&p) {
                    let s = if ack_only_deadlock { "pad_to_mtu-ack-only-packets-fill-window".to_string() } else { s };
                    viol.push((format!("incomplete:{s}"), format!("{w}; t={:?} steps={} {d}", p.w.t, p.w.steps)));
                }
                if viol.is_empty() {
                    viol.push(("incomplete".into(), format!("workload not complete; t={:?} steps={} {d}", p.w.t, p.w.steps)));
                }
            } else {
                for (s, w) in completion(&p) {
                    viol.push((format!("complete:{s}"), w));
                }
            }
            Out { points: p.w.emitted, trace: p.w.trace_hash(), viol }
        }
    }
}

fn replay(path: &std::path::Path) -> ! {
    let v: serde_json::Value = serde_json::from_str(&std::fs::read_to_string(path).unwrap_or_else(|e| crate::report::machinery(&format!("{e}")))).unwrap_or_else(|e| crate::report::machinery(&format!("{e}")));
    let r = &v["replay"];
    let name = r["case"].as_str().unwrap_or("");
    let all = cases(true);
    let c = all.iter().find(|c| c.name == name).unwrap_or_else(|| crate::report::machinery("unknown case"));
    let devs: Devs = r["devs"].as_array().map(|d| d.iter().map(|x| (x[0].as_u64().unwrap(), x[1].as_u64().unwrap() as u16)).collect()).unwrap_or_default();
    let base = Instant::now();
    let alts: &[crate::sim::Fate] = if r["alts_len"].as_u64() == Some(3) { &FATE_ALTS3 } else { &FATE_ALTS };
    let mut p = std_pair_pre(base, &c.cfg, c.wl, c.read, |w| w.fates = fates_of(&devs, alts));
    let done = drive(&mut p, &c.script, 80_000, Duration::from_secs(900));
    print!("{}", crate::trace::dump(&p.w));
    println!("done={done} integrity={:?} completion={:?}", integrity(&p), completion(&p));
    println!("{}", diagnose(&p));
    std::process::exit(0)
}

pub fn main(args: &Args) -> ! {
    if let Some(p) = &args.replay {
        let v: serde_json::Value = serde_json::from_str(&std::fs::read_to_string(p).unwrap_or_default()).unwrap_or_default();
        if let Some(out) = crate::checks::replay_comp(&v) {
            println!("{out}");
            std::process::exit(0)
        }
        replay(p);
    }
    explore::quiet_panics();
    let base = Instant::now();
    let mut rep = Report::new("C01", args, "model_checking");
    let thorough = args.tier == Tier::Thorough;
    let k = if thorough { 3 } else { 2 };
    let alts: &[crate::sim::Fate] = if thorough { &FATE_ALTS } else { &FATE_ALTS3 };
    // component-level searches first (their own budget), then whole connections
    crate::checks::merge_comp(&mut rep, "C01", thorough, deadline(if thorough { 600 } else { 20 }));
    let dl = deadline(if thorough { 1500 } else { 28 });
    let mut cs = cases(thorough);
    if !thorough {
        for c in cs.iter_mut() {
            c.window.1 = c.window.0 + 18;
        }
    }
    rep.rule = format!("E2: for each case (configuration / workload / reader mode / fault window / scripted aux operation) every execution with at most k={k} deviations from default delivery, over the fate alphabet {:?} (quick: drop / dup 15 ms / delay 40 ms) applied to the datagrams whose global emission index lies in the window, is run on real client and server endpoints; the integrity oracle inspects every chunk either application obtains. E1 (component level, merged below) explores Assembler / SendBuffer / RangeSet / Dedup against reference models. Non-trivial = observable trace hash differs from the case's deviation-free baseline; distinct = distinct trace hashes.", FATE_ALTS);
    let mut total = 0u64;
    let mut capped_any = false;
    let mut per_case = vec![];
    for c in &cs {
        let r = e2(
            |d: &Devs| {
                let o = run_case(base, c, d, alts);
                RunOut { points: o.points, trace: o.trace, violation: o.viol.first().cloned(), note: 0 }
            },
            c.window,
            alts.len() as u16,
            k,
            dl,
        );
        total += r.executions;
        capped_any |= r.capped;
        let b = r.outs[0].1.trace;
        let mut changed = 0u64;
        for (d, o) in &r.outs {
            rep.evaluations += 1;
            if o.trace != b {
                changed += 1;
                rep.distinct.insert(o.trace);
            }
            if let Some((sig, what)) = &o.violation {
                rep.violation(Violation {
                    signature: format!("{sig}:{}", c.cfg.client.name),
                    what: format!("case={} deviations={d:?}: {what}", c.name),
                    replay: json!({"check":"c01","case":c.name,"devs":d,"alts_len":alts.len()}),
                });
            }
        }
        per_case.push(json!({"case": c.name, "executions": r.executions, "per_k": r.per_k, "k_completed": r.k_completed, "changed_trace": changed}));
        if r.capped {
            break;
        }
    }
    rep.exhaustive = !capped_any;
    rep.part("e2_whole_connection", json!({"k": k, "cases": cs.len(), "executions": total, "capped": capped_any, "per_case": per_case}));
    // stream data written before the handshake completed (0-RTT, accepted), with and without a Retry
    // in between: delivered exactly once, in order, whatever subset of the first datagrams is lost
    {
        use crate::checks::c17;
        let kb: u32 = if thorough { 8 } else { 5 };
        let mut tasks = vec![];
        let mut cfgs = vec![];
        for wl in 0..c17::N_WL {
            for retry in [false, true] {
                let c = c17::Case { wl, accept: true, retry, hold: None, params: c17::PMode::Same, mask: 0, devs: vec![], alts: 3 };
                cfgs.push(c17::make_cfg(base, &c));
                for mask in 0..(1u64 << kb) {
                    tasks.push((cfgs.len() - 1, c17::Case { mask, ..c.clone() }));
                }
            }
        }
        let n = tasks.len();
        // (a deadline of its own: a loaded machine must not leave this part unexplored)
        let dl0 = deadline(if thorough { 300 } else { 25 });
        let (res, capped) = explore::e3(tasks, dl0, |(i, c)| c17::run_case(base, c, &cfgs[*i], None));
        rep.exhaustive &= !capped;
        for ((_, c), r) in &res {
            rep.evaluations += 1;
            let rj = json!({"check":"c17","replay_with":"./check C17 --replay","wl":c.wl,"accept":c.accept,"retry":c.retry,"hold":c.hold,"params":format!("{:?}",c.params),"mask":c.mask,"devs":c.devs,"alts":c.alts});
            match r {
                Err(e) => rep.violation(Violation { signature: "0rtt:panic".into(), what: format!("early-data workload {} retry={} drop mask {:#b}: panic: {e}", c.wl, c.retry, c.mask), replay: rj }),
                Ok(o) => {
                    rep.distinct.insert(o.trace);
                    for (sig, what) in &o.viol {
                        rep.violation(Violation { signature: format!("0rtt:{sig}"), what: format!("early-data workload {} (0-RTT accepted) retry={} drop mask {:#b}: {what}", c.wl, c.retry, c.mask), replay: rj.clone() });
                    }
                }
            }
        }
        rep.part("early_data_streams", json!({"K": kb, "cases": n, "executed": res.len(), "capped": capped}));
    }
    rep.sample(json!({"case": cs[0].name, "deviations": [[3,0],[9,2]], "meaning": "datagram #3 dropped and datagram #9 delayed by 15 ms; everything else delivered FIFO after the link latency"}));
    rep.states += rep.distinct.len() as u64;
    rep.transitions += total;
    rep.assumptions = vec![
        "stream payload is a fixed pattern of (stream id, offset); content-dependent bugs are out of scope".into(),
        "at most k deviations per execution, inside the stated windows; streams <= 60 kB".into(),
        "model TLS (mtls) replaces rustls".into(),
    ];
    let _ = scen::Wl::W0;
    rep.finish()
}
